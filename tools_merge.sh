#!/bin/sh
# merge a builder branch; files that are *generated* are regenerated instead of merged
set -e
cd "$(dirname "$0")"
git merge --no-edit "$1" || true
for f in MANIFEST.json lean/XrsVerif.lean lean/XrsVerif/Driver/All.lean lean/XrsVerif/Gen/report.json; do
  git checkout --ours -- "$f" 2>/dev/null || true
done
for f in $(git diff --name-only --diff-filter=U); do
  case "$f" in
    lean/XrsVerif/Gen/*|lean/XrsVerif/Audit/*|evidence/*) git checkout --theirs -- "$f" ;;
    lean/XrsVerif.lean) git checkout --ours -- "$f" ;;
    *) echo "UNRESOLVED: $f"; bad=1 ;;
  esac
done
if [ -n "$bad" ]; then echo "resolve the files above, then: python3 harness/translate.py; python3 tools_registry.py; python3 tools_mkmanifest.py; git add -A; git commit"; exit 1; fi
python3 harness/translate.py
python3 tools_registry.py
python3 tools_mkmanifest.py
git add -A
git diff --cached --name-only --diff-filter=U
git -c core.editor=true commit -qm "merge $1" || true
git log --oneline | head -1
