"""
T2 facts of xrspatial/viewshed.py for C05 (read from the `ast`, nothing is imported or executed):

  * which array fields each status-structure routine stores to, and which routines it calls
    (`_rb_insert_fixup` / `_rb_delete_fixup` write only colour fields and call only the two
    rotations, so colour logic cannot affect the query; the rotations write only the stored maximum
    and the three links; the query routines store nothing);
  * the sentinel / output constants and the event ordering the sweep relies on.
A routine that is missing, or a store whose target is not `array[...][FIELD]`, is reported as the
field "?" -- which no theorem of Props/C05.lean accepts.
"""
import ast
import os

from translate import find_func, lean_str

REL = "xrspatial/viewshed.py"
ROUTINES = ["_rb_insert_fixup", "_rb_delete_fixup", "_left_rotate", "_right_rotate", "_insert_into_tree",
            "_delete_from_tree", "_search_for_node", "_find_max_value_within_key", "_max_grad_in_status_struct",
            "_create_tree_nodes"]


def stores_and_calls(func):
    stores, calls = set(), []
    if func is None:
        return [("?", "?")], ["?"]
    for n in ast.walk(func):
        targets = []
        if isinstance(n, ast.Assign):
            targets = n.targets
        elif isinstance(n, (ast.AugAssign, ast.AnnAssign)):
            targets = [n.target]
        for t in targets:
            for el in (t.elts if isinstance(t, ast.Tuple) else [t]):
                if isinstance(el, ast.Name):
                    continue
                # array[index][FIELD] = ...
                if isinstance(el, ast.Subscript) and isinstance(el.value, ast.Subscript) \
                        and isinstance(el.value.value, ast.Name) and isinstance(el.slice, ast.Name):
                    stores.add((el.value.value.id, el.slice.id))
                else:
                    stores.add(("?", ast.unparse(el)))
        if isinstance(n, ast.Call):
            nm = n.func.id if isinstance(n.func, ast.Name) else ast.unparse(n.func)
            if nm not in calls:
                calls.append(nm)
    return sorted(stores), calls


def const_value(mod, name):
    for st in mod.body:
        if isinstance(st, ast.Assign) and len(st.targets) == 1 and isinstance(st.targets[0], ast.Name) \
                and st.targets[0].id == name:
            try:
                return ast.literal_eval(st.value)
            except ValueError:
                return None
    return None


def lean_pairs(ps):
    return "[" + ", ".join(f"({lean_str(a)}, {lean_str(b)})" for a, b in ps) + "]"


def lean_strs(xs):
    return "[" + ", ".join(lean_str(x) for x in xs) + "]"


def lean_int(v):
    if isinstance(v, float) and v == int(v):
        v = int(v)
    if not isinstance(v, int):
        return "0  -- not an integer constant in the source: " + repr(v)
    return str(v) if v >= 0 else f"({v})"


# ---------------------------------------------------------------- event geometry (C05, Model/ViewshedEvents.lean)
BAD_ROW = "(7, 7, 0, 0, 0, 0)"      # an if-chain branch that could not be read: no theorem accepts it


def _sign_cmp(n):
    """`event_row < viewpoint_row` etc. -> ('row'|'col', sign of event - viewpoint) or None"""
    if not (isinstance(n, ast.Compare) and len(n.ops) == 1 and isinstance(n.left, ast.Name)
            and isinstance(n.comparators[0], ast.Name)):
        return None
    a, b, op = n.left.id, n.comparators[0].id, n.ops[0]
    sign = {ast.Lt: -1, ast.Eq: 0, ast.Gt: 1}.get(type(op))
    if sign is None:
        return None
    for axis in ("row", "col"):
        if (a, b) == (f"event_{axis}", f"viewpoint_{axis}"):
            return axis, sign
        if (a, b) == (f"viewpoint_{axis}", f"event_{axis}"):
            return axis, -sign
    return None


def _offsets(stmts, scale):
    """`y = event_row - 0.5; x = event_col + 0.5` -> (scale*dy, scale*dx) as ints, or None"""
    got = {}
    for st in stmts:
        if isinstance(st, ast.Assert):
            continue
        if not (isinstance(st, ast.Assign) and len(st.targets) == 1 and isinstance(st.targets[0], ast.Name)
                and st.targets[0].id in ("x", "y")):
            return None
        v, base = st.value, {"y": "event_row", "x": "event_col"}[st.targets[0].id]
        if isinstance(v, ast.Name) and v.id == base:
            off = 0
        elif isinstance(v, ast.BinOp) and isinstance(v.left, ast.Name) and v.left.id == base \
                and isinstance(v.right, ast.Constant) and isinstance(v.op, (ast.Add, ast.Sub)):
            off = v.right.value * scale * (1 if isinstance(v.op, ast.Add) else -1)
        else:
            return None
        if off != int(off):
            return None
        got[st.targets[0].id] = int(off)
    if set(got) != {"x", "y"}:
        return None
    return got["y"], got["x"]


def branch_table(func, scale):
    """the if / elif chain on the position of the event cell relative to the viewpoint, one entry per branch in
    source order: (sign row, sign col, ENTER dy, dx, EXIT dy, dx), offsets multiplied by `scale`"""
    if func is None:
        return [BAD_ROW], ["missing"]
    chain = None
    for st in func.body:
        if isinstance(st, ast.If) and isinstance(st.test, ast.BoolOp) and isinstance(st.test.op, ast.And):
            chain = st
            break
    if chain is None:
        return [BAD_ROW], ["no if-chain"]
    rows, notes = [], []
    node = chain
    while True:
        signs = {}
        ok = isinstance(node.test, ast.BoolOp) and isinstance(node.test.op, ast.And) and len(node.test.values) == 2
        if ok:
            for v in node.test.values:
                sc = _sign_cmp(v)
                if sc is None or sc[0] in signs:
                    ok = False
                    break
                signs[sc[0]] = sc[1]
        ent = ext = None
        if ok and len(node.body) == 1 and isinstance(node.body[0], ast.If):
            inner = node.body[0]
            t = inner.test
            if isinstance(t, ast.Compare) and isinstance(t.left, ast.Name) and t.left.id == "event_type" \
                    and len(t.ops) == 1 and isinstance(t.ops[0], ast.Eq) and isinstance(t.comparators[0], ast.Name) \
                    and t.comparators[0].id == "ENTERING_EVENT":
                ent, ext = _offsets(inner.body, scale), _offsets(inner.orelse, scale)
        if ok and ent is not None and ext is not None and set(signs) == {"row", "col"}:
            rows.append(f"({signs['row']}, {signs['col']}, {ent[0]}, {ent[1]}, {ext[0]}, {ext[1]})")
        else:
            rows.append(BAD_ROW)
            notes.append("unreadable branch: " + ast.unparse(node.test))
        if len(node.orelse) == 1 and isinstance(node.orelse[0], ast.If):
            node = node.orelse[0]
            continue
        # the final else: the viewpoint's own cell
        off = _offsets(node.orelse, scale) if node.orelse else None
        if off is not None:
            rows.append(f"(0, 0, {off[0]}, {off[1]}, {off[0]}, {off[1]})")
        else:
            rows.append(BAD_ROW)
            notes.append("unreadable final else")
        break
    return rows, notes


def corner_elev_shape(func):
    """`_calc_event_elev`: where the neighbour comes from, the in-raster guard, the four cells read, the mean"""
    out = dict(neighbour="?", default="?", guard="?", reads=[], mean="?", nan_fallback="?")
    if func is None:
        return out
    names = {}
    for st in func.body:
        if isinstance(st, ast.Assign) and isinstance(st.value, ast.Call) and isinstance(st.value.func, ast.Name) \
                and isinstance(st.targets[0], ast.Tuple):
            out["neighbour"] = ast.unparse(st.targets[0]) + " = " + st.value.func.id + "(" + \
                ", ".join(ast.unparse(a) for a in st.value.args) + ")"
        elif isinstance(st, ast.Assign) and isinstance(st.targets[0], ast.Name) and st.targets[0].id == "event_elev":
            out["default"] = ast.unparse(st.value)
        elif isinstance(st, ast.If):
            out["guard"] = ast.unparse(st.test)
            for s2 in st.body:
                if isinstance(s2, ast.Assign) and isinstance(s2.targets[0], ast.Name) and s2.targets[0].id.startswith("elev"):
                    names[s2.targets[0].id] = ast.unparse(s2.value)
                elif isinstance(s2, ast.If):
                    for s3 in s2.body:
                        if isinstance(s3, ast.Assign):
                            out["nan_fallback"] = ast.unparse(s3.value)
                    for s3 in s2.orelse:
                        if isinstance(s3, ast.Assign):
                            out["mean"] = ast.unparse(s3.value)
    out["reads"] = [names[k] for k in sorted(names)]
    return out


def data_writes(func):
    """`_init_event_list`: the writes `data[k][j] = e[FIELD]` of the per-cell loop body, split into those before the
    `continue` that skips the viewpoint's own cell and those after BOTH corner elevations have been computed"""
    res = dict(before_skip=[], after_elevs=[], elsewhere=[], guards=[])
    if func is None:
        return res
    inner = None
    for n in ast.walk(func):
        if isinstance(n, ast.For) and isinstance(n.target, ast.Name) and n.target.id == "j" \
                and any(isinstance(m, ast.Continue) for m in ast.walk(n)):
            inner = n
    if inner is None:
        return res
    seen_continue = False
    elevs = set()
    for st in inner.body:
        if isinstance(st, ast.If) and any(isinstance(m, ast.Continue) for m in ast.walk(st)):
            seen_continue = True
            continue
        if isinstance(st, ast.Assign) and isinstance(st.targets[0], ast.Subscript) \
                and isinstance(st.targets[0].value, ast.Name) and st.targets[0].value.id == "e" \
                and isinstance(st.value, ast.Call) and isinstance(st.value.func, ast.Name) \
                and st.value.func.id == "_calc_event_elev":
            elevs.add(ast.unparse(st.targets[0].slice))
            continue
        if isinstance(st, ast.If):
            for s2 in st.body:
                t = s2.targets[0] if isinstance(s2, ast.Assign) else None
                if t is not None and isinstance(t, ast.Subscript) and isinstance(t.value, ast.Subscript) \
                        and isinstance(t.value.value, ast.Name) and t.value.value.id == "data":
                    k = ast.unparse(t.value.slice)
                    rhs = ast.unparse(s2.value)
                    rhs = rhs[2:-1] if rhs.startswith("e[") and rhs.endswith("]") else "?" + rhs
                    entry = (int(k) if k.isdigit() else 9, rhs)
                    if ast.unparse(st.test) not in res["guards"]:
                        res["guards"].append(ast.unparse(st.test))
                    if not seen_continue:
                        res["before_skip"].append(entry)
                    elif {"E_ELEV_0", "E_ELEV_2"} <= elevs:
                        res["after_elevs"].append(entry)
                    else:
                        res["elsewhere"].append(entry)
    return res


def lean_int_pairs(ps):
    return "[" + ", ".join(f"({a}, {lean_str(b)})" for a, b in ps) + "]"


def generate(repo):
    mod = ast.parse(open(os.path.join(repo, REL)).read())
    out = ["/-! GENERATED by harness/facts_viewshed.py from the current /repo source -- do not edit. -/",
           "namespace XrsVerif.Gen.Viewshed", ""]
    rep = {}
    for r in ROUTINES:
        st, calls = stores_and_calls(find_func(mod, r))
        nm = r.strip("_")
        out.append(f"/-- `{r}`: array fields stored to -/")
        out.append(f"def {nm}_stores : List (String × String) := {lean_pairs(st)}")
        out.append(f"def {nm}_calls : List String := {lean_strs(calls)}")
        out.append("")
        rep[r] = dict(stores=st, calls=calls)
    consts = {}
    for c in ["SMALLEST_GRAD", "INVISIBLE", "NIL_ID", "RB_RED", "RB_BLACK", "ENTERING_EVENT", "EXITING_EVENT",
              "CENTER_EVENT", "TN_KEY_ID", "TN_GRAD_0", "TN_GRAD_1", "TN_GRAD_2", "TN_ANG_0", "TN_ANG_1", "TN_ANG_2",
              "TN_MAX_GRAD_ID", "TN_COLOR_ID", "TN_LEFT_ID", "TN_RIGHT_ID", "TN_PARENT_ID"]:
        v = const_value(mod, c)
        consts[c] = v
        out.append(f"def {c} : Int := {lean_int(v)}")
    out.append("")
    # the observer's value and the initial fill of the visibility grid
    obs = None
    f = find_func(mod, "_init_event_list")
    if f is not None:
        for n in ast.walk(f):
            if isinstance(n, ast.Call) and isinstance(n.func, ast.Name) and n.func.id == "_set_visibility" \
                    and len(n.args) == 4 and isinstance(n.args[3], ast.Constant):
                obs = n.args[3].value
    out.append(f"def observerValue : Int := {lean_int(obs)}")
    fill = None
    f = find_func(mod, "_viewshed_cpu")
    lexkeys = []
    if f is not None:
        for n in ast.walk(f):
            if isinstance(n, ast.Call) and isinstance(n.func, ast.Attribute) and n.func.attr == "fill" \
                    and isinstance(n.func.value, ast.Name) and n.func.value.id == "visibility_grid" and n.args:
                fill = ast.unparse(n.args[0])
            if isinstance(n, ast.Call) and isinstance(n.func, ast.Attribute) and n.func.attr == "lexsort" and n.args \
                    and isinstance(n.args[0], ast.Tuple):
                for el in n.args[0].elts:   # event_list[:, E_TYPE_ID]
                    if isinstance(el, ast.Subscript) and isinstance(el.slice, ast.Tuple) and len(el.slice.elts) == 2 \
                            and isinstance(el.slice.elts[1], ast.Name):
                        lexkeys.append(el.slice.elts[1].id)
                    else:
                        lexkeys.append("?")
    out.append(f"def gridFill : String := {lean_str(fill or '?')}")
    out.append("/-- `np.lexsort` keys, last key is the primary one -/")
    out.append(f"def lexsortKeys : List String := {lean_strs(lexkeys)}")
    # the visibility test of the sweep and what is stored for a visible cell
    test, stored = "?", "?"
    f = find_func(mod, "_viewshed_cpu_sweep")
    if f is not None:
        for n in ast.walk(f):
            if isinstance(n, ast.If) and isinstance(n.test, ast.Compare) and isinstance(n.test.left, ast.Name) \
                    and n.test.left.id == "max":
                test = ast.unparse(n.test)
                for m in ast.walk(n):
                    if isinstance(m, ast.Call) and isinstance(m.func, ast.Name) and m.func.id == "_set_visibility":
                        stored = ast.unparse(m.args[3])
    out.append(f"def visibleTest : String := {lean_str(test)}")
    out.append(f"def visibleStores : String := {lean_str(stored)}")
    out.append("")
    # event geometry
    pos_rows, pos_notes = branch_table(find_func(mod, "_calc_event_pos"), 2)
    rc_rows, rc_notes = branch_table(find_func(mod, "_calculate_event_row_col"), 1)
    out.append("/-- `_calc_event_pos`: the if-chain on the position of the cell relative to the viewpoint, one entry per branch")
    out.append("    in source order: (sign of event_row - viewpoint_row, sign of event_col - viewpoint_col, ENTER 2*dy, 2*dx,")
    out.append("    EXIT 2*dy, 2*dx); the last entry is the final `else` (the viewpoint's own cell) -/")
    out.append("def calcEventPosTable : List (Int × Int × Int × Int × Int × Int) := [" + ", ".join(pos_rows) + "]")
    out.append("/-- `_calculate_event_row_col`: the same chain, offsets (dy, dx) of the diagonal neighbour -/")
    out.append("def calcEventRowColTable : List (Int × Int × Int × Int × Int × Int) := [" + ", ".join(rc_rows) + "]")
    ce = corner_elev_shape(find_func(mod, "_calc_event_elev"))
    out.append("/-- `_calc_event_elev`: neighbour, default, in-raster guard, the four cells read (elev1..elev4), NaN fallback, mean -/")
    out.append(f"def cornerElevNeighbour : String := {lean_str(ce['neighbour'])}")
    out.append(f"def cornerElevDefault : String := {lean_str(ce['default'])}")
    out.append(f"def cornerElevGuard : String := {lean_str(ce['guard'])}")
    out.append(f"def cornerElevReads : List String := {lean_strs(ce['reads'])}")
    out.append(f"def cornerElevNanFallback : String := {lean_str(ce['nan_fallback'])}")
    out.append(f"def cornerElevMean : String := {lean_str(ce['mean'])}")
    dw = data_writes(find_func(mod, "_init_event_list"))
    out.append("/-- `_init_event_list`: writes `data[k][j] = e[FIELD]` (the observer-row buffer that seeds the status structure):")
    out.append("    before the `continue` that skips the viewpoint's own cell / after both corner elevations are computed /")
    out.append("    anywhere else in the per-cell loop body; and the guards they stand under -/")
    out.append(f"def dataWritesBeforeSkip : List (Int × String) := {lean_int_pairs(dw['before_skip'])}")
    out.append(f"def dataWritesAfterElevs : List (Int × String) := {lean_int_pairs(dw['after_elevs'])}")
    out.append(f"def dataWritesElsewhere : List (Int × String) := {lean_int_pairs(dw['elsewhere'])}")
    out.append(f"def dataWriteGuards : List String := {lean_strs(dw['guards'])}")
    out.append("")
    out.append("end XrsVerif.Gen.Viewshed")
    rep.update(consts=consts, observer=obs, fill=fill, lexsort=lexkeys, test=test, stored=stored,
               event_pos_notes=pos_notes, event_row_col_notes=rc_notes, corner_elev=ce, data_writes=dw)
    yield "ViewshedFacts.lean", "\n".join(out) + "\n", rep
