"""
T2 facts of xrspatial/viewshed.py for C05 (read from the `ast`, nothing is imported or executed):

  * which array fields each status-structure routine stores to, and which routines it calls
    (`_rb_insert_fixup` / `_rb_delete_fixup` write only colour fields and call only the two
    rotations, so colour logic cannot affect the query; the rotations write only the stored maximum
    and the three links; the query routines store nothing);
  * the sentinel / output constants and the event ordering the sweep relies on.
A routine that is missing, or a store whose target is not `array[...][FIELD]`, is reported as the
field "?" -- which no theorem of Props/C05.lean accepts.
"""
import ast
import os
import re

from translate import find_func, lean_str

REL = "xrspatial/viewshed.py"
ROUTINES = ["_rb_insert_fixup", "_rb_delete_fixup", "_left_rotate", "_right_rotate", "_insert_into_tree",
            "_delete_from_tree", "_search_for_node", "_find_max_value_within_key", "_max_grad_in_status_struct",
            "_create_tree_nodes"]


def stores_and_calls(func):
    stores, calls = set(), []
    if func is None:
        return [("?", "?")], ["?"]
    for n in ast.walk(func):
        targets = []
        if isinstance(n, ast.Assign):
            targets = n.targets
        elif isinstance(n, (ast.AugAssign, ast.AnnAssign)):
            targets = [n.target]
        for t in targets:
            for el in (t.elts if isinstance(t, ast.Tuple) else [t]):
                if isinstance(el, ast.Name):
                    continue
                # array[index][FIELD] = ...
                if isinstance(el, ast.Subscript) and isinstance(el.value, ast.Subscript) \
                        and isinstance(el.value.value, ast.Name) and isinstance(el.slice, ast.Name):
                    stores.add((el.value.value.id, el.slice.id))
                else:
                    stores.add(("?", ast.unparse(el)))
        if isinstance(n, ast.Call):
            nm = n.func.id if isinstance(n.func, ast.Name) else ast.unparse(n.func)
            if nm not in calls:
                calls.append(nm)
    return sorted(stores), calls


def const_value(mod, name):
    for st in mod.body:
        if isinstance(st, ast.Assign) and len(st.targets) == 1 and isinstance(st.targets[0], ast.Name) \
                and st.targets[0].id == name:
            try:
                return ast.literal_eval(st.value)
            except ValueError:
                return None
    return None


def lean_pairs(ps):
    return "[" + ", ".join(f"({lean_str(a)}, {lean_str(b)})" for a, b in ps) + "]"


def lean_strs(xs):
    return "[" + ", ".join(lean_str(x) for x in xs) + "]"


def lean_int(v):
    if isinstance(v, float) and v == int(v):
        v = int(v)
    if not isinstance(v, int):
        return "0  -- not an integer constant in the source: " + repr(v)
    return str(v) if v >= 0 else f"({v})"


# ---------------------------------------------------------------- event geometry (C05, Model/ViewshedEvents.lean)
BAD_ROW = "(7, 7, 0, 0, 0, 0)"      # an if-chain branch that could not be read: no theorem accepts it


def _sign_cmp(n):
    """`event_row < viewpoint_row` etc. -> ('row'|'col', sign of event - viewpoint) or None"""
    if not (isinstance(n, ast.Compare) and len(n.ops) == 1 and isinstance(n.left, ast.Name)
            and isinstance(n.comparators[0], ast.Name)):
        return None
    a, b, op = n.left.id, n.comparators[0].id, n.ops[0]
    sign = {ast.Lt: -1, ast.Eq: 0, ast.Gt: 1}.get(type(op))
    if sign is None:
        return None
    for axis in ("row", "col"):
        if (a, b) == (f"event_{axis}", f"viewpoint_{axis}"):
            return axis, sign
        if (a, b) == (f"viewpoint_{axis}", f"event_{axis}"):
            return axis, -sign
    return None


def _offsets(stmts, scale):
    """`y = event_row - 0.5; x = event_col + 0.5` -> (scale*dy, scale*dx) as ints, or None"""
    got = {}
    for st in stmts:
        if isinstance(st, ast.Assert):
            continue
        if not (isinstance(st, ast.Assign) and len(st.targets) == 1 and isinstance(st.targets[0], ast.Name)
                and st.targets[0].id in ("x", "y")):
            return None
        v, base = st.value, {"y": "event_row", "x": "event_col"}[st.targets[0].id]
        if isinstance(v, ast.Name) and v.id == base:
            off = 0
        elif isinstance(v, ast.BinOp) and isinstance(v.left, ast.Name) and v.left.id == base \
                and isinstance(v.right, ast.Constant) and isinstance(v.op, (ast.Add, ast.Sub)):
            off = v.right.value * scale * (1 if isinstance(v.op, ast.Add) else -1)
        else:
            return None
        if off != int(off):
            return None
        got[st.targets[0].id] = int(off)
    if set(got) != {"x", "y"}:
        return None
    return got["y"], got["x"]


def branch_table(func, scale):
    """the if / elif chain on the position of the event cell relative to the viewpoint, one entry per branch in
    source order: (sign row, sign col, ENTER dy, dx, EXIT dy, dx), offsets multiplied by `scale`"""
    if func is None:
        return [BAD_ROW], ["missing"]
    chain = None
    for st in func.body:
        if isinstance(st, ast.If) and isinstance(st.test, ast.BoolOp) and isinstance(st.test.op, ast.And):
            chain = st
            break
    if chain is None:
        return [BAD_ROW], ["no if-chain"]
    rows, notes = [], []
    node = chain
    while True:
        signs = {}
        ok = isinstance(node.test, ast.BoolOp) and isinstance(node.test.op, ast.And) and len(node.test.values) == 2
        if ok:
            for v in node.test.values:
                sc = _sign_cmp(v)
                if sc is None or sc[0] in signs:
                    ok = False
                    break
                signs[sc[0]] = sc[1]
        ent = ext = None
        if ok and len(node.body) == 1 and isinstance(node.body[0], ast.If):
            inner = node.body[0]
            t = inner.test
            if isinstance(t, ast.Compare) and isinstance(t.left, ast.Name) and t.left.id == "event_type" \
                    and len(t.ops) == 1 and isinstance(t.ops[0], ast.Eq) and isinstance(t.comparators[0], ast.Name) \
                    and t.comparators[0].id == "ENTERING_EVENT":
                ent, ext = _offsets(inner.body, scale), _offsets(inner.orelse, scale)
        if ok and ent is not None and ext is not None and set(signs) == {"row", "col"}:
            rows.append(f"({signs['row']}, {signs['col']}, {ent[0]}, {ent[1]}, {ext[0]}, {ext[1]})")
        else:
            rows.append(BAD_ROW)
            notes.append("unreadable branch: " + ast.unparse(node.test))
        if len(node.orelse) == 1 and isinstance(node.orelse[0], ast.If):
            node = node.orelse[0]
            continue
        # the final else: the viewpoint's own cell
        off = _offsets(node.orelse, scale) if node.orelse else None
        if off is not None:
            rows.append(f"(0, 0, {off[0]}, {off[1]}, {off[0]}, {off[1]})")
        else:
            rows.append(BAD_ROW)
            notes.append("unreadable final else")
        break
    return rows, notes


def corner_elev_shape(func):
    """`_calc_event_elev`: where the neighbour comes from, the in-raster guard, the four cells read, the mean"""
    out = dict(neighbour="?", default="?", guard="?", reads=[], mean="?", nan_fallback="?")
    if func is None:
        return out
    names = {}
    for st in func.body:
        if isinstance(st, ast.Assign) and isinstance(st.value, ast.Call) and isinstance(st.value.func, ast.Name) \
                and isinstance(st.targets[0], ast.Tuple):
            out["neighbour"] = ast.unparse(st.targets[0]) + " = " + st.value.func.id + "(" + \
                ", ".join(ast.unparse(a) for a in st.value.args) + ")"
        elif isinstance(st, ast.Assign) and isinstance(st.targets[0], ast.Name) and st.targets[0].id == "event_elev":
            out["default"] = ast.unparse(st.value)
        elif isinstance(st, ast.If):
            out["guard"] = ast.unparse(st.test)
            for s2 in st.body:
                if isinstance(s2, ast.Assign) and isinstance(s2.targets[0], ast.Name) and s2.targets[0].id.startswith("elev"):
                    names[s2.targets[0].id] = ast.unparse(s2.value)
                elif isinstance(s2, ast.If):
                    for s3 in s2.body:
                        if isinstance(s3, ast.Assign):
                            out["nan_fallback"] = ast.unparse(s3.value)
                    for s3 in s2.orelse:
                        if isinstance(s3, ast.Assign):
                            out["mean"] = ast.unparse(s3.value)
    out["reads"] = [names[k] for k in sorted(names)]
    return out


def data_writes(func):
    """`_init_event_list`: the writes `data[k][j] = e[FIELD]` of the per-cell loop body, split into those before the
    `continue` that skips the viewpoint's own cell and those after BOTH corner elevations have been computed"""
    res = dict(before_skip=[], after_elevs=[], elsewhere=[], guards=[])
    if func is None:
        return res
    inner = None
    for n in ast.walk(func):
        if isinstance(n, ast.For) and isinstance(n.target, ast.Name) and n.target.id == "j" \
                and any(isinstance(m, ast.Continue) for m in ast.walk(n)):
            inner = n
    if inner is None:
        return res
    seen_continue = False
    elevs = set()
    for st in inner.body:
        if isinstance(st, ast.If) and any(isinstance(m, ast.Continue) for m in ast.walk(st)):
            seen_continue = True
            continue
        if isinstance(st, ast.Assign) and isinstance(st.targets[0], ast.Subscript) \
                and isinstance(st.targets[0].value, ast.Name) and st.targets[0].value.id == "e" \
                and isinstance(st.value, ast.Call) and isinstance(st.value.func, ast.Name) \
                and st.value.func.id == "_calc_event_elev":
            elevs.add(ast.unparse(st.targets[0].slice))
            continue
        if isinstance(st, ast.If):
            for s2 in st.body:
                t = s2.targets[0] if isinstance(s2, ast.Assign) else None
                if t is not None and isinstance(t, ast.Subscript) and isinstance(t.value, ast.Subscript) \
                        and isinstance(t.value.value, ast.Name) and t.value.value.id == "data":
                    k = ast.unparse(t.value.slice)
                    rhs = ast.unparse(s2.value)
                    rhs = rhs[2:-1] if rhs.startswith("e[") and rhs.endswith("]") else "?" + rhs
                    entry = (int(k) if k.isdigit() else 9, rhs)
                    if ast.unparse(st.test) not in res["guards"]:
                        res["guards"].append(ast.unparse(st.test))
                    if not seen_continue:
                        res["before_skip"].append(entry)
                    elif {"E_ELEV_0", "E_ELEV_2"} <= elevs:
                        res["after_elevs"].append(entry)
                    else:
                        res["elsewhere"].append(entry)
    return res



# ---------------------------------------------------------------- the wrapper `_viewshed_cpu` (C05, Model/ViewshedWrapper.lean)
# A small symbolic evaluation of the straight-line body: every local name is replaced by the expression it was
# assigned (in statement order, so re-assigned names such as `x`, `y`, `event_list` are followed), and the resulting
# *inlined* expressions of the quantities the model needs are classified against the shapes the model understands.
# Anything else becomes `.other "<inlined source>"` / a role `?<inlined source>` and `wrapperOk := false`.
class _Subst(ast.NodeTransformer):
    def __init__(self, env):
        self.env = env

    def visit_Name(self, n):
        import copy
        if isinstance(n.ctx, ast.Load) and n.id in self.env:
            return copy.deepcopy(self.env[n.id])
        return n

    def visit_Subscript(self, n):
        self.generic_visit(n)
        # (a, b)[1] -> b
        if isinstance(n.value, ast.Tuple) and isinstance(n.slice, ast.Constant) and isinstance(n.slice.value, int) \
                and -len(n.value.elts) <= n.slice.value < len(n.value.elts):
            return n.value.elts[n.slice.value]
        return n


def _inl_node(env, e):
    import copy
    return _Subst(env).visit(copy.deepcopy(e))


def _inl(env, e):
    """inlined, canonical source text of expression `e`"""
    return ast.unparse(_inl_node(env, e))


def _sym(name):
    return ast.Name(id=name, ctx=ast.Load())


def _coords_axis(txt):
    """`raster.indexes.get('y').values` (or an equivalent spelling) -> 'y'"""
    for pat in (r"raster\.indexes\.get\('(\w+)'\)\.values", r"raster\.indexes\['(\w+)'\]\.values",
                r"raster\['(\w+)'\]\.values", r"raster\.coords\['(\w+)'\]\.values", r"raster\.(x|y)\.values"):
        m = re.fullmatch(pat, txt)
        if m:
            return m.group(1)
    return None


def _canon_coords(txt):
    """rewrite every spelling of a coordinate array as `coords:<axis>` inside an inlined expression"""
    for pat in (r"raster\.indexes\.get\('(\w+)'\)\.values", r"raster\.indexes\['(\w+)'\]\.values",
                r"raster\['(\w+)'\]\.values", r"raster\.coords\['(\w+)'\]\.values"):
        txt = re.sub(pat, lambda m: f"coords:{m.group(1)}", txt)
    return txt


def _classify_res(txt):
    """(c[-1] - c[0]) / (extent - 1) over the coordinate array of one axis -> ('coordSpan', axis, extent)"""
    t = _canon_coords(txt)
    m = re.fullmatch(r"\(coords:(\w+)\[-1\] - coords:(\w+)\[0\]\) / \(raster\.(shape\[\d\]) - 1\)", t)
    if m and m.group(1) == m.group(2):
        return ("coordSpan", m.group(1), m.group(3))
    return ("other", t)


def _classify_obs(txt):
    """np.where(c == raster.sel(x=[x], y=[y], method='nearest').<axis>.values[0])[0][0] -> ('nearestThenEq', axis)"""
    t = _canon_coords(txt)
    m = re.fullmatch(r"np\.where\(coords:(\w+) == raster\.sel\(x=\[x\], y=\[y\], method='nearest'\)\.(\w+)\.values\[0\]\)\[0\]\[0\]", t)
    if m and m.group(1) == m.group(2):
        return ("nearestThenEq", m.group(1))
    return ("other", t)


def wrapper_facts(mod):
    """facts of `_viewshed_cpu`: see the generated doc comments in Gen/ViewshedFacts.lean"""
    import re as _re   # noqa: F401
    f = find_func(mod, "_viewshed_cpu")
    sweep = find_func(mod, "_viewshed_cpu_sweep")
    init = find_func(mod, "_init_event_list")
    W = dict(ok=True, notes=[], ew=("other", "?"), ns=("other", "?"), row=("other", "?"), col=("other", "?"),
             range_checks=[], velev="?", vtarget="?", init_args=[], sweep_params=[], sweep_args=[], rcts=("?", "?"),
             aes=("?", "?"), cast="?", cast_before_init=False, sorted_src="?")

    def bad(msg):
        W["ok"] = False
        if len(W["notes"]) < 8:
            W["notes"].append(msg[:200])
    if f is None or sweep is None or init is None:
        bad("missing function")
        return W
    W["sweep_params"] = [a.arg for a in sweep.args.args]
    init_params = [a.arg for a in init.args.args]
    env = {}
    roles = {}          # inlined text -> role token
    arrays = {}         # inlined allocation text -> role token
    state = dict(cast_seen=False, init_seen=False, filled=set())

    def role(txt):
        return roles.get(txt) or roles.get(_canon_coords(txt)) or "?" + _canon_coords(txt)

    def assign(name, node):
        env[name] = node

    for st in f.body:
        # docstring / comments
        if isinstance(st, ast.Expr) and isinstance(st.value, ast.Constant):
            continue
        # range checks: `if not lo <= v <= hi: raise E(...)`
        if isinstance(st, ast.If) and len(st.body) == 1 and isinstance(st.body[0], ast.Raise) and not st.orelse:
            t = _canon_coords(_inl(env, st.test))
            m = re.fullmatch(r"not coords:(\w+)\.min\(\) <= (\w+) <= coords:(\w+)\.max\(\)", t)
            exc = st.body[0].exc
            en = exc.func.id if isinstance(exc, ast.Call) and isinstance(exc.func, ast.Name) else "?"
            if m and m.group(1) == m.group(2) == m.group(3):
                W["range_checks"].append((m.group(1), en))
            else:
                bad("unrecognised guard: " + t)
            continue
        # conditional re-assignment `if c: v = e` (no else)
        if isinstance(st, ast.If) and not st.orelse and all(
                isinstance(s, ast.Assign) and len(s.targets) == 1 and isinstance(s.targets[0], ast.Name) for s in st.body):
            test = _inl_node(env, st.test)
            for s in st.body:
                nm = s.targets[0].id
                assign(nm, ast.IfExp(test=test, body=_inl_node(env, s.value), orelse=env.get(nm, _sym(nm))))
            continue
        if isinstance(st, ast.Assign) and len(st.targets) == 1:
            tg, val = st.targets[0], st.value
            if isinstance(tg, ast.Name):
                assign(tg.id, _inl_node(env, val))
                continue
            if isinstance(tg, ast.Tuple) and all(isinstance(e, ast.Name) for e in tg.elts):
                if isinstance(val, ast.Tuple) and len(val.elts) == len(tg.elts):
                    new = [_inl_node(env, v) for v in val.elts]
                    for e, v in zip(tg.elts, new):
                        assign(e.id, v)
                else:
                    base = _inl_node(env, val)
                    for k, e in enumerate(tg.elts):
                        assign(e.id, ast.Subscript(value=base, slice=ast.Constant(value=k), ctx=ast.Load()))
                continue
            if isinstance(tg, ast.Attribute) and ast.unparse(tg) == "raster.values":
                W["cast"] = _inl(env, val)
                W["cast_before_init"] = not state["init_seen"]
                state["cast_seen"] = True
                continue
            bad("unrecognised assignment target: " + ast.unparse(tg))
            continue
        if isinstance(st, ast.Expr) and isinstance(st.value, ast.Call):
            c = st.value
            if isinstance(c.func, ast.Attribute) and c.func.attr == "fill" and isinstance(c.func.value, ast.Name) and len(c.args) == 1:
                nm = c.func.value.id
                assign(nm, ast.Call(func=_sym("filled"), args=[env.get(nm, _sym(nm)), _inl_node(env, c.args[0])], keywords=[]))
                continue
            if isinstance(c.func, ast.Name) and c.func.id == "_init_event_list":
                state["init_seen"] = True
                got = {}
                for k, a in enumerate(c.args):
                    if k < len(init_params):
                        got[init_params[k]] = a
                for kw in c.keywords:
                    got[kw.arg] = kw.value
                W["_init_raw"] = {k: (_inl(env, v), state["cast_seen"]) for k, v in got.items()}
                W["_init_order"] = init_params
                # the arrays handed to `_init_event_list` are filled by it: give them names
                for k in ("event_list", "data", "visibility_grid"):
                    if k in got and isinstance(got[k], ast.Name):
                        arrays[k] = ast.unparse(env[got[k].id]) if got[k].id in env else "?"
                        assign(got[k].id, _sym(f"ARR_{k}"))
                continue
            bad("unrecognised call statement: " + ast.unparse(c)[:80])
            continue
        if isinstance(st, ast.Return):
            continue
        bad("unrecognised statement: " + ast.unparse(st)[:80])

    # ---- classification
    # observer row / col and the resolutions are found through the call of the sweep (positional)
    call = None
    for n in ast.walk(f):
        if isinstance(n, ast.Call) and isinstance(n.func, ast.Name) and n.func.id == "_viewshed_cpu_sweep":
            call = n
    if call is None or call.keywords or len(call.args) != len(W["sweep_params"]):
        bad("`_viewshed_cpu_sweep` is not called with exactly its positional parameters")
        return W
    # the environment at the call = the final environment (the call is the last statement but the construction of the result)
    raw = {p: _inl(env, a) for p, a in zip(W["sweep_params"], call.args)}
    W["row"], W["col"] = _classify_obs(raw.get("vp_row", "?")), _classify_obs(raw.get("vp_col", "?"))
    W["ew"], W["ns"] = _classify_res(raw.get("ew_res", "?")), _classify_res(raw.get("ns_res", "?"))
    for tag, cl, key in (("obs", W["row"], "vp_row"), ("obs", W["col"], "vp_col"), ("res", W["ew"], "ew_res"), ("res", W["ns"], "ns_res")):
        if cl[0] != "other":
            roles[raw[key]] = f"{tag}:{cl[1]}"
            roles[_canon_coords(raw[key])] = f"{tag}:{cl[1]}"
        else:
            bad(f"{key} = {cl[1]}")
    robs, cobs = raw.get("vp_row", "?"), raw.get("vp_col", "?")
    # viewpoint elevation and target
    ve = raw.get("vp_elev", "?")
    ve_c = ve.replace(robs, "obs:row").replace(cobs, "obs:col")
    W["velev"] = ve_c
    if ve_c == "float(raster.values[obs:row, obs:col]) + observer_elev":
        roles[ve] = "velev"
    else:
        bad("vp_elev = " + ve_c)
    vt = raw.get("vp_target", "?")
    W["vtarget"] = vt
    if vt == "target_elev if target_elev > 0 else 0.0":
        roles[vt] = "vtarget"
    else:
        bad("vp_target = " + vt)
    # arrays
    shape_events = "np.zeros((3 * (raster.shape[0] * raster.shape[1] - 1), 7), dtype=np.float64)"
    shape_data = "np.zeros(shape=(3, raster.shape[1]), dtype=np.float64)"
    grid_ok = "filled(np.empty(shape=raster.shape, dtype=np.float64), INVISIBLE)"
    alloc_role = {shape_events: "zeros:events", shape_data: "zeros:data", grid_ok: "filled:INVISIBLE"}
    init_raw = W.pop("_init_raw", {})
    init_order = W.pop("_init_order", [])
    for p in init_order:
        if p not in init_raw:
            bad(f"`_init_event_list` parameter {p} not passed")
            W["init_args"].append((p, "?"))
            continue
        txt, after_cast = init_raw[p]
        if txt == "raster.values":
            r_ = "raster.values:float64" if after_cast else "raster.values:uncast"
        elif txt in alloc_role:
            r_ = alloc_role[txt]
        else:
            r_ = role(txt)
        if r_.startswith("?"):
            bad(f"_init_event_list({p}=...) = {r_[1:]}")
        W["init_args"].append((p, r_))
    # the sorted event list and its split
    sorted_txt = None
    for nm, node in env.items():
        txt = ast.unparse(node)
        m = re.fullmatch(r"ARR_event_list\[np\.lexsort\(\(ARR_event_list\[:, (\w+)\], ARR_event_list\[:, (\w+)\]\)\)\]", txt)
        if m:
            sorted_txt = txt
            W["sorted_src"] = f"lexsort({m.group(1)},{m.group(2)})"
    if sorted_txt is None:
        bad("no `event_list[np.lexsort((event_list[:, K1], event_list[:, K2]))]`")
    for key, param, sl in (("rcts", "event_rcts", "[:, :3]"), ("aes", "event_aes", "[:, 3:]")):
        txt = raw.get(param, "?")
        m = re.fullmatch(r"np\.array\((.*)(\[:, :3\]|\[:, 3:\]), dtype=np\.(\w+)\)", txt)
        if m and sorted_txt is not None and m.group(1) == sorted_txt:
            W[key] = ("sorted" + m.group(2), m.group(3))
            roles[txt] = key
        else:
            W[key] = ("?" + txt[:120], "?")
            bad(f"{param} = {txt[:120]}")
    # the positional arguments of the sweep as roles
    for p in W["sweep_params"]:
        txt = raw[p]
        if txt == "raster.values":
            r_ = "raster.values:float64" if state["cast_seen"] else "raster.values:uncast"
        elif txt in ("ARR_data", "ARR_visibility_grid"):
            r_ = alloc_role.get(arrays.get(txt[4:], ""), "?" + txt)
        else:
            r_ = role(txt)
        if r_.startswith("?"):
            bad(f"_viewshed_cpu_sweep({p}) = {r_[1:120]}")
        W["sweep_args"].append(r_[:200])
    if W["cast"] != "raster.values.astype(np.float64)":
        bad("no in-place cast `raster.values = raster.values.astype(np.float64)`: " + W["cast"])
    return W


def lean_res(cl):
    return f'.coordSpan {lean_str(cl[1])} {lean_str(cl[2])}' if cl[0] == "coordSpan" else f'.other {lean_str(cl[1][:300])}'


def lean_obs(cl):
    return f'.nearestThenEq {lean_str(cl[1])}' if cl[0] == "nearestThenEq" else f'.other {lean_str(cl[1][:300])}'


def lean_int_pairs(ps):
    return "[" + ", ".join(f"({a}, {lean_str(b)})" for a, b in ps) + "]"


def generate(repo):
    mod = ast.parse(open(os.path.join(repo, REL)).read())
    out = ["/-! GENERATED by harness/facts_viewshed.py from the current /repo source -- do not edit. -/",
           "namespace XrsVerif.Gen.Viewshed", ""]
    rep = {}
    for r in ROUTINES:
        st, calls = stores_and_calls(find_func(mod, r))
        nm = r.strip("_")
        out.append(f"/-- `{r}`: array fields stored to -/")
        out.append(f"def {nm}_stores : List (String × String) := {lean_pairs(st)}")
        out.append(f"def {nm}_calls : List String := {lean_strs(calls)}")
        out.append("")
        rep[r] = dict(stores=st, calls=calls)
    consts = {}
    for c in ["SMALLEST_GRAD", "INVISIBLE", "NIL_ID", "RB_RED", "RB_BLACK", "ENTERING_EVENT", "EXITING_EVENT",
              "CENTER_EVENT", "TN_KEY_ID", "TN_GRAD_0", "TN_GRAD_1", "TN_GRAD_2", "TN_ANG_0", "TN_ANG_1", "TN_ANG_2",
              "TN_MAX_GRAD_ID", "TN_COLOR_ID", "TN_LEFT_ID", "TN_RIGHT_ID", "TN_PARENT_ID"]:
        v = const_value(mod, c)
        consts[c] = v
        out.append(f"def {c} : Int := {lean_int(v)}")
    out.append("")
    # the observer's value and the initial fill of the visibility grid
    obs = None
    f = find_func(mod, "_init_event_list")
    if f is not None:
        for n in ast.walk(f):
            if isinstance(n, ast.Call) and isinstance(n.func, ast.Name) and n.func.id == "_set_visibility" \
                    and len(n.args) == 4 and isinstance(n.args[3], ast.Constant):
                obs = n.args[3].value
    out.append(f"def observerValue : Int := {lean_int(obs)}")
    fill = None
    f = find_func(mod, "_viewshed_cpu")
    lexkeys = []
    if f is not None:
        for n in ast.walk(f):
            if isinstance(n, ast.Call) and isinstance(n.func, ast.Attribute) and n.func.attr == "fill" \
                    and isinstance(n.func.value, ast.Name) and n.func.value.id == "visibility_grid" and n.args:
                fill = ast.unparse(n.args[0])
            if isinstance(n, ast.Call) and isinstance(n.func, ast.Attribute) and n.func.attr == "lexsort" and n.args \
                    and isinstance(n.args[0], ast.Tuple):
                for el in n.args[0].elts:   # event_list[:, E_TYPE_ID]
                    if isinstance(el, ast.Subscript) and isinstance(el.slice, ast.Tuple) and len(el.slice.elts) == 2 \
                            and isinstance(el.slice.elts[1], ast.Name):
                        lexkeys.append(el.slice.elts[1].id)
                    else:
                        lexkeys.append("?")
    out.append(f"def gridFill : String := {lean_str(fill or '?')}")
    out.append("/-- `np.lexsort` keys, last key is the primary one -/")
    out.append(f"def lexsortKeys : List String := {lean_strs(lexkeys)}")
    # the visibility test of the sweep and what is stored for a visible cell
    test, stored = "?", "?"
    f = find_func(mod, "_viewshed_cpu_sweep")
    if f is not None:
        for n in ast.walk(f):
            if isinstance(n, ast.If) and isinstance(n.test, ast.Compare) and isinstance(n.test.left, ast.Name) \
                    and n.test.left.id == "max":
                test = ast.unparse(n.test)
                for m in ast.walk(n):
                    if isinstance(m, ast.Call) and isinstance(m.func, ast.Name) and m.func.id == "_set_visibility":
                        stored = ast.unparse(m.args[3])
    out.append(f"def visibleTest : String := {lean_str(test)}")
    out.append(f"def visibleStores : String := {lean_str(stored)}")
    out.append("")
    # event geometry
    pos_rows, pos_notes = branch_table(find_func(mod, "_calc_event_pos"), 2)
    rc_rows, rc_notes = branch_table(find_func(mod, "_calculate_event_row_col"), 1)
    out.append("/-- `_calc_event_pos`: the if-chain on the position of the cell relative to the viewpoint, one entry per branch")
    out.append("    in source order: (sign of event_row - viewpoint_row, sign of event_col - viewpoint_col, ENTER 2*dy, 2*dx,")
    out.append("    EXIT 2*dy, 2*dx); the last entry is the final `else` (the viewpoint's own cell) -/")
    out.append("def calcEventPosTable : List (Int × Int × Int × Int × Int × Int) := [" + ", ".join(pos_rows) + "]")
    out.append("/-- `_calculate_event_row_col`: the same chain, offsets (dy, dx) of the diagonal neighbour -/")
    out.append("def calcEventRowColTable : List (Int × Int × Int × Int × Int × Int) := [" + ", ".join(rc_rows) + "]")
    ce = corner_elev_shape(find_func(mod, "_calc_event_elev"))
    out.append("/-- `_calc_event_elev`: neighbour, default, in-raster guard, the four cells read (elev1..elev4), NaN fallback, mean -/")
    out.append(f"def cornerElevNeighbour : String := {lean_str(ce['neighbour'])}")
    out.append(f"def cornerElevDefault : String := {lean_str(ce['default'])}")
    out.append(f"def cornerElevGuard : String := {lean_str(ce['guard'])}")
    out.append(f"def cornerElevReads : List String := {lean_strs(ce['reads'])}")
    out.append(f"def cornerElevNanFallback : String := {lean_str(ce['nan_fallback'])}")
    out.append(f"def cornerElevMean : String := {lean_str(ce['mean'])}")
    dw = data_writes(find_func(mod, "_init_event_list"))
    out.append("/-- `_init_event_list`: writes `data[k][j] = e[FIELD]` (the observer-row buffer that seeds the status structure):")
    out.append("    before the `continue` that skips the viewpoint's own cell / after both corner elevations are computed /")
    out.append("    anywhere else in the per-cell loop body; and the guards they stand under -/")
    out.append(f"def dataWritesBeforeSkip : List (Int × String) := {lean_int_pairs(dw['before_skip'])}")
    out.append(f"def dataWritesAfterElevs : List (Int × String) := {lean_int_pairs(dw['after_elevs'])}")
    out.append(f"def dataWritesElsewhere : List (Int × String) := {lean_int_pairs(dw['elsewhere'])}")
    out.append(f"def dataWriteGuards : List String := {lean_strs(dw['guards'])}")
    out.append("")
    # the wrapper `_viewshed_cpu`
    W = wrapper_facts(mod)
    out += [
        "/-! ### the wrapper `_viewshed_cpu` (symbolic evaluation of its straight-line body; Model/ViewshedWrapper.lean interprets these) -/",
        "/-- where a cell size passed to the sweep comes from: `(c[-1] - c[0]) / (extent - 1)` over the coordinate array of `axis`",
        "    with `extent` = `shape[0]` / `shape[1]` of the raster -- or anything else (inlined source) -/",
        "inductive ResSrc where",
        "  | coordSpan (axis extent : String)",
        "  | other (src : String)",
        "  deriving DecidableEq, Repr",
        "/-- how the observer's row / column is found: `raster.sel(x=[x], y=[y], method='nearest')`, then the first index `i` with",
        "    `coords[i] == ` the selected coordinate of `axis` (`np.where(coords == v)[0][0]`) -- or anything else (inlined source) -/",
        "inductive ObsSrc where",
        "  | nearestThenEq (axis : String)",
        "  | other (src : String)",
        "  deriving DecidableEq, Repr",
        "/-- every statement of `_viewshed_cpu` was understood and every quantity below classified -/",
        f"def wrapperOk : Bool := {'true' if W['ok'] else 'false'}",
        f"def wrapperNotes : List String := {lean_strs(W['notes'])}",
        "/-- the arguments `ew_res` / `ns_res` of `_viewshed_cpu_sweep` -/",
        f"def ewResSrc : ResSrc := {lean_res(W['ew'])}",
        f"def nsResSrc : ResSrc := {lean_res(W['ns'])}",
        "/-- the arguments `vp_row` / `vp_col` of `_viewshed_cpu_sweep` -/",
        f"def obsRowSrc : ObsSrc := {lean_obs(W['row'])}",
        f"def obsColSrc : ObsSrc := {lean_obs(W['col'])}",
        "/-- `if not coords.min() <= v <= coords.max(): raise E`, per axis, before the lookup -/",
        f"def rangeChecks : List (String × String) := {lean_pairs(W['range_checks'])}",
        "/-- `vp_elev` (row / col = whatever is passed as `vp_row` / `vp_col`) and `vp_target`, inlined -/",
        f"def viewpointElevSrc : String := {lean_str(W['velev'][:300])}",
        f"def viewpointTargetSrc : String := {lean_str(W['vtarget'][:300])}",
        "/-- the in-place cast `raster.values = <this>` and whether it precedes the call of `_init_event_list` -/",
        f"def rasterCast : String := {lean_str(W['cast'][:200])}",
        f"def rasterCastBeforeInit : Bool := {'true' if W['cast_before_init'] else 'false'}",
        "/-- `_init_event_list(...)`: parameter (in the order of its `def`) and the role of what is passed -/",
        f"def initEventListArgs : List (String × String) := {lean_pairs(W['init_args'])}",
        "/-- the sorted event list: `event_list[np.lexsort((event_list[:, K1], event_list[:, K2]))]` of the array `_init_event_list` filled -/",
        f"def sortedEventsSrc : String := {lean_str(W['sorted_src'])}",
        "/-- `event_rcts` / `event_aes`: which columns of the sorted event list, converted to which dtype -/",
        f"def eventRctsSrc : String × String := ({lean_str(W['rcts'][0])}, {lean_str(W['rcts'][1])})",
        f"def eventAesSrc : String × String := ({lean_str(W['aes'][0])}, {lean_str(W['aes'][1])})",
        "/-- the parameters of `_viewshed_cpu_sweep` (its `def`) and the roles of the POSITIONAL arguments `_viewshed_cpu` passes -/",
        f"def sweepParams : List String := {lean_strs(W['sweep_params'])}",
        f"def sweepArgs : List String := {lean_strs(W['sweep_args'])}",
        ""]
    out.append("end XrsVerif.Gen.Viewshed")
    rep.update(wrapper=W)
    rep.update(consts=consts, observer=obs, fill=fill, lexsort=lexkeys, test=test, stored=stored,
               event_pos_notes=pos_notes, event_row_col_notes=rc_notes, corner_elev=ce, data_writes=dw)
    yield "ViewshedFacts.lean", "\n".join(out) + "\n", rep
