"""
C10 -- analysis functions never modify their inputs, their outputs share no writable memory with the
inputs, and keep the raster's shape / dims / coords / attrs / backend.

Tie:  G  Gen/BufProgs.lean is regenerated from /repo (harness/facts_bufprog.py): one buffer program per public
         function (NumPy path, helpers and numba kernels inlined) + where the returned DataArray takes its
         metadata from; Props/C10.lean proves the checker sound and evaluates it on those programs.
      probe  the primitive table the translator trusts (alloc / copy / view / maybe-view) is confirmed with
         np.shares_memory on several dtypes and layouts, every run.
      H  observation: every public function x {numpy, dask} x dtype x layout {C, F, strided view, read-only}:
         deep snapshot of all arguments before / after, np.shares_memory(out, in), write-to-output probe,
         shape / dims / coords (scalar coords included) / attrs / backend.  The prediction of the generated
         program (which inputs may be written, which inputs the result may alias) must cover the observation.
      wrapper level (round 2): every parameter is a raster object with three input buffers (cells, coordinates, attrs);
         the xarray constructor / copy primitives are rows of a table (Gen.primTable = facts_bufprog.WPRIMS) probed here
         on the real xarray (run_wrapper_probes); the fixture dimension `meta` of a case says which coordinates (scalar,
         2-D auxiliary, non-index 1-D, datetime / string scalars, coordinate attrs; every dtype and layout) and which attrs
         (plain, nested, array-valued, not deep-copyable) the rasters carry.
      backend (round 3): Gen/DaskKinds.lean (harness/facts_daskkind.py) holds the kind program of the Dask path of every raster
         function; Props/C10.lean proves the kind checker sound and that every such path returns a dask collection; the tables
         the kind translator trusts are probed here on real dask (run_kind_probes).
      streams (round 3): main (above), backend (Dask-backed inputs of every chunking class x kernel shapes up to 7x5: Dask in ->
         lazy Dask out that computes to the input's shape, NumPy in -> NumPy out), edge (rejected and boundary inputs: the deep
         snapshot of every argument is compared whether the call returned or raised), targeted (a rejected program's guards --
         the branch conditions of the offending store, harvested by facts_bufprog -- drive the arguments).
Oracle (written from the property statement, with its documented exceptions only): the same observation.  Inputs are
compared with a recursive snapshot whether the call returned or raised; the output's cells, coordinates and attrs arrays
are checked with np.shares_memory against every buffer of every argument (index coordinates: only if writeable) and
written into (cells, coordinate values, coordinate attrs, attrs dict) before the inputs are compared once more.  Values
nested inside attrs that input and output share through xarray's shallow attrs copy are recorded, not judged.
"""
import copy
import json
import os
import random
import traceback

import numpy as np

from common import LEAN, Driver

PROP = "C10"
DTYPES = ["int8", "int16", "int32", "int64", "uint8", "uint16", "uint32", "uint64", "float32", "float64"]
LAYOUTS = ["C", "F", "strided", "readonly"]
H, W = 6, 7
# what a raster carries besides its cells (the fixture dimension `meta` of a case)
COORD_FEATURES = ["scalar", "aux2d", "nonindex1d", "time", "cattrs"]
ATTR_STYLES = ["plain", "nested", "arrays", "lock", "generator", "module", "handle"]
UNCOPYABLE = ("lock", "generator", "module", "handle")      # copy.deepcopy raises TypeError on these values

# ------------------------------------------------------------------------------------------------ contracts
# (from the property statement) primary input of the raster -> raster functions under the identity clause
IDENTITY = {
    "slope.slope": "agg", "aspect.aspect": "agg", "curvature.curvature": "agg", "hillshade.hillshade": "agg",
    "classify.binary": "agg", "classify.reclassify": "agg", "classify.quantile": "agg",
    "classify.natural_breaks": "agg", "classify.equal_interval": "agg",
    "convolution.convolution_2d": "agg", "focal.mean": "agg", "focal.apply": "raster", "focal.hotspots": "raster",
    "multispectral.arvi": "nir_agg", "multispectral.evi": "nir_agg", "multispectral.gci": "nir_agg",
    "multispectral.nbr": "nir_agg", "multispectral.nbr2": "swir1_agg", "multispectral.ndvi": "nir_agg",
    "multispectral.ndmi": "nir_agg", "multispectral.savi": "nir_agg", "multispectral.sipi": "nir_agg",
    "multispectral.ebbi": "red_agg", "pathfinding.a_star_search": "surface",
    "proximity.proximity": "raster", "proximity.allocation": "raster", "proximity.direction": "raster",
    "viewshed.viewshed": "raster", "zonal.regions": "raster",
}
EXTRA_ATTRS = {"focal.hotspots": {"unit"}}
VIEWS = {"zonal.trim", "zonal.crop", "convolution.custom_kernel", "utils.get_dataarray_resolution"}
INPLACE = {"zonal.apply": "values"}          # updates `values` in place by contract
WIDENS = {"viewshed.viewshed": "raster"}     # may widen the input's dtype without changing a value
# raster functions that define their own shape (documented exceptions) but still keep the input's array backend
BACKEND_ONLY = {"focal.focal_stats": "agg", "multispectral.true_color": "r", "perlin.perlin": "agg",
                "terrain.generate_terrain": "agg"}
SAME_SHAPE = {"local." + f: None for f in ("cell_stats", "combine", "lesser_frequency", "equal_frequency",
                                           "greater_frequency", "lowest_position", "highest_position",
                                           "popularity", "rank")}
NUMPY_ONLY = {"classify.natural_breaks", "pathfinding.a_star_search", "viewshed.viewshed", "zonal.regions",
              "zonal.trim", "zonal.crop", "zonal.apply", "bump.bump", "convolution.custom_kernel",
              "convolution.calc_cellsize", "utils.get_xy_range", "utils.calc_res",
              "utils.get_dataarray_resolution", "analytics.summarize_terrain", "polygonize.polygonize"} | set(SAME_SHAPE)
SLOW = {"proximity.proximity", "proximity.allocation", "proximity.direction", "viewshed.viewshed",
        "pathfinding.a_star_search", "zonal.regions"}


# ------------------------------------------------------------------------------------------------ inputs
def base_values(rng, kind, shape=(H, W)):
    h, w = shape
    if kind == "zones":
        v = [[(i // 3) * 2 + (j // 4) for j in range(w)] for i in range(h)]
        return np.array(v, dtype=np.float64).reshape(h, w)
    if kind == "targets":
        a = np.zeros((h, w))
        for _ in range(3 if h * w else 0):
            a[rng.randrange(h), rng.randrange(w)] = rng.randrange(1, 4)
        return a
    if kind == "layer":
        return np.array([[rng.randrange(1, 5) for _ in range(w)] for _ in range(h)], dtype=np.float64).reshape(h, w)
    return np.array([[rng.randrange(0, 60) for _ in range(w)] for _ in range(h)], dtype=np.float64).reshape(h, w)


def lay_out(a, layout):
    """returns (array with the requested memory layout, owner of the memory)"""
    if a.ndim == 0 and layout != "strided":
        a = np.array(a)
        if layout == "readonly":
            a.flags.writeable = False
        return a, a
    if layout == "F":
        a = np.asfortranarray(a)
        return a, a
    if layout == "strided" and a.ndim == 1:
        big = np.zeros((a.shape[0] * 2 + 1,), dtype=a.dtype)
        big[...] = 111 if a.dtype.kind != "b" else 0
        v = big[1::2][:a.shape[0]]
        v[...] = a
        return v, big
    if layout == "strided" and a.ndim == 0:
        big = np.zeros((3,), dtype=a.dtype)
        v = big[1:2].reshape(())
        v[...] = a
        return v, big
    if layout == "strided":
        big = np.zeros((a.shape[0] * 2 + 1, a.shape[1] * 3 + 2), dtype=a.dtype)
        big[...] = 111 if a.dtype.kind != "b" else 0
        v = big[1::2, 2::3][:a.shape[0], :a.shape[1]]
        v[...] = a
        return v, big
    a = np.ascontiguousarray(a)
    if layout == "readonly":
        a.flags.writeable = False
    return a, a


def draw_meta(rng, attrs=None, coords=None):
    """one point of the fixture dimension: which coordinates / attribute values the raster carries"""
    feats = [f for f, p in zip(COORD_FEATURES, (0.7, 0.5, 0.4, 0.25, 0.4)) if rng.random() < p]
    if coords is not None:
        feats = sorted(set(feats) | set(coords), key=COORD_FEATURES.index)
    return dict(coords=feats, cdtype=rng.choice(DTYPES), clayout=rng.choice(LAYOUTS),
                attrs=attrs or rng.choice(ATTR_STYLES))


def mk_coords(meta, tag, shape=(H, W), coordspec=None, dims=("y", "x")):
    """-> (coords mapping for the DataArray constructor, {coordinate name: owner of its memory}).  `coordspec` = explicit
    values of the two index coordinates (edge stream: descending / non-monotonic / out-of-range / threshold-crossing …),
    `dims` = the names of the two dimensions"""
    import xarray as xr
    H, W = shape
    yd, xd = dims
    ys, xs = np.linspace(H - 1.0, 0.0, H), np.linspace(0.0, W - 1.0, W)
    if coordspec is not None:
        cdt = coordspec.get("dtype", "float64")
        if coordspec.get("y") is not None:
            ys = np.array(coordspec["y"], dtype=cdt)
        if coordspec.get("x") is not None:
            xs = np.array(coordspec["x"], dtype=cdt)
    if meta is None:            # the fixture of the first round: two index and two scalar coordinates
        return {yd: ys, xd: xs, "band": sum(map(ord, tag)) % 97, "spatial_ref": 0}, {}
    feats, cd, cl = meta["coords"], meta["cdtype"], meta["clayout"]
    cattrs = "cattrs" in feats
    owners = {}

    def var(name, dims, values, attrs):
        values = np.asarray(values)
        if np.dtype(cd).kind == "f":
            values = values + 0.123456789        # not exactly representable: rounding / re-casting shows
        arr, owner = lay_out(values.astype(cd), cl)
        owners[name] = owner
        return xr.Variable(dims, arr, attrs=attrs if cattrs else None)

    coords = {yd: xr.Variable((yd,), ys, attrs={"units": "m", "axis": "Y"} if cattrs else None),
              xd: xr.Variable((xd,), xs, attrs={"units": "m", "axis": "X"} if cattrs else None)}
    if "scalar" in feats:
        coords["band"] = var("band", (), sum(map(ord, tag)) % 97, {"long_name": "band"})
        coords["spatial_ref"] = xr.Variable((), np.array(0, dtype="int64"), attrs={
            "crs_wkt": "GEOGCS[\"WGS 84\"]", "GeoTransform": "0 1 0 5 0 -1", "towgs84": [0, 0, 0]} if cattrs else None)
    if "aux2d" in feats:
        ii, jj = np.meshgrid(np.arange(H), np.arange(W), indexing="ij")
        a1, a2 = ("lon", "lat") if "lon" not in dims else ("aux_lon", "aux_lat")
        coords[a1] = var(a1, (yd, xd), jj + 10 * ii, {"standard_name": "longitude", "valid_range": [0, 60]})
        coords[a2] = var(a2, (yd, xd), 100 - 3 * ii - jj, {"standard_name": "latitude"})
    if "nonindex1d" in feats:
        coords["row_id"] = var("row_id", (yd,), (np.arange(H) * 3) % 7 + 1, {"comment": "not an index"})
        coords["col_weight"] = var("col_weight", (xd,), np.arange(W) + 2, None)
    if "time" in feats:
        coords["time"] = xr.Variable((), np.array("2020-01-02T03:04:05", dtype="datetime64[s]"))
        coords["tile"] = xr.Variable((), np.array("h12v04"))
    return coords, owners


def mk_attrs(meta, tag):
    base = {"res": (1.0, 1.0), "crs": "EPSG:4326", "nodata": -9999, "history": ["made", "up"], "layer": tag}
    style = None if meta is None else meta["attrs"]
    if style in (None, "plain"):
        return base
    if style == "nested":
        base.update(unit="km", provenance={"steps": ["read", {"clip": [0, 1, 2]}], "bbox": [0.0, 0.0, 6.0, 5.0]},
                    tags={"dem", "demo"}, scale_factor=0.5)
    elif style == "arrays":
        cd = meta["cdtype"]
        base.update(transform=np.array([1.0, 0.0, 0.0, 0.0, -1.0, 5.0]),
                    palette=lay_out((np.arange(6).reshape(2, 3) + 1).astype(cd), meta["clayout"])[0],
                    stats={"hist": np.arange(4), "edges": [0.0, 1.0]})
    elif style == "lock":
        import threading
        base.update(unit="km", source_lock=threading.Lock())
    elif style == "generator":
        base.update(block_iter=(i for i in range(3)))
    elif style == "module":
        import math
        base.update(unit="m", backend_module=math)
    elif style == "handle":
        base.update(handle=open(os.devnull))
    return base


def mk_raster(rng, dtype, layout, backend, kind="elev", nan=True, rname=None, inf=False, tag="r", chunks=None, meta=None,
              shape=None, coordspec=None, dims=None):
    """-> (raster, owner of the cells' memory, {coordinate name: owner of its memory}).  `chunks`: a uniform (a, b) or the
    explicit block sizes per axis ((3, 3, 1), (4, 4, 4, 1))"""
    import xarray as xr
    shape = tuple(shape) if shape else (H, W)
    dims = tuple(dims) if dims else ("y", "x")
    h, w = shape
    vals = base_values(rng, kind, shape).astype(dtype)
    if np.dtype(dtype).kind == "f" and nan and kind == "elev" and rng.random() < 0.5 and h * w:
        vals[rng.randrange(h), rng.randrange(w)] = np.nan
        if inf and rng.random() < 0.5:
            vals[rng.randrange(h), rng.randrange(w)] = rng.choice([np.inf, -np.inf])
    elif np.dtype(dtype).kind == "f" and inf and kind == "elev" and rng.random() < 0.6 and h * w:
        vals[rng.randrange(h), rng.randrange(w)] = rng.choice([np.inf, -np.inf])      # +-inf without a NaN cell
    arr, owner = lay_out(vals, layout)
    data = arr
    if backend == "dask":
        import dask.array as da
        ch = rng.choice([(3, 4), (2, 3), (6, 7), (4, 2)])
        if chunks is not None:
            ch = tuple(tuple(c) if isinstance(c, (list, tuple)) else c for c in chunks)
        data = da.from_array(arr, chunks=ch)
    coords, cowners = mk_coords(meta, tag, shape, coordspec, dims)
    r = xr.DataArray(data, dims=list(dims), name=rname, coords=coords, attrs=mk_attrs(meta, tag))
    return r, owner, cowners


class Inputs:
    """the arguments of one call, with the owners of the underlying memory"""

    def __init__(self):
        self.args = {}
        self.owners = {}

    def raster(self, name, rng, case, **kw):
        for k in ("shape", "coordspec", "dims"):
            if case.get(k) is not None:
                kw.setdefault(k, case[k])
        if case.get("chunks") is not None:
            kw["chunks"] = case["chunks"]          # the chunking is a dimension of the case (backend stream)
        r, o, co = mk_raster(rng, case["dtype"], case["layout"], case["backend"], tag=name, meta=case.get("meta"), **kw)
        self.args[name] = r
        self.owners[name] = o
        for c, oc in co.items():
            self.owners[f"{name}.coord:{c}"] = oc
        return r

    def array(self, name, a):
        self.args[name] = a
        self.owners[name] = a
        return a

    def plain(self, name, v):
        self.args[name] = v
        return v


def build(case):
    """-> (callable, Inputs, keyword arguments that are not inputs)"""
    import importlib
    import xarray as xr
    rng = random.Random(case["seed"])
    mod, fn = case["func"].split(".")
    m = importlib.import_module("xrspatial." + {"polygonize": "experimental.polygonize"}.get(mod, mod))
    f = getattr(m, fn)
    I = Inputs()
    kw = {}
    key = case["func"]
    if key in ("slope.slope", "aspect.aspect", "curvature.curvature", "hillshade.hillshade", "perlin.perlin",
               "classify.quantile", "classify.natural_breaks", "classify.equal_interval", "focal.mean"):
        I.raster("agg", rng, case, inf=key.startswith("classify."))
        if key == "focal.mean":
            I.plain("excludes", [np.nan, 3.0])
            kw["passes"] = rng.choice([0, 1, 2])
        if key in ("classify.quantile", "classify.equal_interval", "classify.natural_breaks"):
            kw["k"] = 3
        if key == "classify.natural_breaks":
            kw["num_sample"] = rng.choice([None, 20, 20000])
    elif key == "terrain.generate_terrain":
        I.raster("agg", rng, case)
        I.plain("full_extent", None)
    elif key == "classify.binary":
        I.raster("agg", rng, case)
        I.array("values", np.array([1, 2, 3, 10]))
    elif key == "classify.reclassify":
        I.raster("agg", rng, case)
        I.array("bins", np.array([10.0, 20.0, 40.0, 100.0]))
        I.plain("new_values", [1, 2, 3, 4])
    elif key in ("convolution.convolution_2d", "focal.apply", "focal.hotspots", "focal.focal_stats"):
        I.raster("agg" if key in ("convolution.convolution_2d", "focal.focal_stats") else "raster", rng, case)
        I.array("kernel", mk_kernel(case, np.array([[0., 1, 0], [1, 1, 1], [0, 1, 0]])))
        if key == "focal.focal_stats":
            I.plain("stats_funcs", ["mean", "max", "sum"])
    elif key == "convolution.convolve_2d":
        r, o, _ = mk_raster(rng, case["dtype"], case["layout"], case["backend"], shape=case.get("shape"),
                            chunks=case.get("chunks"))
        I.args["data"], I.owners["data"] = r.data, o
        I.array("kernel", mk_kernel(case, np.ones((3, 3))))
    elif key == "convolution.custom_kernel":
        I.array("kernel", lay_out(np.ones((3, 3)).astype(case["dtype"]), case["layout"])[0])
    elif key in ("convolution.calc_cellsize", "utils.get_xy_range", "utils.calc_res", "analytics.summarize_terrain"):
        I.raster("raster" if key != "analytics.summarize_terrain" else "terrain", rng, case, rname="elev")
        if key.startswith("utils."):
            I.plain("xdim", None)
            I.plain("ydim", None)
    elif key == "utils.get_dataarray_resolution":
        r = I.raster("agg", rng, case)
        if rng.random() < 0.5:
            del r.attrs["res"]
    elif key.startswith("multispectral."):
        import inspect
        for p in inspect.signature(f).parameters.values():
            if p.name.endswith("_agg") or p.name in ("r", "g", "b"):
                I.raster(p.name, rng, case, nan=False)
    elif key == "pathfinding.a_star_search":
        I.raster("surface", rng, case, nan=False)
        I.array("start", np.array([5.0, 0.0]))
        I.plain("goal", [0.0, 6.0])
        I.array("barriers", np.array([0]))
        kw.update(snap_start=True, snap_goal=True, connectivity=rng.choice([4, 8]))
    elif key.startswith("proximity."):
        I.raster("raster", rng, case, kind="targets")
        I.plain("target_values", rng.choice([[], [1, 2]]))
        kw["max_distance"] = rng.choice([np.inf, 2.5])
    elif key == "viewshed.viewshed":
        I.raster("raster", rng, case, nan=False)
        kw.update(x=3.0, y=2.0, observer_elev=5)
    elif key == "zonal.regions":
        I.raster("raster", rng, case, kind="zones")
        kw["neighborhood"] = rng.choice([4, 8])
    elif key == "zonal.trim":
        r = I.raster("raster", rng, case, kind="targets")
        I.plain("values", (0,))
    elif key == "zonal.crop":
        zc = dict(case, dtype="int32")
        I.raster("zones", rng, zc, kind="zones")
        I.raster("values", rng, case)
        I.plain("zones_ids", (1, 2))
    elif key in ("zonal.stats", "zonal.crosstab", "zonal.apply"):
        zc = dict(case, dtype="int32" if np.dtype(case["dtype"]).kind == "f" else case["dtype"])
        same = dict(chunks=(3, 4)) if key == "zonal.crosstab" else {}    # crosstab requires aligned chunks
        I.raster("zones", rng, zc, kind="zones", **same)
        I.raster("values", rng, case, kind="layer" if key == "zonal.crosstab" else "elev", **same)
        if key == "zonal.stats":
            I.plain("zone_ids", [0, 1, 2])
            I.plain("stats_funcs", ["mean", "max", "count"])
            kw["return_type"] = rng.choice(["pandas.DataFrame", "xarray.DataArray"]) if case["backend"] == "numpy" \
                else "pandas.DataFrame"
        elif key == "zonal.crosstab":
            I.plain("zone_ids", [0, 1])
            if case["backend"] == "numpy" and rng.random() < 0.5:
                # 3-D values: one layer per category
                import xarray as xr
                v2 = I.args["values"]
                stack, owner = lay_out(np.stack([np.asarray(v2.data) + i for i in range(3)]), case["layout"]
                                       if case["layout"] != "strided" else "C")
                I.args["values"] = xr.DataArray(stack, dims=["cat", "y", "x"],
                                                coords={"cat": [1, 2, 3], "y": v2.y.values, "x": v2.x.values},
                                                attrs=dict(v2.attrs))
                I.owners["values"] = owner
                I.plain("cat_ids", [1, 3])
                kw.update(layer=0, agg=rng.choice(["mean", "count", "max"]))
            else:
                I.plain("cat_ids", [1, 2, 3])
        else:
            I.plain("func", lambda v: v * 2)
    elif key.startswith("local."):
        layers = {}
        for nm in ("a", "b", "c"):
            r, o, co = mk_raster(rng, case["dtype"], case["layout"], "numpy", kind="layer", meta=case.get("meta"))
            layers[nm] = r
            I.owners["raster." + nm] = o
            for c, oc in co.items():
                I.owners[f"raster.{nm}.coord:{c}"] = oc
        I.args["raster"] = xr.Dataset(layers, attrs={"title": "layers"})
        if "ref_var" in f.__code__.co_varnames[:f.__code__.co_argcount]:
            I.plain("ref_var", "a")
            I.plain("data_vars", ["b", "c"])
        else:
            I.plain("data_vars", rng.choice([None, ["a", "b"]]))
    elif key == "polygonize.polygonize":
        I.raster("raster", rng, case, kind="zones")
        mc = dict(case, dtype=rng.choice(["bool", "uint8", case["dtype"]]))
        if rng.random() < 0.5:
            I.raster("mask", rng, mc, kind="targets")
        else:
            I.plain("mask", None)
        I.array("transform", np.array([2.0, 0.0, 10.0, 0.0, -2.0, 50.0])) if rng.random() < 0.5 else I.plain("transform", None)
        kw["connectivity"] = rng.choice([4, 8])
    elif key == "bump.bump":
        kw.update(width=8, height=6, count=5, spread=2)
        I.plain("height_func", lambda locs: np.ones(len(locs)) * 3)
    else:
        # a public function this harness has no recipe for: call it on one raster (strict default)
        import inspect
        ps = list(inspect.signature(f).parameters.values())
        I.raster(ps[0].name, rng, case)
    # ---- the edge / targeted streams: parameter values and structural malformations on top of the recipe
    for k, v in (case.get("params") or {}).items():
        v = decode_param(v)
        if k in I.args:
            if isinstance(v, np.ndarray):
                I.array(k, v)
            else:
                I.owners.pop(k, None)
                I.args[k] = v
        else:
            kw[k] = v
    if case.get("malform"):
        malform(I, case["malform"], rng)
    return f, I, kw


def mk_kernel(case, default):
    """the kernel of a case: explicit values (backend / edge streams) or the recipe's default"""
    k = case.get("kernel")
    if k is None:
        return default
    return np.array(k, dtype=np.float64)


def decode_param(v):
    """JSON value of a case -> argument: {"__nd__": nested list, "dtype": …} is an ndarray, {"__tuple__": […]} a tuple"""
    if isinstance(v, dict) and "__nd__" in v:
        return np.array(v["__nd__"], dtype=v.get("dtype", "float64"))
    if isinstance(v, dict) and "__tuple__" in v:
        return tuple(decode_param(x) for x in v["__tuple__"])
    return v


def malform(I, how, rng):
    """structural malformations of the rasters of a call (edge stream).  The memory owners stay registered, so the
    before/after comparison still covers the buffers the malformed views are taken from."""
    import xarray as xr
    names = [n for n, v in I.args.items() if isinstance(v, xr.DataArray)]
    if not names:
        return
    first = names[0]
    r = I.args[first]
    if how == "1d":
        I.args[first] = r.isel({r.dims[0]: 0})
    elif how == "3d":
        I.args[first] = r.expand_dims(layer=[0, 1])
    elif how == "transposed":
        I.args[first] = r.transpose(*reversed(r.dims))
    elif how == "empty":
        I.args[first] = r.isel({r.dims[0]: slice(0, 0)})
    elif how == "single-cell":
        I.args[first] = r.isel({r.dims[0]: slice(0, 1), r.dims[1]: slice(0, 1)})
    elif how == "single-row":
        I.args[first] = r.isel({r.dims[0]: slice(0, 1)})
    elif how == "single-column":
        I.args[first] = r.isel({r.dims[1]: slice(0, 1)})
    elif how == "shape-mismatch":
        # the last raster of a multi-raster call is one row short
        last = names[-1]
        q = I.args[last]
        I.args[last] = q.isel({q.dims[0]: slice(0, q.shape[0] - 1)})
    elif how == "coords-mismatch":
        # the last raster has the same shape but other coordinate values
        last = names[-1]
        q = I.args[last]
        I.args[last] = q.assign_coords({q.dims[1]: np.asarray(q[q.dims[1]].values) + 0.5})
    elif how == "no-coords":
        I.args[first] = r.drop_vars([c for c in r.coords])
    elif how == "not-a-raster":
        I.args[first] = np.asarray(np_of(r.data))
        I.owners[first] = I.args[first]


# ------------------------------------------------------------------------------------------------ snapshots
def np_of(x):
    """the numpy values of an array-like (computes dask)"""
    if hasattr(x, "compute"):
        x = x.compute()
    return np.asarray(x)


class Opaque:
    """a value that cannot be copied (lock, open handle, generator, module): compared by identity"""

    def __init__(self, ref):
        self.ref = ref

    def __repr__(self):
        return f"<{type(self.ref).__name__} object>"


def snap_value(v, depth=0):
    """deep snapshot of an attribute value: containers recursively, arrays by copy, everything that refuses to be
    deep-copied by identity (the snapshot keeps the object alive, so the identity cannot be re-used)"""
    if isinstance(v, np.ndarray):
        return ("array", np.array(v, copy=True), str(v.dtype))
    if isinstance(v, dict) and depth < 8:
        return ("dict", [(snap_value(k, depth + 1), snap_value(x, depth + 1)) for k, x in v.items()])
    if isinstance(v, (list, tuple)) and depth < 8:
        return (type(v).__name__, [snap_value(x, depth + 1) for x in v])
    if isinstance(v, (set, frozenset)) and depth < 8:
        return ("set", sorted((snap_value(x, depth + 1) for x in v), key=repr))
    if v is None or isinstance(v, (bool, int, float, complex, str, bytes, np.generic)):
        return ("value", v)
    try:
        return ("value", copy.deepcopy(v))
    except Exception:
        return ("opaque", Opaque(v))


def snap_equal(a, b):
    if a[0] != b[0]:
        return False
    if a[0] == "array":
        return a[2] == b[2] and same_values(a[1], b[1])
    if a[0] == "dict":
        return len(a[1]) == len(b[1]) and all(snap_equal(k1, k2) and snap_equal(v1, v2)
                                              for (k1, v1), (k2, v2) in zip(a[1], b[1]))
    if a[0] in ("list", "tuple", "set"):
        return len(a[1]) == len(b[1]) and all(snap_equal(x, y) for x, y in zip(a[1], b[1]))
    if a[0] == "opaque":
        return a[1].ref is b[1].ref
    x, y = a[1], b[1]
    try:
        if type(x) is not type(y) and not (isinstance(x, (int, float, np.generic)) and isinstance(y, (int, float, np.generic))):
            return False
        return bool(x == y) or bool(x != x and y != y)
    except Exception:
        return repr(x) == repr(y)


def show_snap(a):
    if a[0] == "array":
        return f"array({a[1].tolist()}, {a[2]})"
    if a[0] == "dict":
        return "{" + ", ".join(f"{show_snap(k)}: {show_snap(v)}" for k, v in a[1]) + "}"
    if a[0] in ("list", "tuple", "set"):
        return a[0][0] + "[" + ", ".join(show_snap(x) for x in a[1]) + "]"
    return repr(a[1])


def snap_attrs(attrs):
    """{key: snapshot} of an attrs mapping (keys in order)"""
    return {k: snap_value(v) for k, v in dict(attrs).items()}


def attrs_equal(a, b):
    """two attrs snapshots: same keys, same values (opaque values: the same objects)"""
    return set(a) == set(b) and all(snap_equal(a[k], b[k]) for k in a)


def attrs_diff(a, b):
    out = []
    for k in a:
        if k not in b:
            out.append(f"{k!r} removed")
        elif not snap_equal(a[k], b[k]):
            out.append(f"{k!r}: {show_snap(a[k])[:60]} -> {show_snap(b[k])[:60]}")
    out.extend(f"{k!r} added (= {show_snap(b[k])[:40]})" for k in b if k not in a)
    return "; ".join(out)[:300]


def snap_coord(v):
    return dict(dims=tuple(v.dims), values=np.array(np_of(v.data), copy=True), dtype=str(v.dtype), attrs=snap_attrs(v.attrs))


def snap_da(d):
    return dict(kind="DataArray", values=np.array(np_of(d.data), copy=True), dtype=str(d.dtype), dims=tuple(d.dims),
                name=d.name, attrs=snap_attrs(d.attrs), shape=tuple(d.shape),
                coords={str(k): snap_coord(v) for k, v in d.coords.items()},
                chunks=getattr(d.data, "chunks", None), backend=type(d.data).__name__)


def snapshot(obj):
    import xarray as xr
    if isinstance(obj, xr.DataArray):
        return snap_da(obj)
    if isinstance(obj, xr.Dataset):
        return dict(kind="Dataset", vars={str(k): snap_da(obj[k]) for k in obj.data_vars},
                    attrs=snap_attrs(obj.attrs))
    if isinstance(obj, np.ndarray) or hasattr(obj, "compute"):
        return dict(kind="ndarray", values=np.array(np_of(obj), copy=True), dtype=str(obj.dtype))
    if callable(obj):
        return dict(kind="callable")
    return dict(kind="plain", value=snap_value(obj))


def same_values(a, b):
    a, b = np.asarray(a), np.asarray(b)
    if a.shape != b.shape:
        return False
    if a.dtype.kind in "fc" or b.dtype.kind in "fc":
        return bool(np.array_equal(a, b, equal_nan=True))
    return bool(np.array_equal(a, b))


def diff_da(name, before, after, allow_dtype=False):
    out = []
    if not same_values(before["values"], after["values"]):
        out.append(f"{name}: values changed")
    if before["dtype"] != after["dtype"] and not allow_dtype:
        out.append(f"{name}: dtype {before['dtype']} -> {after['dtype']}")
    if before["dims"] != after["dims"]:
        out.append(f"{name}: dims {before['dims']} -> {after['dims']}")
    if before["name"] != after["name"]:
        out.append(f"{name}: name {before['name']!r} -> {after['name']!r}")
    if not attrs_equal(before["attrs"], after["attrs"]):
        out.append(f"{name}: attrs changed: {attrs_diff(before['attrs'], after['attrs'])}")
    if set(before["coords"]) != set(after["coords"]):
        out.append(f"{name}: coords {sorted(before['coords'])} -> {sorted(after['coords'])}")
    else:
        for k, cb in before["coords"].items():
            ca = after["coords"][k]
            if cb["dims"] != ca["dims"] or cb["dtype"] != ca["dtype"] or not same_values(cb["values"], ca["values"]):
                out.append(f"{name}: coordinate {k} changed")
            elif not attrs_equal(cb["attrs"], ca["attrs"]):
                out.append(f"{name}: attrs of coordinate {k} changed: {attrs_diff(cb['attrs'], ca['attrs'])}")
    return out


def diff(name, before, after, allow_dtype=False):
    if before["kind"] != after["kind"]:
        return [f"{name}: became a {after['kind']}"]
    if before["kind"] == "DataArray":
        return diff_da(name, before, after, allow_dtype)
    if before["kind"] == "Dataset":
        out = []
        if set(before["vars"]) != set(after["vars"]):
            out.append(f"{name}: variables changed")
        else:
            for k in before["vars"]:
                out.extend(diff_da(f"{name}[{k}]", before["vars"][k], after["vars"][k]))
        if not attrs_equal(before["attrs"], after["attrs"]):
            out.append(f"{name}: attrs changed")
        return out
    if before["kind"] == "ndarray":
        return ([] if same_values(before["values"], after["values"]) else [f"{name}: values changed"]) + \
               ([] if before["dtype"] == after["dtype"] else [f"{name}: dtype changed"])
    if before["kind"] == "plain":
        return [] if snap_equal(before["value"], after["value"]) else \
            [f"{name}: {show_snap(before['value'])[:80]} -> {show_snap(after['value'])[:80]}"]
    return []


# ---- the buffers of an argument / of a result: cells, every coordinate, array-valued attributes
def arrays_in(v, label, depth=0):
    """(label, ndarray) for every numpy array reachable from an attribute value"""
    if isinstance(v, np.ndarray):
        yield label, v
    elif isinstance(v, dict) and depth < 8:
        for k, x in v.items():
            yield from arrays_in(x, f"{label}[{k!r}]", depth + 1)
    elif isinstance(v, (list, tuple)) and depth < 8:
        for i, x in enumerate(v):
            yield from arrays_in(x, f"{label}[{i}]", depth + 1)


def da_buffers(d, name):
    """(kind, label, ndarray, is_index) -- kind in data | coord | attr.  Dask-backed parts hold no memory of
    their own until they are computed and are left out."""
    if isinstance(d.data, np.ndarray):
        yield "data", name, d.data, False
    for c, v in d.coords.items():
        arr = v.variable._data if isinstance(v.variable._data, np.ndarray) else v.data
        if isinstance(arr, np.ndarray):
            yield "coord", f"{name}.coords[{c!r}]", arr, c in d.indexes
        for lab, a in arrays_in(dict(v.attrs), f"{name}.coords[{c!r}].attrs"):
            yield "attr", lab, a, False
    for lab, a in arrays_in(dict(d.attrs), f"{name}.attrs"):
        yield "attr", lab, a, False


def obj_buffers(obj, name):
    import xarray as xr
    if isinstance(obj, xr.DataArray):
        yield from da_buffers(obj, name)
    elif isinstance(obj, xr.Dataset):
        for k in obj.data_vars:
            yield from da_buffers(obj[k], f"{name}[{k!r}]")
        for lab, a in arrays_in(dict(obj.attrs), f"{name}.attrs"):
            yield "attr", lab, a, False
    elif isinstance(obj, np.ndarray):
        yield "data", name, obj, False
    elif isinstance(obj, (tuple, list)):
        for i, o in enumerate(obj):
            yield from obj_buffers(o, f"{name}[{i}]")


def buffers_of(obj):
    """numpy buffers holding the cells of an argument"""
    return [a for kind, _, a, _ in obj_buffers(obj, "") if kind == "data"]


def out_arrays(out):
    return [a for kind, _, a, _ in obj_buffers(out, "") if kind == "data"]


def shares_writable(o_arr, o_index, i_arr):
    """does a buffer of the output share *writable* memory with a buffer of an input.  The values of an index
    coordinate are handed out by xarray as a read-only view of an immutable pandas index: such an array cannot be
    written through, so sharing it is not sharing writable memory."""
    if o_arr.size == 0 or i_arr.size == 0 or not np.shares_memory(o_arr, i_arr):
        return False
    return bool(o_arr.flags.writeable) or not o_index


def scribble(a):
    """overwrite a writable array with values that differ from what it holds"""
    if not (isinstance(a, np.ndarray) and a.flags.writeable and a.size):
        return False
    k = a.dtype.kind
    if k == "b":
        a[...] = ~a
    elif k in "iuf":
        a[...] = np.where(a == np.array(7).astype(a.dtype), 8, 7).astype(a.dtype)
    elif k == "M":
        a[...] = a + np.timedelta64(1, "D").astype(a.dtype.str.replace("M", "m"))
    elif k in "US":
        a[...] = "~"
    else:
        return False
    return True


def probe_output(out):
    """write into everything writable the result exposes: cells, coordinates (values and attrs), attrs dict"""
    import xarray as xr
    done = []
    objs = []

    def collect(o):
        if isinstance(o, xr.DataArray):
            objs.append(o)
        elif isinstance(o, xr.Dataset):
            objs.extend(o[k] for k in o.data_vars)
            objs.append(o)
        elif isinstance(o, (tuple, list)):
            for x in o:
                collect(x)
    collect(out)
    for kind, lab, a, _ in obj_buffers(out, "out"):
        if kind in ("data", "coord"):
            try:
                if scribble(a):
                    done.append(kind)
            except Exception as ex:
                done.append(f"{lab}: {ex!r}"[:60])
    for o in objs:
        try:
            for c in o.coords:
                o.coords[c].variable.attrs["__c10_probe__"] = 1
            keys = list(o.attrs)
            o.attrs["__c10_probe__"] = 1
            if keys:
                o.attrs[keys[0]] = "__c10_overwritten__"
                if len(keys) > 1:
                    del o.attrs[keys[-1]]
            done.append("attrs")
        except Exception as ex:
            done.append(f"attrs: {ex!r}"[:60])
    return done


# ------------------------------------------------------------------------------------------------ one case
def observe(case):
    """run one call and return everything the oracle and the correspondence need (JSON-able)"""
    import warnings
    import xarray as xr
    warnings.filterwarnings("ignore")
    res = dict(case=case, status="ok", modified=[], owner_modified=[], shares=[], shares_meta=[], shares_comp=[],
               probe_modified=[], identity=[], notes=[])
    try:
        f, I, kw = build(case)
    except Exception as ex:
        res["status"] = "build-failed:" + repr(ex)[:200]
        return res
    key = case["func"]
    before = {n: snapshot(v) for n, v in I.args.items()}
    owners_before = {n: np.array(o, copy=True) for n, o in I.owners.items()}
    tasks = [0]
    computed = None
    try:
        with warnings.catch_warnings():
            warnings.simplefilter("ignore")
            if case["backend"] == "dask":
                from dask.callbacks import Callback
                with Callback(pretask=lambda *a, **k: tasks.__setitem__(0, tasks[0] + 1)):
                    out = f(**I.args, **kw)
            else:
                out = f(**I.args, **kw)
    except Exception as ex:
        out = None
        res["status"] = "raised:" + type(ex).__name__
        res["notes"].append(str(ex)[:160])
    if out is not None and case["backend"] == "dask":
        # a lazy result is computed here, before the inputs are compared: whatever the graph does to them shows
        res["tasks_during_call"] = tasks[0]
        if tasks[0]:
            res["notes"].append("computes part of the graph during the call")
        lazy = getattr(out, "data", None)
        if hasattr(lazy, "dask") and hasattr(lazy, "compute") and not isinstance(lazy, np.ndarray):
            try:
                with warnings.catch_warnings():
                    warnings.simplefilter("ignore")
                    computed = np.asarray(lazy.compute())
            except Exception as ex:
                res["status"] = "raised-at-compute:" + type(ex).__name__
                res["notes"].append(str(ex)[:160])
    # (1) inputs unchanged -- values, coords (values, dtype, attrs), attrs (recursively), dims, name; also when the
    #     call raised
    for n, v in I.args.items():
        d = diff(n, before[n], snapshot(v), allow_dtype=(WIDENS.get(key) == n))
        if INPLACE.get(key) == n:
            if d:
                res["notes"].append("in place by contract: " + "; ".join(d)[:120])
            continue
        res["modified"].extend(d)
        if before[n].get("chunks") is not None and getattr(getattr(v, "data", None), "chunks", None) != before[n]["chunks"]:
            res["notes"].append(f"{n}: rechunked in place")
    for n, o in I.owners.items():
        if not same_values(owners_before[n], o):
            res["owner_modified"].append(n)
    if out is None:
        return res
    res["out_type"] = type(out).__name__
    # (2) no shared writable memory: every buffer of the result (cells, coordinates, array-valued attrs) against
    #     every buffer of every argument
    obufs = list(obj_buffers(out, "out"))
    for n, v in I.args.items():
        ibufs = list(obj_buffers(v, n))
        ibufs += [("data" if "coord:" not in on else "coord", on, o, False) for on, o in I.owners.items()
                  if on.split(".")[0] == n and isinstance(o, np.ndarray)]
        for okind, olab, o, oindex in obufs:
            for ikind, ilab, b, _ in ibufs:
                if not shares_writable(o, oindex, b):
                    continue
                if okind == "data" and ikind == "data":
                    if n not in res["shares"]:
                        res["shares"].append(n)
                elif okind == "attr" and ikind == "attr":
                    # xarray's attrs copy is shallow by convention (DataArray(attrs=…), every arithmetic operation):
                    # the dict is the output's own, a value nested in it is the same object.  Recorded, not judged.
                    if "attribute values shared by reference (shallow attrs copy)" not in res["notes"]:
                        res["notes"].append("attribute values shared by reference (shallow attrs copy)")
                else:
                    msg = f"{olab} ~ {ilab}"
                    if msg not in res["shares_meta"] and len(res["shares_meta"]) < 12:
                        res["shares_meta"].append(msg)
                    if [okind, n, ikind] not in res["shares_comp"]:
                        res["shares_comp"].append([okind, n, ikind])
    # (3) identity
    if isinstance(out, xr.DataArray):
        res["out_backend"] = type(out.data).__name__
        prim = IDENTITY.get(key)
        if prim is not None:
            b = before[prim]
            if tuple(out.shape) != b["shape"]:
                res["identity"].append(f"shape {tuple(out.shape)} != {b['shape']}")
            if tuple(out.dims) != b["dims"]:
                res["identity"].append(f"dims {tuple(out.dims)} != {b['dims']}")
            oc = {str(k): (tuple(v.dims), np_of(v.data)) for k, v in out.coords.items()}
            if set(oc) != set(b["coords"]):
                res["identity"].append(f"coords {sorted(oc)} != {sorted(b['coords'])}")
            else:
                for k, cb in b["coords"].items():
                    if cb["dims"] != oc[k][0] or not same_values(cb["values"], oc[k][1]):
                        res["identity"].append(f"coordinate {k} differs")
            oattrs = snap_attrs(out.attrs)
            extra = EXTRA_ATTRS.get(key, set())
            if not attrs_equal({k: v for k, v in oattrs.items() if k not in extra},
                               {k: v for k, v in b["attrs"].items() if k not in extra}):
                res["identity"].append("attrs differ from the input's: " + attrs_diff(
                    {k: v for k, v in b["attrs"].items() if k not in extra},
                    {k: v for k, v in oattrs.items() if k not in extra}))
            if type(out.data).__name__ != b["backend"]:
                res["identity"].append(f"backend {type(out.data).__module__}.{type(out.data).__name__} != {b['backend']}"
                                       + (f" (input chunks {b['chunks']})" if b.get("chunks") else ""))
            elif b.get("chunks") is not None:
                # Dask in -> Dask out: lazy until computed, blocks that add up to the input's shape, and the computed
                # array really has that shape
                ch = getattr(out.data, "chunks", None)
                if ch is None or tuple(sum(c) for c in ch) != tuple(out.shape):
                    res["identity"].append(f"chunks {ch} do not add up to the shape {tuple(out.shape)}")
                if computed is not None and tuple(computed.shape) != tuple(out.shape):
                    res["identity"].append(f"the result computes to shape {tuple(computed.shape)}, declared {tuple(out.shape)}")
        elif key in BACKEND_ONLY and BACKEND_ONLY[key] in before and before[BACKEND_ONLY[key]].get("kind") == "DataArray":
            # own shape by contract (generators, focal_stats, true_color), but still the input's array backend
            b = before[BACKEND_ONLY[key]]
            if type(out.data).__name__ != b["backend"]:
                res["identity"].append(f"backend {type(out.data).__module__}.{type(out.data).__name__} != {b['backend']}"
                                       + (f" (input chunks {b['chunks']})" if b.get("chunks") else ""))
        elif key in SAME_SHAPE:
            shp = before["raster"]["vars"]["a"]["shape"]
            if tuple(out.shape) != shp:
                res["identity"].append(f"shape {tuple(out.shape)} != {shp}")
    elif key in IDENTITY:
        res["identity"].append(f"result is a {type(out).__name__}, not a DataArray")
    # (4) writing to the output never changes the input
    if key not in VIEWS:
        res["probed"] = probe_output(out)
        for n, v in I.args.items():
            if INPLACE.get(key) == n:
                continue
            d = diff(n, before[n], snapshot(v), allow_dtype=(WIDENS.get(key) == n))
            res["probe_modified"].extend(x for x in d if x not in res["modified"])
        for n, o in I.owners.items():
            if not same_values(owners_before[n], o) and n not in res["owner_modified"]:
                res["probe_modified"].append(f"{n}: memory changed by writing to the output")
    else:
        res["shares_meta"] = []         # documented windows / views of the input
    return res


SEQ_FUNCS = ["slope.slope", "aspect.aspect", "curvature.curvature", "hillshade.hillshade", "classify.binary",
             "classify.quantile", "classify.equal_interval", "classify.natural_breaks", "classify.reclassify",
             "convolution.convolution_2d", "focal.mean", "focal.apply", "focal.hotspots", "focal.focal_stats",
             "perlin.perlin", "terrain.generate_terrain", "zonal.regions", "zonal.trim", "proximity.proximity",
             "pathfinding.a_star_search", "viewshed.viewshed", "analytics.summarize_terrain"]


def observe_sequence(case):
    """one raster handed to several functions in a row: it must be the same raster after every call
    (call histories of the property's quantifier)"""
    import warnings
    warnings.filterwarnings("ignore")
    rng = random.Random(case["seed"])
    res = dict(case=case, status="ok", modified=[], owner_modified=[], shares=[], probe_modified=[], identity=[],
               notes=[], steps=[])
    shared, owner, cowners = mk_raster(rng, case["dtype"], case["layout"], case["backend"], nan=False, rname="elev",
                                       tag="shared", meta=case.get("meta"))
    before = snapshot(shared)
    owners = dict({"cells": owner}, **{f"coordinate {c}": o for c, o in cowners.items()})
    owners_before = {n: np.array(o, copy=True) for n, o in owners.items()}

    def memory_changed():
        return [f"shared: memory of {n} changed" for n, o in owners.items() if not same_values(owners_before[n], o)]
    widened = False
    outs = []
    for fname in case["funcs"]:
        sub = dict(func=fname, backend=case["backend"], dtype=case["dtype"], layout=case["layout"],
                   seed=rng.randrange(1 << 30))
        try:
            f, I, kw = build(sub)
            prim = next(n for n in I.args if n in ("agg", "raster", "surface", "terrain"))
            I.args[prim] = shared
            with warnings.catch_warnings():
                warnings.simplefilter("ignore")
                outs.append((fname, f(**I.args, **kw)))
            st = "ok"
        except Exception as ex:
            st = "raised:" + type(ex).__name__
        widened = widened or fname in WIDENS
        d = diff("shared", before, snapshot(shared), allow_dtype=widened) + memory_changed()
        res["steps"].append(f"{fname}:{st}")
        if d:
            res["modified"] = [f"after {fname} (call {len(res['steps'])} of the sequence): " + "; ".join(d)]
            res["culprit"] = fname
            break
    # writing to any of the outputs afterwards must not reach the shared raster either
    if not res["modified"]:
        for fname, out in outs:
            if fname in VIEWS:
                continue
            probe_output(out)
            d = diff("shared", before, snapshot(shared), allow_dtype=widened) + memory_changed()
            if d:
                res["probe_modified"] = [f"writing to the result of {fname} changed the shared raster: " + "; ".join(d)]
                res["culprit"] = fname
                break
    return res


CASE_TIME_LIMIT = 120       # seconds of one observation before it is abandoned (python-level loops only)


class CaseTimeout(Exception):
    pass


def empty_result(c, status):
    return dict(case=c, status=status, modified=[], owner_modified=[], shares=[], shares_meta=[], probe_modified=[],
                identity=[], notes=[])


def run_chunk(cases):
    import signal
    out = []

    def on_alarm(signum, frame):
        raise CaseTimeout()
    try:
        signal.signal(signal.SIGALRM, on_alarm)
        armed = True
    except Exception:
        armed = False
    for c in cases:
        try:
            if armed:
                signal.alarm(CASE_TIME_LIMIT)
            out.append(observe_sequence(c) if c.get("kind") == "sequence" else observe(c))
        except CaseTimeout:
            out.append(empty_result(c, "harness-timeout"))
        except Exception:
            out.append(empty_result(c, "harness-error:" + traceback.format_exc()[-400:]))
        finally:
            if armed:
                signal.alarm(0)
    return out


def _chunk_child(conn, cases):
    try:
        try:
            # a thread pool inherited through fork has no threads: make dask create its own in this process
            import dask.threaded
            dask.threaded.default_pool = None
            dask.threaded.pools.clear()
        except Exception:
            pass
        import time
        t0, c0 = time.time(), time.process_time()
        out = run_chunk(cases)
        if out:
            out[0]["chunk_cost"] = dict(func=cases[0].get("func", "sequence"), backend=cases[0]["backend"], n=len(cases),
                                        wall=round(time.time() - t0, 1), cpu=round(time.process_time() - c0, 1))
        conn.send(out)
    finally:
        conn.close()


CHUNK_TIME_LIMIT = 600      # seconds before the process of a chunk is killed (native loops the alarm cannot reach)


def run_parallel(cases, workers=None):
    """cases grouped by function (one JIT compilation per group), one process per group, at most `workers` at a time.
    A process that dies (a malformed input crashed native code) or hangs only loses its own group: the group is re-run
    case by case and the case that kills its process again is recorded as `worker-crashed` -- a crash on a malformed
    input is not a statement about C10, and it must not turn the check into an infrastructure failure."""
    import multiprocessing as mp
    import time
    from multiprocessing.connection import wait
    groups = {}
    for c in cases:
        groups.setdefault((c.get("func", "sequence"), c["backend"]), []).append(c)
    chunks = []
    for g in groups.values():
        step = 12 if g[0].get("func") not in SLOW else 4
        if g[0].get("kind") == "sequence":
            step = 3
        if g[0].get("stream") in ("edge", "targeted"):
            step = 24 if g[0].get("func") not in SLOW else 16      # mostly early rejections: cheap
        chunks.extend(g[i:i + step] for i in range(0, len(g), step))
    chunks.sort(key=lambda ch: -len(ch) * (5 if ch[0].get("func") in SLOW or ch[0].get("kind") == "sequence" else 1))
    workers = workers or min(14, max(2, (os.cpu_count() or 4) - 2))
    ctx = mp.get_context("fork")
    results, queue, running = [], list(chunks), {}
    while queue or running:
        while queue and len(running) < workers:
            ch = queue.pop(0)
            parent, child = ctx.Pipe(duplex=False)
            p = ctx.Process(target=_chunk_child, args=(child, ch), daemon=True)
            p.start()
            child.close()
            running[parent] = (p, ch, time.time())
        ready = wait(list(running), timeout=1.0)
        for conn in list(running):
            p, ch, t0 = running[conn]
            lost = None
            if conn in ready:
                try:
                    results.extend(conn.recv())
                except (EOFError, OSError):
                    lost = "worker-crashed"
            elif time.time() - t0 > CHUNK_TIME_LIMIT:
                p.terminate()
                lost = "harness-timeout"
            else:
                continue
            conn.close()
            p.join(5)
            del running[conn]
            if lost:
                if len(ch) > 1:
                    queue = [[c] for c in ch] + queue
                else:
                    results.append(empty_result(ch[0], lost))
    return results


# ------------------------------------------------------------------------------------------------ primitive probes
def probe_arrays():
    for dt in ("int8", "uint16", "int64", "float32", "float64"):
        for lay in LAYOUTS:
            a = (np.arange(12).reshape(3, 4) % 5 + 1).astype(dt)
            arr, owner = lay_out(a, lay)
            yield f"{dt}/{lay}", arr


def primitive_probes():
    """(name in the translator's table, class, probe: array -> result)"""
    import xarray as xr
    P = [
        ("np.zeros_like", "alloc", lambda a: np.zeros_like(a)), ("np.empty_like", "alloc", lambda a: np.empty_like(a)),
        ("np.full_like", "alloc", lambda a: np.full_like(a, 1)), ("np.ones_like", "alloc", lambda a: np.ones_like(a)),
        ("np.zeros", "alloc", lambda a: np.zeros(a.shape, a.dtype)), ("np.empty", "alloc", lambda a: np.empty(a.shape)),
        ("np.full", "alloc", lambda a: np.full(a.shape, 1)), ("np.where", "alloc", lambda a: np.where(a > 1, a, a)),
        ("np.where/1", "alloc", lambda a: np.where(a > 1)[0]),
        ("binop", "alloc", lambda a: a * 1), ("binop+0", "alloc", lambda a: a + 0), ("unary", "alloc", lambda a: -a),
        ("compare", "alloc", lambda a: a == a), ("np.sqrt", "alloc", lambda a: np.sqrt(a)),
        ("np.isfinite", "alloc", lambda a: np.isfinite(a)), ("np.gradient", "alloc", lambda a: np.gradient(a.astype("f8"))[0]),
        ("np.concatenate", "alloc", lambda a: np.concatenate([a, a])), ("np.append", "alloc", lambda a: np.append(a, a)),
        ("np.unique", "alloc", lambda a: np.unique(a)), ("np.sort", "alloc", lambda a: np.sort(a)),
        ("np.tile", "alloc", lambda a: np.tile(a[0], 2)), ("np.repeat", "alloc", lambda a: np.repeat(a[0], 2)),
        ("np.pad", "alloc", lambda a: np.pad(a, 1)), ("np.stack", "alloc", lambda a: np.stack([a, a])),
        ("np.percentile", "alloc", lambda a: np.percentile(a, [50])), ("np.clip", "alloc", lambda a: np.clip(a, 1, 2)),
        ("np.meshgrid", "alloc", lambda a: np.meshgrid(a[0], a[:, 0])[0]),
        ("np.nan_to_num", "alloc", lambda a: np.nan_to_num(a)),
        ("np.array", "copy", lambda a: np.array(a)), ("np.copy", "copy", lambda a: np.copy(a)),
        ("copy.deepcopy", "copy", lambda a: copy.deepcopy(a)), ("copy.copy", "copy", lambda a: copy.copy(a)),
        (".astype", "copy", lambda a: a.astype(a.dtype)), (".astype(f4)", "copy", lambda a: a.astype("f4")),
        (".astype(float)", "copy", lambda a: a.astype(float)),
        (".copy", "copy", lambda a: a.copy()), (".flatten", "copy", lambda a: a.flatten()),
        ("mask-index", "copy", lambda a: a[a > 0]), ("mask-index/isfinite", "copy", lambda a: a[np.isfinite(a)]),
        ("int-array-index", "copy", lambda a: a.ravel()[np.argsort(a.ravel())]),
        ("list-index", "copy", lambda a: a[[0, 1]]),
        (".astype(copy=False)", "mview", lambda a: a.astype(a.dtype, copy=False)),
        (".ravel", "mview", lambda a: a.ravel()), (".reshape", "mview", lambda a: a.reshape(-1)),
        ("np.ravel", "mview", lambda a: np.ravel(a)), ("np.reshape", "mview", lambda a: np.reshape(a, (-1,))),
        ("np.asarray", "mview", lambda a: np.asarray(a)), ("np.asarray(dtype)", "mview", lambda a: np.asarray(a, dtype="f8")),
        ("np.ascontiguousarray", "mview", lambda a: np.ascontiguousarray(a)),
        ("slice", "view", lambda a: a[1:, :2]), ("slice[:]", "view", lambda a: a[:]), ("row", "view", lambda a: a[1]),
        ("newaxis", "view", lambda a: a[:, :, np.newaxis]), (".T", "view", lambda a: a.T),
        ("np.transpose", "view", lambda a: np.transpose(a)), ("np.squeeze", "view", lambda a: np.squeeze(a)),
        ("np.expand_dims", "view", lambda a: np.expand_dims(a, 0)), ("np.flip", "view", lambda a: np.flip(a, 0)),
        ("np.broadcast_to", "view", lambda a: np.broadcast_to(a, (2,) + a.shape)),
        (".view", "view", lambda a: a.view()), ("np.ma.masked_array", "view", lambda a: np.ma.masked_array(a, mask=a > 1).data),
        ("xr.DataArray", "view", lambda a: xr.DataArray(a).data), ("DataArray.values", "view", lambda a: xr.DataArray(a).values),
        ("DataArray[slice]", "view", lambda a: xr.DataArray(a)[1:, :2].data),
        ("DataArray(coords,attrs)", "view",
         lambda a: xr.DataArray(a, dims=["y", "x"], coords={"y": np.arange(a.shape[0])}, attrs={"k": 1}).data),
        ("DataArray.transpose", "view", lambda a: xr.DataArray(a).transpose().data),
        ("DataArray[mask]", "copy", lambda a: xr.DataArray(a.ravel())[np.isfinite(a.ravel())].data),
        ("DataArray.astype", "copy", lambda a: xr.DataArray(a).astype(a.dtype).data),
        ("DataArray.copy", "copy", lambda a: xr.DataArray(a).copy().data),
        (".to_dataset", "view", lambda a: xr.DataArray(a, name="n").to_dataset()["n"].data),
        (".sel", "mview", lambda a: xr.DataArray(a, dims=["y", "x"], coords={"y": np.arange(a.shape[0]),
                                    "x": np.arange(a.shape[1])}).sel(x=[1], y=[1], method="nearest").data),
        (".get", "mview", lambda a: {"k": a}.get("k")),
        ("pd.DataFrame", "alloc", lambda a: __import__("pandas").DataFrame({"c": a.ravel().copy(), "d": a.ravel()})["d"].values),
        ("pd.Index", "alloc", lambda a: __import__("pandas").Index(a.ravel()[:2].tolist()).values),
        (".max", "alloc", lambda a: a.max()), (".min", "alloc", lambda a: a.min()), (".sum", "alloc", lambda a: a.sum()),
        (".any", "alloc", lambda a: a.any()), (".item", "alloc", lambda a: a[0, 0].item()),
        ("abs", "alloc", lambda a: abs(a)), ("Counter", "alloc", lambda a: np.array(list(__import__("collections").Counter(a.ravel().tolist())))),
    ]
    return P


def run_primitive_probes(r, used):
    """confirm the classes of the translator's primitive table on real numpy / xarray"""
    seen = {}
    for name, cls, fn in primitive_probes():
        for tag, arr in probe_arrays():
            try:
                res = fn(arr)
            except Exception as ex:
                r.tag("probe-error:" + name)
                r.notes.append(f"probe {name} on {tag}: {ex!r}"[:160])
                continue
            if not isinstance(res, np.ndarray):
                res = np.asarray(res)
            sh = bool(np.shares_memory(res, arr))
            seen.setdefault((name, cls), set()).add(sh)
            r.case(f"probe:{name}:{tag}", nontrivial=True, tags=[f"probe:{cls}"])
            if cls in ("alloc", "copy") and sh:
                r.disagree("primitive-table", dict(primitive=name, layout=tag), "result shares memory with the argument",
                           f"classified {cls} (fresh buffer)")
            if cls == "view" and not sh and res.size > 0:
                r.disagree("primitive-table", dict(primitive=name, layout=tag), "result does not share memory",
                           "classified view")
    # auto probe: every function of the table classified alloc / view that accepts (array) or (array, array)
    import facts_bufprog as fb
    auto_ok = auto_tried = 0
    for name, cls in sorted(fb.PRIMS.items()):
        if not name.startswith("np.") or cls not in ("alloc", "copy", "view", "mview"):
            continue
        obj = np
        try:
            for part in name.split(".")[1:]:
                obj = getattr(obj, part)
        except AttributeError:
            continue
        if not callable(obj) or isinstance(obj, type) and name.split(".")[-1] not in ("float32",):
            continue
        for tag, arr in list(probe_arrays())[::5]:
            for args in ((arr,), (arr, arr), (arr, 1), (arr, 0)):
                try:
                    import warnings
                    with warnings.catch_warnings():
                        warnings.simplefilter("ignore")
                        res = obj(*args)
                except Exception:
                    continue
                auto_tried += 1
                parts = res if isinstance(res, (tuple, list)) else [res]
                for p in parts:
                    if isinstance(p, np.ma.MaskedArray):
                        p = p.data
                    if isinstance(p, np.ndarray):
                        sh = bool(np.shares_memory(p, arr))
                        if cls in ("alloc", "copy") and sh:
                            r.disagree("primitive-table", dict(primitive=name, layout=tag, nargs=len(args)),
                                       "result shares memory with the argument", f"classified {cls}")
                        elif cls == "view" and not sh and p.size:
                            r.disagree("primitive-table", dict(primitive=name, layout=tag, nargs=len(args)),
                                       "result does not share memory", "classified view")
                        else:
                            auto_ok += 1
                break
    r.extra["primitive_probes"] = dict(explicit=len(seen), auto_calls=auto_tried, auto_confirmed=auto_ok,
                                       maybe_view_resolutions={n: sorted(v) for (n, c), v in seen.items() if c == "mview"})
    probed = {n for n, _ in seen}
    r.extra["primitives_used_by_programs"] = sorted(used)
    def cls_of(u):
        return fb.METHODS.get(u[1:]) if u.startswith(".") else fb.PRIMS.get(u)
    r.extra["primitives_used_not_probed"] = sorted(
        u for u in used if cls_of(u) in ("alloc", "copy", "view", "mview", "astype")
        and not any(u == p or (u.startswith(".") and u in p) for p in probed)
        and not (u in fb.PRIMS and u.startswith("np.")))


# ------------------------------------------------------------------------------------------------ wrapper-level probes
def component_sharing(out, data_src, coords_src, attrs_src):
    """(cells shared, coordinate memory shared, attrs dict shared) between the result of an xarray primitive and
    the sources it was built from; None when the result is no raster object"""
    import xarray as xr
    outs = []

    def coll(o):
        if isinstance(o, xr.DataArray):
            outs.append(o)
        elif isinstance(o, xr.Dataset):
            outs.extend(o[k] for k in o.data_vars)
        elif isinstance(o, (tuple, list)):
            for x in o:
                coll(x)
    coll(out)
    if not outs:
        return None
    src_coord_bufs = []
    if coords_src is not None:
        for cn, cv in coords_src.coords.items():
            a = cv.variable._data if isinstance(cv.variable._data, np.ndarray) else cv.data
            if isinstance(a, np.ndarray):
                src_coord_bufs.append(a)
    d = c = a = False
    for o in outs:
        if data_src is not None and isinstance(o.data, np.ndarray) and o.data.size and np.shares_memory(o.data, data_src):
            d = True
        for cn, cv in o.coords.items():
            arr = cv.variable._data if isinstance(cv.variable._data, np.ndarray) else cv.data
            if not isinstance(arr, np.ndarray) or (cn in o.indexes and not arr.flags.writeable):
                continue
            if any(np.shares_memory(arr, b) for b in src_coord_bufs) or \
                    (data_src is not None and np.shares_memory(arr, data_src)):
                c = True
        if attrs_src is not None and o.attrs is attrs_src:
            a = True
    return d, c, a


def wrapper_probes():
    """(row of the wrapper-level table, spelling, probe: source raster -> (result, data source, coords source,
    attrs source))"""
    import copy as cp
    import xarray as xr

    def fresh(s):
        return np.zeros(s.shape)

    def ctor(s):
        a = fresh(s)
        return xr.DataArray(a, coords=s.coords, dims=s.dims, attrs=s.attrs), a, s, s.attrs

    def ctor_dict(s):
        a = fresh(s)
        return xr.DataArray(a, dims=s.dims, coords={c: s[c] for c in s.coords}, attrs=dict(s.attrs)), a, s, s.attrs

    def ctor_raw(s):
        a = fresh(s)
        return xr.DataArray(a, dims=s.dims, coords={c: (s[c].dims, s[c].data) for c in s.coords},
                            attrs=s.attrs), a, s, s.attrs

    def ctor_star(s):
        a = np.zeros((2,) + s.shape)
        return xr.DataArray(a, dims=("stats",) + tuple(s.dims), coords={"stats": [0, 1], **s.coords}, attrs=s.attrs), a, s, s.attrs

    def with_data(deep):
        def f(s):
            a = fresh(s)
            return (s.copy(data=a) if deep is None else s.copy(deep=deep, data=a)), a, s, s.attrs
        return f

    def obj(fn):
        return lambda s: (fn(s), s.data, s, s.attrs)
    P = [
        ("DataArray", "DataArray(a, coords=s.coords, dims=s.dims, attrs=s.attrs)", ctor),
        ("DataArray", "DataArray(a, coords={c: s[c]}, attrs=dict(s.attrs))", ctor_dict),
        ("DataArray", "DataArray(a, coords={c: (dims, s[c].data)})", ctor_raw),
        ("DataArray", "DataArray(a, coords={'stats': …, **s.coords})", ctor_star),
        ("DataArray", "DataArray(s)", obj(lambda s: xr.DataArray(s))),
        ("copy(deep)", "s.copy()", obj(lambda s: s.copy())),
        ("copy(deep)", "s.copy(deep=True)", obj(lambda s: s.copy(deep=True))),
        ("copy(deep)", "copy.deepcopy(s)", obj(lambda s: cp.deepcopy(s))),
        ("copy(shallow)", "s.copy(deep=False)", obj(lambda s: s.copy(deep=False))),
        ("copy(shallow)", "copy.copy(s)", obj(lambda s: cp.copy(s))),
        ("copy(deep,data)", "s.copy(deep=True, data=a)", with_data(True)),
        ("copy(deep,data)", "s.copy(data=a)", with_data(None)),
        ("copy(shallow,data)", "s.copy(deep=False, data=a)", with_data(False)),
        ("copy(?)", "s.copy(deep=flag)", obj(lambda s: s.copy(deep=bool(s.shape[0] % 2)))),
        ("copy(?)", "s.copy(deep=not flag)", obj(lambda s: s.copy(deep=not bool(s.shape[0] % 2)))),
        ("astype", "s.astype('f4')", obj(lambda s: s.astype("f4"))),
        ("astype", "s.astype(s.dtype)", obj(lambda s: s.astype(s.dtype))),
        ("astype(nocopy)", "s.astype(s.dtype, copy=False)", obj(lambda s: s.astype(s.dtype, copy=False))),
        ("astype(nocopy)", "s.astype('f4', copy=False)", obj(lambda s: s.astype("f4", copy=False))),
        ("arith", "s * 2", obj(lambda s: s * 2)), ("arith", "-s", obj(lambda s: -s)), ("arith", "s > 0", obj(lambda s: s > 0)),
        ("arith", "s + s", obj(lambda s: s + s)), ("arith", "np.sqrt(s)", obj(lambda s: np.sqrt(s))),
        ("arith", "np.maximum(s, 0)", obj(lambda s: np.maximum(s, 0))),
        ("arith", "s.where(s > 0)", obj(lambda s: s.where(s > 0))), ("arith", "s.clip(0, 1)", obj(lambda s: s.clip(0, 1))),
        ("arith", "s.max()", obj(lambda s: s.max())), ("arith", "s.mean('y')", obj(lambda s: s.mean("y"))),
        ("arith", "xr.where(s > 0, s, 0)", obj(lambda s: xr.where(s > 0, s, 0))),
        ("arith", "s.fillna(0)", obj(lambda s: s.fillna(0))), ("arith", "s.round()", obj(lambda s: s.round())),
        ("viewlike", "s.T", obj(lambda s: s.T)), ("viewlike", "s.isel(y=slice(0, 2))", obj(lambda s: s.isel(y=slice(0, 2)))),
        ("viewlike", "s.rename('q')", obj(lambda s: s.rename("q"))), ("viewlike", "s.assign_attrs(k=1)", obj(lambda s: s.assign_attrs(k=1))),
        ("viewlike", "s.assign_coords(z=1)", obj(lambda s: s.assign_coords(z=1))),
        ("viewlike", "s.to_dataset(name='q')", obj(lambda s: s.to_dataset(name="q"))),
        ("viewlike", "s.compute()", obj(lambda s: s.compute())), ("viewlike", "s.squeeze()", obj(lambda s: s.squeeze())),
        ("viewlike", "s.transpose('x', 'y')", obj(lambda s: s.transpose("x", "y"))),
        ("viewlike", "s[1:, :2]", obj(lambda s: s[1:, :2])),
        ("viewlike", "s.sel(y=[1], method='nearest')", obj(lambda s: s.sel(y=[1], method="nearest"))),
        ("like", "xr.zeros_like(s)", obj(lambda s: xr.zeros_like(s))), ("like", "xr.ones_like(s)", obj(lambda s: xr.ones_like(s))),
        ("like", "xr.full_like(s, 1)", obj(lambda s: xr.full_like(s, 1))),
    ]
    return P


def probe_rasters():
    rng = random.Random(5)
    for i, dt in enumerate(("int8", "uint16", "int64", "float32", "float64")):
        for j, lay in enumerate(LAYOUTS):
            meta = dict(coords=["scalar", "aux2d", "nonindex1d", "cattrs"], cdtype=DTYPES[(3 * i + j) % len(DTYPES)],
                        clayout=LAYOUTS[(i + j) % 4], attrs=("nested", "arrays", "plain", "nested")[j])
            r, _, _ = mk_raster(rng, dt, lay, "numpy", nan=False, rname="elev", meta=meta)
            yield f"{dt}/{lay}/coords:{meta['cdtype']}/{meta['clayout']}", r


def run_wrapper_probes(r):
    """the wrapper-level primitive table (facts_bufprog.WPRIMS = Gen.primTable of the Lean side) against the real
    xarray: every row with several spellings, every DataArray method, every numpy function of the table applied to a
    DataArray"""
    import warnings
    import xarray as xr
    import facts_bufprog as fb
    # (1) the table the Lean programs were built with is the table probed here
    try:
        reply = Driver().ask(["primtable"])[0]
        lean_table = {row.split("|")[0]: tuple(row.split("|")[1:]) for row in reply.split(";") if row}
    except Exception as ex:
        lean_table = None
        r.notes.append("driver unavailable for primtable: " + repr(ex)[:100])
    if lean_table is not None and lean_table != {k: tuple(v) for k, v in fb.WPRIMS.items()}:
        r.disagree("wrapper-table", dict(side="Gen.primTable vs facts_bufprog.WPRIMS"), str(sorted(fb.WPRIMS.items()))[:300],
                   str(sorted(lean_table.items()))[:300])
    table = fb.WPRIMS
    comps = ("cells", "coordinates", "attrs dict")
    seen = {}

    def judge_row(row, spelling, tag, got, exact):
        for mode, sh, comp in zip(table[row], got, comps):
            seen.setdefault((row, comp), set()).add(sh)
            if mode in ("fresh", "deep") and sh:
                r.disagree("wrapper-table", dict(row=row, spelling=spelling, raster=tag, component=comp),
                           "the result shares this component with its source", f"classified {mode}")
            if exact and mode == "shallow" and not sh:
                r.disagree("wrapper-table", dict(row=row, spelling=spelling, raster=tag, component=comp),
                           "the result does not share this component", "classified shallow")
    rasters = list(probe_rasters())
    for row, spelling, fn in wrapper_probes():
        for tag, src in rasters:
            try:
                with warnings.catch_warnings():
                    warnings.simplefilter("ignore")
                    out, dsrc, csrc, asrc = fn(src)
                got = component_sharing(out, dsrc, csrc, asrc)
            except Exception as ex:
                r.tag("wprobe-error:" + spelling[:30])
                r.notes.append(f"wrapper probe {spelling} on {tag}: {ex!r}"[:160])
                continue
            if got is None:
                continue
            r.case(f"wprobe:{spelling}:{tag}", nontrivial=True, tags=[f"wprobe:{row}"])
            judge_row(row, spelling, tag, got, exact=True)
    # (2) every public method of DataArray: what the translator does with the name must cover what xarray does
    auto = 0
    io = lambda n: (n.startswith("to_") and n not in ("to_dataset", "to_array", "to_dataarray", "to_numpy", "to_masked_array",
                                                         "to_index", "to_series", "to_pandas", "to_dict", "to_dataframe")) \
        or n in ("plot", "pipe", "map_blocks", "from_dict", "from_series", "from_iris")      # nothing that writes files
    for name in sorted(n for n in dir(xr.DataArray) if not n.startswith("_") and not io(n)):
        for tag, src in rasters[::7]:
            f = getattr(src, name, None)
            if not callable(f):
                break
            got = None
            for args, kw in (((), {}), ((src > 0,), {}), ((0,), {}), ((0, 1), {}), (("y",), {}), (({"y": 0},), {}),
                             ((), {"y": 0}), (("f4",), {}), ((src,), {}), ((), {"name": "q"}), (("q",), {})):
                try:
                    with warnings.catch_warnings():
                        warnings.simplefilter("ignore")
                        got = component_sharing(f(*args, **kw), src.data, src, src.attrs)
                    if got is not None:
                        break
                except Exception:
                    continue
            if got is None:
                continue
            auto += 1
            if name in ("copy", "astype"):
                continue            # probed above, one spelling per row
            row = fb.XMETHODS.get(name)
            if row is not None:
                judge_row(row, f"DataArray.{name}(…)", tag, got, exact=False)
            elif fb.METHODS.get(name) in ("alloc", "scalar", "mview", "astype") and any(got):
                r.disagree("wrapper-table", dict(method=name, raster=tag), f"the result shares (cells, coords, attrs) = {got}",
                           f"the translator treats .{name}() as the ndarray method ({fb.METHODS.get(name)})")
    # (3) numpy functions that hand a DataArray back for a DataArray must be known as such (else their result would be
    #     taken for a bare array without coordinates)
    tag, src = rasters[-1]
    missing = []
    for name, cls in sorted(fb.PRIMS.items()):
        if not name.startswith("np.") or cls not in ("alloc", "copy", "view", "mview"):
            continue
        obj = np
        try:
            for part in name.split(".")[1:]:
                obj = getattr(obj, part)
        except AttributeError:
            continue
        if not callable(obj):
            continue
        for args in ((src,), (src, src), (src, 1), (src, 0), (src > 0, src, src)):
            try:
                with warnings.catch_warnings():
                    warnings.simplefilter("ignore")
                    out = obj(*args)
            except Exception:
                continue
            parts = out if isinstance(out, (tuple, list)) else [out]
            if any(isinstance(p, (xr.DataArray, xr.Variable, xr.Dataset)) for p in parts) and name[3:] not in fb.NP_XR:
                missing.append(name)
            break
    for name in missing:
        r.disagree("wrapper-table", dict(function=name), "returns a DataArray when it is given one",
                   "not listed in facts_bufprog.NP_XR (its result would be taken for a bare array)")
    r.extra["wrapper_probes"] = dict(rows=len(table), spellings=len(wrapper_probes()), rasters=len(rasters),
                                     methods_probed=auto, resolutions={f"{row}:{comp}": sorted(v) for (row, comp), v in seen.items()
                                                                       if table[row][comps.index(comp)] == "maybe"})


# ------------------------------------------------------------------------------------------------ the check
def gen_report():
    rep = json.load(open(os.path.join(LEAN, "XrsVerif", "Gen", "report.json")))
    return rep.get("facts:BufProgs.lean", {"entries": {}})


def kind_report():
    rep = json.load(open(os.path.join(LEAN, "XrsVerif", "Gen", "report.json")))
    return rep.get("facts:DaskKinds.lean", {"entries": {}})


def dask_kind_verdicts():
    """driver verdicts on the kind programs of the Dask paths: name -> dict(ok, kinds)"""
    try:
        d = Driver()
        names = [n for n in d.ask(["daskkinds"])[0].split(",") if n]
        replies = d.ask([f"daskkind name={n}" for n in names]) if names else []
    except Exception as ex:
        return {}, repr(ex)
    out = {}
    for n, line in zip(names, replies):
        if not line.startswith("ok="):
            continue
        kv = dict(t.split("=", 1) for t in line.split(" "))
        out[n] = dict(ok=kv["ok"] == "true", kinds=kv.get("kinds", ""), size=int(kv.get("size", "0")))
    return out, None


def run_kind_probes(r, krep):
    """the two tables the kind translator trusts, on the real dask: a numpy function it treats as dispatched hands back a
    dask collection for a dask argument (and an in-memory array for an in-memory one); the methods it treats as
    backend-preserving do preserve it; the calls it treats as materialising do materialise"""
    import warnings
    import dask
    import dask.array as da
    import facts_daskkind as fk
    with dask.config.set(scheduler="synchronous"):      # no thread pool in the process the workers are forked from
        _run_kind_probes(r, krep, da, fk, warnings)


def _run_kind_probes(r, krep, da, fk, warnings):
    base = np.arange(12, dtype="f8").reshape(3, 4) + 1.0
    lazy = da.from_array(base, chunks=(2, 3))
    np_used, meth_used = set(), set()
    for e in krep.get("entries", {}).values():
        np_used.update(e.get("np_used", []))
        meth_used.update(e.get("meth_used", []))
    is_lazy = lambda v: any(isinstance(x, da.Array) for x in (v if isinstance(v, (tuple, list)) else [v]))
    probed = 0
    for name in sorted(np_used):
        fn = np
        for part in name.split("."):
            fn = getattr(fn, part, None)
        if fn is None:
            continue
        got = None
        for args in ((lazy,), (lazy, lazy), (lazy > 2, lazy, 0.0), (lazy, 50), (lazy, 1), ([lazy, lazy],), (lazy, [2.0, 5.0])):
            try:
                with warnings.catch_warnings():
                    warnings.simplefilter("ignore")
                    got = fn(*args)
                break
            except Exception:
                continue
        if got is None:
            r.tag("kindprobe-not-callable:" + name)
            continue
        probed += 1
        r.case(f"kindprobe:np.{name}", nontrivial=True, tags=["kindprobe:dispatch"])
        if not is_lazy(got):
            r.disagree("kind-table", dict(function="np." + name), f"returns {type(got).__name__} for a dask argument",
                       "facts_daskkind.NP_DISPATCH: a dask collection as soon as one operand is one")
    meth_calls = {"astype": lambda a: a.astype("f4"), "reshape": lambda a: a.reshape(-1), "ravel": lambda a: a.ravel(),
                  "flatten": lambda a: a.flatten(), "transpose": lambda a: a.transpose(), "squeeze": lambda a: a.squeeze(),
                  "copy": lambda a: a.copy(), "clip": lambda a: a.clip(0, 5), "round": lambda a: a.round(),
                  "sum": lambda a: a.sum(), "mean": lambda a: a.mean(), "min": lambda a: a.min(), "max": lambda a: a.max(),
                  "std": lambda a: a.std(), "var": lambda a: a.var(), "prod": lambda a: a.prod(), "any": lambda a: a.any(),
                  "all": lambda a: a.all(), "cumsum": lambda a: a.cumsum(axis=0), "dot": lambda a: a.dot(a.T),
                  "repeat": lambda a: a.repeat(2, axis=0), "swapaxes": lambda a: a.swapaxes(0, 1),
                  "map_blocks": lambda a: a.map_blocks(lambda x: x), "rechunk": lambda a: a.rechunk((3, 4)),
                  "map_overlap": lambda a: a.map_overlap(lambda x: x, depth=1, boundary=np.nan),
                  "argmin": lambda a: a.argmin(), "argmax": lambda a: a.argmax(), "conj": lambda a: a.conj(),
                  "nonzero": lambda a: a.nonzero(), "view": lambda a: a.view("f8")}
    for name in sorted(meth_used):
        call = meth_calls.get(name)
        if call is None:
            r.tag("kindprobe-not-probed:." + name)
            continue
        try:
            with warnings.catch_warnings():
                warnings.simplefilter("ignore")
                got = call(lazy)
        except Exception as ex:
            r.tag("kindprobe-error:." + name)
            continue
        probed += 1
        r.case(f"kindprobe:.{name}", nontrivial=True, tags=["kindprobe:method"])
        if not is_lazy(got):
            r.disagree("kind-table", dict(method=name), f"returns {type(got).__name__} for a dask receiver",
                       "facts_daskkind.METH_SAME: stays within the receiver's backend")
    for label, call in (("compute", lambda a: a.compute()), ("np.asarray", lambda a: np.asarray(a)),
                        ("np.array", lambda a: np.array(a)), ("da.compute", lambda a: da.compute(a.min())[0]),
                        ("DataArray.values", lambda a: __import__("xarray").DataArray(a).values)):
        got = call(lazy)
        probed += 1
        r.case(f"kindprobe:{label}", nontrivial=True, tags=["kindprobe:eager"])
        if is_lazy(got):
            r.disagree("kind-table", dict(call=label), "returns a dask collection", "classified as materialising (eager)")
    r.extra["kind_probes"] = dict(np_dispatch=sorted(np_used), methods=sorted(meth_used), probed=probed,
                                  tables=dict(np_dispatch=len(fk.NP_DISPATCH), np_eager=len(fk.NP_EAGER),
                                              meth_same=len(fk.METH_SAME)))


def predictions(funcs):
    """driver verdicts on the generated programs: name -> dict(ok, write, ret, unknown, meta, view)"""
    try:
        replies = Driver().ask([f"bufprog name={f}" for f in funcs])
    except Exception as ex:
        return {}, repr(ex)
    out = {}
    for f, line in zip(funcs, replies):
        if not line.startswith("ok="):
            out[f] = None
            continue
        kv = dict(t.split("=", 1) for t in line.split(" "))
        ints = lambda t: [int(x) for x in kv.get(t, "").split(",") if x]
        out[f] = dict(ok=kv["ok"] == "true", write=ints("write"), ret=ints("ret"), retc=ints("retc"), reta=ints("reta"),
                      k=int(kv.get("k", "0")), unknown=kv["unknown"] == "true",
                      meta=kv["meta"] == "true", view=kv["view"] == "true", size=int(kv["size"]))
    return out, None


def make_cases(rng, funcs, tier, full=False, only_backend=None):
    cases = []
    for f in funcs:
        for backend in ("numpy", "dask"):
            if backend == "dask" and f in NUMPY_ONLY:
                continue
            if only_backend and backend != only_backend:
                continue
            combos = [(d, l) for d in DTYPES for l in LAYOUTS]
            if full:
                pick = combos if f not in SLOW else rng.sample(combos, 12)
            elif tier == "thorough":
                n = 40 if f not in SLOW else 10
                pick = combos if n >= len(combos) else rng.sample(combos, n)
                if backend == "dask":
                    pick = rng.sample(combos, 12 if f not in SLOW else 4)
            else:
                n = (4 if backend == "numpy" else 1) if f not in SLOW else (2 if backend == "numpy" else 1)
                pick = rng.sample(combos, n)
                # every layout and both dtype families at least once per function over the numpy picks
                if backend == "numpy" and f not in SLOW:
                    pick[0] = (rng.choice(DTYPES[:8]), pick[0][1])
                    pick[1] = (rng.choice(DTYPES[8:]), pick[1][1])
            for i, (d, l) in enumerate(pick):
                # the fixture dimension: per function at least one raster whose attrs cannot be deep-copied, one with
                # nested / array-valued attrs and one with scalar + 2-D auxiliary + non-index 1-D coordinates
                if backend == "numpy" and i % 4 == 0:
                    meta = draw_meta(rng, attrs=rng.choice(UNCOPYABLE))
                elif backend == "numpy" and i % 4 == 1:
                    meta = draw_meta(rng, attrs=rng.choice(["nested", "arrays"]), coords=["scalar", "aux2d", "nonindex1d"])
                else:
                    meta = draw_meta(rng)
                cases.append(dict(func=f, backend=backend, dtype=d, layout=l, seed=rng.randrange(1 << 30), meta=meta))
    return cases


# ------------------------------------------------------------------------------------------------ backend stream
CHUNK_CLASSES = ["single", "cells", "rows", "cols", "ragged", "thin", "uneven", "regular"]
KERNEL_SHAPES = [(3, 3), (5, 5), (7, 5), (5, 7), (3, 5), (5, 3), (1, 1), (3, 1)]
WIDE_KERNELS = [(5, 5), (7, 5), (5, 7), (3, 5), (5, 3)]          # a half-width of 2 or 3 along at least one axis
KERNEL_FUNCS = {"convolution.convolution_2d", "convolution.convolve_2d", "focal.apply", "focal.hotspots",
                "focal.focal_stats"}
BIG = (10, 13)


def blocks(n, c):
    return [c] * (n // c) + ([n % c] if n % c else [])


def draw_chunks(rng, cls, shape, kshape=(3, 3)):
    """explicit block sizes per axis of one chunking class.  `thin` is relative to the kernel: blocks thinner than its
    half-width along an axis (the halo of map_overlap is wider than the block); `ragged`: a remainder block smaller
    than the others; `uneven`: blocks of unrelated sizes"""
    h, w = shape
    if cls == "single":
        return [[h], [w]]
    if cls == "cells":
        return [[1] * h, [1] * w]
    if cls == "rows":
        return [[1] * h, [w]]
    if cls == "cols":
        return [[h], [1] * w]
    if cls == "ragged":
        cy = rng.choice([c for c in range(2, h) if h % c] or [h])
        cx = rng.choice([c for c in range(2, w) if w % c] or [w])
        return [blocks(h, cy), blocks(w, cx)]
    if cls == "thin":
        ty = rng.randrange(1, max(2, kshape[0] // 2))
        tx = rng.randrange(1, max(2, kshape[1] // 2))
        which = rng.choice(["y", "x", "both"])
        cy = ty if which in ("y", "both") else rng.randrange(max(1, kshape[0] // 2), h + 1)
        cx = tx if which in ("x", "both") else rng.randrange(max(1, kshape[1] // 2), w + 1)
        return [blocks(h, cy), blocks(w, cx)]
    if cls == "uneven":
        def comp(n):
            out = []
            while sum(out) < n:
                out.append(min(rng.randrange(1, 5), n - sum(out)))
            return out
        return [comp(h), comp(w)]
    return [blocks(h, rng.randrange(2, h + 1)), blocks(w, rng.randrange(2, w + 1))]


def draw_kernel(rng, kshape):
    kh, kw = kshape
    style = rng.choice(["ones", "binary", "weights"])
    if style == "ones":
        k = np.ones(kshape)
    elif style == "binary":
        k = np.array([[float(rng.random() < 0.6) for _ in range(kw)] for _ in range(kh)])
        k[kh // 2, kw // 2] = 1.0
    else:
        k = np.array([[rng.randrange(1, 5) / 4.0 for _ in range(kw)] for _ in range(kh)])
    return k.tolist()


def has_dask_path(f):
    return f not in NUMPY_ONLY and (f in IDENTITY or f in BACKEND_ONLY or f == "convolution.convolve_2d")


def make_backend_cases(rng, funcs, tier, only=None, reps=1):
    """backend identity as a generator dimension: every raster-in/raster-out function with a Dask path x chunking class
    (single chunk, 1-cell chunks, 1-row / 1-column chunks, ragged remainders, chunks thinner than the kernel half-width,
    uneven blocks) x kernel shape up to 7x5 for the functions that take a kernel; the same kernels on NumPy input"""
    cases = []
    for f in funcs:
        if not has_dask_path(f) or (only is not None and f not in only):
            continue
        for _ in range(reps):
            if f in KERNEL_FUNCS:
                plan = [(c, rng.choice(WIDE_KERNELS)) for c in CHUNK_CLASSES]
                plan += [(c, rng.choice(KERNEL_SHAPES)) for c in (rng.sample(CHUNK_CLASSES, 2) if tier == "quick"
                                                                  else CHUNK_CLASSES)]
            elif f in SLOW:
                plan = [(c, None) for c in (rng.sample(CHUNK_CLASSES, 2) if tier == "quick" and only is None
                                             else CHUNK_CLASSES)]
            else:
                plan = [(c, None) for c in (rng.sample(CHUNK_CLASSES, 3) if tier == "quick" and only is None
                                             else CHUNK_CLASSES)]
            for cls, ksh in plan:
                shape = BIG if (ksh is not None or rng.random() < 0.25) else (H, W)
                c = dict(func=f, backend="dask", dtype=rng.choice(DTYPES), layout=rng.choice(LAYOUTS),
                         seed=rng.randrange(1 << 30), meta=draw_meta(rng, attrs=rng.choice(ATTR_STYLES[:3])),
                         stream="backend", shape=list(shape),
                         chunkclass=cls, chunks=draw_chunks(rng, cls, shape, ksh or (3, 3)))
                if ksh is not None:
                    c["kernel"] = draw_kernel(rng, ksh)
                cases.append(c)
            if f in KERNEL_FUNCS:
                # NumPy in -> NumPy out with the same wide kernels
                cases.append(dict(func=f, backend="numpy", dtype=rng.choice(DTYPES), layout=rng.choice(LAYOUTS),
                                  seed=rng.randrange(1 << 30), meta=draw_meta(rng, attrs=rng.choice(ATTR_STYLES[:3])),
                                  stream="backend", shape=list(BIG), kernel=draw_kernel(rng, rng.choice(WIDE_KERNELS))))
    return cases


# ------------------------------------------------------------------------------------------------ edge stream
COORD_STYLES = ["descending-x", "ascending-y", "nonmonotonic", "duplicate", "geographic", "lon360", "lon-neg", "lat-out",
                "nan", "huge", "tiny-step", "int", "threshold"]
STRUCTURAL = ["1d", "3d", "transposed", "empty", "single-cell", "single-row", "single-column", "no-coords", "not-a-raster"]
STRUCTURAL_MULTI = ["shape-mismatch", "coords-mismatch"]


def coordspec_of(rng, style, shape, thr=None, axis=None, mode=None):
    """explicit index-coordinate values of one style.  `threshold`: the values of one axis straddle / lie beyond a number
    the source compares something with (harvested by facts_bufprog.source_hints), the other axis stays in a range every
    metric accepts"""
    h, w = shape
    ys, xs = np.linspace(h - 1.0, 0.0, h), np.linspace(0.0, w - 1.0, w)
    spec = dict(style=style)
    if style == "descending-x":
        xs = xs[::-1]
    elif style == "ascending-y":
        ys = ys[::-1]
    elif style == "nonmonotonic":
        xs, ys = list(xs), list(ys)
        rng.shuffle(xs)
        rng.shuffle(ys)
    elif style == "duplicate":
        xs = np.where(np.arange(w) % 2 == 0, xs, xs - 1.0)
    elif style == "geographic":
        xs, ys = np.linspace(-170.0, 170.0, w), np.linspace(80.0, -80.0, h)
    elif style == "lon360":
        xs, ys = np.linspace(0.0, 350.0, w), np.linspace(80.0, -80.0, h)
    elif style == "lon-neg":
        xs, ys = np.linspace(-350.0, 0.0, w), np.linspace(80.0, -80.0, h)
    elif style == "lat-out":
        xs, ys = np.linspace(-170.0, 170.0, w), np.linspace(120.0, -120.0, h)
    elif style == "nan":
        xs = np.array(xs)
        if w:
            xs[rng.randrange(w)] = np.nan
    elif style == "huge":
        xs, ys = xs * 1e12, ys * 1e12
    elif style == "tiny-step":
        xs, ys = 5.0 + xs * 1e-9, 5.0 + ys * 1e-9
    elif style == "int":
        spec["dtype"] = "int64"
    elif style == "threshold":
        c = float(thr)
        span = max(10.0, abs(c) / 3.0)
        n = w if axis == "x" else h
        if mode == "straddle":
            vals = np.linspace(c - span, c + span, n)
        elif mode == "above":
            vals = np.linspace(c + 1.0, c + 1.0 + span, n)
        else:
            vals = np.linspace(c - 1.0 - span, c - 1.0, n)
        xs, ys = np.linspace(-60.0, 60.0, w), np.linspace(40.0, -40.0, h)
        if axis == "x":
            xs = vals
        else:
            ys = vals[::-1]
        spec.update(threshold=c, axis=axis, mode=mode)
    spec["x"] = [float(v) for v in xs]
    spec["y"] = [float(v) for v in ys]
    return spec


def dedupe(vals):
    out = []
    for v in vals:
        if not any((v is c) or (type(v) is type(c) and (v == c or (v != v and c != c))) for c in out):
            out.append(v)
    return out


def param_candidates(func, hints):
    """edge values for the optional parameters of a function: what the source compares them with / looks them up in
    (`hints`), plus boundary values of the default's type.  Nothing huge: a value is an edge, not a stress test."""
    import importlib
    import inspect
    mod, fn = func.split(".")
    f = getattr(importlib.import_module("xrspatial." + {"polygonize": "experimental.polygonize"}.get(mod, mod)), fn)
    out = {}
    hp = (hints or {}).get("params", {})
    for p in inspect.signature(f).parameters.values():
        if p.default is inspect.Parameter.empty or p.kind in (p.VAR_POSITIONAL, p.VAR_KEYWORD):
            continue
        d = p.default
        vals = list(hp.get(p.name, []))
        nums = [v for v in vals if isinstance(v, (int, float)) and not isinstance(v, bool)]
        vals += [v + 1 for v in nums] + [v - 1 for v in nums]
        if isinstance(d, bool):
            vals += [True, False]
        elif isinstance(d, (int, float, np.integer, np.floating)):
            vals += [0, -1, 1, 2, 0.5, 50, float("nan"), float("inf"), float("-inf"), "3", None]
        elif isinstance(d, str):
            vals += [d, d.lower(), "bogus", "", None, 0]
        elif d is None:
            vals += [None]
        elif isinstance(d, (list, tuple)):
            vals += [[], list(d)[:1], None]
        else:
            continue
        out[p.name] = dedupe(vals)
    return out


def n_rasters(func):
    """how many rasters the recipe of `func` hands over (for the multi-raster malformations)"""
    if func.startswith("multispectral.") or func in ("zonal.stats", "zonal.crosstab", "zonal.apply", "zonal.crop"):
        return 2
    return 1


def edge_base(rng, f, backend=None):
    if backend is None:
        backend = "dask" if (has_dask_path(f) and rng.random() < 0.2) else "numpy"
    return dict(func=f, backend=backend, dtype=rng.choice(DTYPES), layout=rng.choice(LAYOUTS),
                seed=rng.randrange(1 << 30), meta=draw_meta(rng, attrs=rng.choice(ATTR_STYLES[:3])), stream="edge")


def far_thresholds(hints):
    """numbers of the source's comparisons that the default fixture's coordinates (0 … 6) do not reach"""
    return [t for t in (hints or {}).get("thresholds", []) if abs(t) > max(H, W) + 3]


def cross_cases(rng, f, pvals, thresholds, backends=("numpy",), cap=96, stream="edge"):
    """parameter values x threshold-crossing coordinates: the inputs that drive branch conditions of the form
    `param == CONSTANT and coordinate.max() > NUMBER`"""
    combos = []
    names = sorted(pvals)
    grid = [dict()]
    for n in names:
        grid = [dict(g, **{n: v}) for g in grid for v in pvals[n]]
    for g in grid:
        for t in thresholds:
            for axis in ("x", "y"):
                for mode in (("above", "straddle") if t >= 0 else ("below", "straddle")):
                    combos.append((g, t, axis, mode))
    if len(combos) > cap:
        combos = rng.sample(combos, cap)
    cases = []
    for g, t, axis, mode in combos:
        for b in backends:
            c = edge_base(rng, f, backend=b)
            c.update(stream=stream, params=g, coordspec=coordspec_of(rng, "threshold", (H, W), t, axis, mode),
                     edge=f"cross:{'/'.join(f'{k}={v}' for k, v in g.items())}:{axis}{mode}{t:g}")
            cases.append(c)
    return cases


def make_edge_cases(rng, funcs, entries, tier):
    """rejected and boundary inputs: "never changes the values, coordinates or attributes of the rasters passed to it"
    also holds when the call raises.  Per function: coordinate styles (descending, non-monotonic, duplicates, NaN, out
    of the geographic range, crossing the numbers the source compares with), structural malformations (wrong number of
    dimensions, transposed, empty, mismatching shapes / coordinates of a multi-raster call), edge values of every
    optional parameter (source-derived and type-derived), and the cross product of source-derived string parameters
    with threshold-crossing coordinates"""
    cases = []
    for f in funcs:
        # functions that JIT-compile a closure on every call (proximity) or are slow by nature get fewer cases in the
        # quick tier: an edge case there costs seconds, not milliseconds
        costly = f in SLOW or f == "polygonize.polygonize"
        per = dict(quick=(1, 1, 2) if costly else (2, 2, 4),
                   thorough=(4 if costly else len(COORD_STYLES), 4 if costly else len(STRUCTURAL) + 2,
                             6 if costly else 16))[tier]
        hints = (entries.get(f) or {}).get("hints") or {}
        if f.startswith("local.") or f in ("bump.bump", "convolution.custom_kernel"):
            styles, structs = [], []          # no DataArray argument with coordinates of its own
        else:
            styles = rng.sample(COORD_STYLES[:-1], min(per[0], len(COORD_STYLES) - 1))
            pool = STRUCTURAL + (STRUCTURAL_MULTI * 2 if n_rasters(f) > 1 else [])
            structs = rng.sample(pool, min(per[1], len(pool)))
        far = far_thresholds(hints)
        for st in styles:
            c = edge_base(rng, f)
            c.update(coordspec=coordspec_of(rng, st, (H, W)), edge="coords:" + st)
            cases.append(c)
        for t in (far if tier == "thorough" else far[:0]):
            for axis in ("x", "y"):
                c = edge_base(rng, f)
                c.update(coordspec=coordspec_of(rng, "threshold", (H, W), t, axis, "straddle"), edge=f"coords:threshold{t:g}")
                cases.append(c)
        for how in structs:
            c = edge_base(rng, f)
            c.update(malform=how, edge="struct:" + how)
            cases.append(c)
        try:
            cands = param_candidates(f, hints)
        except Exception:
            cands = {}
        flat = [(n, v) for n, vs in sorted(cands.items()) for v in vs]
        for n, v in (rng.sample(flat, min(per[2], len(flat))) if flat else []):
            c = edge_base(rng, f)
            c.update(params={n: v}, edge=f"param:{n}={v!r}"[:60])
            cases.append(c)
        # source-derived string parameters x numbers the source compares coordinates with
        svals = {n: [v for v in vs if isinstance(v, str)] for n, vs in hints.get("params", {}).items()}
        svals = {n: vs + ["bogus"] for n, vs in svals.items() if len(vs) >= 2}
        if svals and far:
            cases += cross_cases(rng, f, svals, far, backends=("numpy",) if tier == "quick" else ("numpy", "dask"),
                                 cap=(4 if costly else 24) if tier == "quick" else (48 if costly else 200))
    return cases


def make_targeted_cases(rng, bad, entries, full=False):
    """a proof obligation broke: the generated program of `f` may write an input.  The translator names the parameter
    and the branch conditions the offending store sits under (`input_writes` of the report); call `f` with the inputs
    that drive those conditions -- the constants its parameters are compared with there (and the keys under which the
    module's tables hold them), coordinates crossing the numbers that coordinate expressions are compared with -- on
    both backends.  `full` (the search): also every other value the source knows for those parameters."""
    cases = []
    for f in bad:
        e = entries.get(f) or {}
        general = e.get("hints") or {}
        seen = set()
        for iw in e.get("input_writes") or [{}]:
            gh = iw.get("hints") or {}
            sig = json.dumps([gh.get("params"), gh.get("thresholds")], sort_keys=True, default=str)
            if sig in seen:
                continue
            seen.add(sig)
            pvals = {n: list(vs) for n, vs in gh.get("params", {}).items() if vs}
            if full:
                for n, vs in pvals.items():
                    pvals[n] = dedupe(vs + list(general.get("params", {}).get(n, [])) + ["bogus"])[:8]
            thr = list(gh.get("thresholds", [])) or (far_thresholds(general) if full else [])
            backends = ("numpy", "dask") if has_dask_path(f) else ("numpy",)
            if thr:
                cs = cross_cases(rng, f, pvals, thr, backends=backends, cap=200 if full else 16, stream="targeted")
            else:
                cs = []
                grid = [dict()]
                for n in sorted(pvals):
                    grid = [dict(g, **{n: v}) for g in grid for v in pvals[n]]
                for g in grid[:60 if full else 8]:
                    for b in backends:
                        for meta_attrs in (ATTR_STYLES[:3] if full else ATTR_STYLES[:1]):
                            c = edge_base(rng, f, backend=b)
                            c.update(stream="targeted", params=g, edge="guard:" + "/".join(f"{k}={v}" for k, v in g.items()))
                            c["meta"] = draw_meta(rng, attrs=meta_attrs)
                            cs.append(c)
            for c in cs:
                c["targets"] = iw.get("inputs", [])
                c["guards"] = iw.get("guards", [])[:4]
            cases += cs
    return cases


def judge(r, res, entries, preds):
    """oracle + correspondence for one observation"""
    c = res["case"]
    if c.get("kind") == "sequence":
        r.case(c, nontrivial=True, tags=["stream:sequence", f"backend:{c['backend']}", f"seqlen:{len(c['funcs'])}"])
        if res["modified"] or res["probe_modified"]:
            r.fail(f"{res.get('culprit')}:input-modified-in-sequence",
                   f"sequence {c['funcs']} [{c['backend']}, {c['dtype']}, {c['layout']}]: "
                   + "; ".join(res["modified"] + res["probe_modified"])[:400], c)
        return
    key = c["func"]
    st = res["status"].split(":")[0]
    m = c.get("meta") or dict(coords=["scalar"], attrs="plain", cdtype="int64", clayout="C")
    stream = c.get("stream", "main")
    extra_tags = [f"stream:{stream}"]
    if c.get("chunkclass"):
        extra_tags.append(f"chunks:{c['chunkclass']}")
    if c.get("kernel") is not None:
        extra_tags.append(f"kernel:{len(c['kernel'])}x{len(c['kernel'][0]) if c['kernel'] else 0}")
    if c.get("shape"):
        extra_tags.append(f"shape:{c['shape'][0]}x{c['shape'][1]}")
    if c.get("edge"):
        extra_tags.append("edge:" + (c["edge"].split("=")[0] if c["edge"].startswith("param:") else
                                     c["edge"].split(":")[0] + ":" + c["edge"].split(":")[1][:24] if c["edge"].startswith(("coords:", "struct:"))
                                     else c["edge"].split(":")[0]))
        extra_tags.append("edge-outcome:" + ("returned" if st == "ok" else "rejected"))
    r.case(c, desc=c if len(r.samples) < 6 else None, nontrivial=True,
           tags=[f"fn:{key}", f"backend:{c['backend']}", f"dtype:{c['dtype']}", f"layout:{c['layout']}",
                 f"status:{res['status'] if st != 'ok' else 'ok'}"[:60], f"attrs:{m['attrs']}",
                 f"coord-dtype:{m['cdtype']}", f"coord-layout:{m['clayout']}"] + [f"coords:{x}" for x in m["coords"]]
           + extra_tags)
    if st in ("raised", "raised-at-compute"):
        r.tag(f"raised:{key}:{c['backend']}:{res['status'].split(':')[1]}")
    if st in ("build-failed", "harness-error", "harness-timeout", "worker-crashed"):
        r.notes.append(f"{key} {c['backend']}/{c['dtype']}/{c['layout']} [{stream} {c.get('edge', '')}]: {res['status'][:300]}")
        r.tag("harness-problem" if st in ("build-failed", "harness-error") else st)
        return
    for n in res["notes"]:
        if "rechunked" in n or "in place by contract" in n or "shared by reference" in n or "during the call" in n:
            r.tag("note:" + n.split(":")[-1].strip()[:40])
    # ---- the property
    if res["modified"] or res["owner_modified"]:
        r.fail(f"{key}:input-modified", f"{key} [{c['backend']}, {c['dtype']}, {c['layout']}] modified its input: "
               + "; ".join(res["modified"] + [o + ": memory changed" for o in res["owner_modified"]])[:400], c)
    if res["shares"] and key not in VIEWS:
        r.fail(f"{key}:shares-memory", f"{key} [{c['backend']}, {c['dtype']}, {c['layout']}] returns memory shared "
               f"with {res['shares']}", c)
    if res.get("shares_meta") and key not in VIEWS:
        r.fail(f"{key}:shares-coordinate-memory", f"{key} [{c['backend']}, {c['dtype']}, {c['layout']}] returns "
               "coordinates / attribute arrays that share writable memory with the input's: "
               + "; ".join(res["shares_meta"])[:400], c)
    if res["probe_modified"]:
        r.fail(f"{key}:output-write-reaches-input", f"{key} [{c['backend']}, {c['dtype']}, {c['layout']}]: writing "
               "to the output changed the input: " + "; ".join(res["probe_modified"])[:300], c)
    if res["identity"]:
        r.fail(f"{key}:identity", f"{key} [{c['backend']}, {c['dtype']}, {c['layout']}] output does not keep the "
               "raster's identity: " + "; ".join(res["identity"])[:400], c)
    # ---- correspondence: the generated program's prediction must cover the observation (numpy path)
    if c["backend"] == "numpy" and preds.get(key) and key in entries:
        params = entries[key]["params"]
        p = preds[key]
        npar = p["k"] // 3 if p.get("k") else len(params)

        def slots(n):
            """the input buffers of parameter n: cells, coordinates, attrs"""
            i = params.index(n)
            return {i, npar + i, 2 * npar + i}
        written = {x.split(":")[0].split("[")[0] for x in res["modified"] if "values changed" in x} | \
                  {o.split(".")[0] for o in res["owner_modified"] if "coord:" not in o}
        for n in written:
            if n in params and params.index(n) not in p["write"]:
                r.disagree("prediction-vs-observation", c, f"input {n} was written", f"program predicts writes only to {p['write']}")
        # wrapper level: a changed coordinate / attribute of an input must be a predicted write of one of its buffers
        meta_written = {x.split(":")[0].split("[")[0] for x in res["modified"]
                        if ": coordinate " in x or ": attrs" in x or ": coords " in x or ": name " in x} | \
                       {o.split(".")[0] for o in res["owner_modified"] if "coord:" in o}
        for n in meta_written:
            if n in params[:npar] and not (slots(n) & set(p["write"])):
                r.disagree("prediction-vs-observation", c, f"coordinates / attrs of input {n} were written",
                           f"program predicts writes only to {[params[i] for i in p['write']]}")
        for n in set(res["shares"]):
            if n in params and params.index(n) not in p["ret"]:
                r.disagree("prediction-vs-observation", c, f"result shares memory with {n}", f"program predicts aliases only of {p['ret']}")
        for okind, n, ikind in res.get("shares_comp", []):
            if n in params[:npar] and not (slots(n) & set(p["ret"] + p["retc"] + p["reta"])) and key not in VIEWS:
                r.disagree("prediction-vs-observation", c, f"the result's {okind} shares memory with a {ikind} buffer of {n}",
                           f"program predicts that the result may alias only {[params[i] for i in p['ret'] + p['retc'] + p['reta']]}")


def run(r, full=False):
    import time
    t_start = time.time()
    r.extra.setdefault("phase_s", {})["proofs"] = round(t_start - r.t0, 1)
    rep = gen_report()
    entries = rep.get("entries", {})
    funcs = sorted(entries)
    r.rule = ("main stream: per public function (dtype, layout) pairs sampled from {int8..uint64,float32,float64} x {C,F,strided view,"
              "read-only} (thorough: all 40 on numpy) x {numpy,dask}; 6x7 rasters with NaN cells for floats, scalar coords "
              "and nested attrs.  backend stream: every raster function with a Dask path x chunking class {single chunk, 1-cell, "
              "1-row, 1-column, ragged remainder, thinner than the kernel half-width, uneven, regular} (quick: 3 classes per "
              "function, all 8 for the functions that take a kernel) x kernel shape {3x3,5x5,7x5,5x7,3x5,5x3,1x1,3x1} on 10x13 "
              "rasters; Dask in -> Dask out (lazy, blocks adding up to the shape, computes to the shape), NumPy in -> NumPy out.  "
              "edge stream (rejected and boundary inputs; the arguments are compared whether the call returned or raised): "
              "coordinate styles {descending, ascending y, non-monotonic, duplicates, geographic, 0..360 longitudes, < -180, "
              "latitudes beyond 90, NaN, 1e12, 1e-9 steps, integer, crossing a number the source compares with}, structural "
              "{1-D, 3-D, transposed, empty, single cell/row/column, no coords, bare ndarray, mismatching shape / coordinates "
              "of the last raster}, edge values of every optional parameter (values the source compares it with or looks it up "
              "under, boundary values of the default's type), and source-derived string parameters x threshold-crossing "
              "coordinates.  targeted stream: when the checker rejects a program, the function is called with the values "
              "that drive the guards of the offending store.  non-trivial = distinct case; plus the primitive, wrapper and "
              "kind-table probes")
    r.trusted += ["harness/facts_bufprog.py primitive table (probed with np.shares_memory each run)",
                  "numpy / xarray / dask / numba run time (observed, not modelled)"]
    r.assumptions += ["the buffer program abstracts the Python source faithfully (translator trusted; prediction >= observation checked)",
                      "dask backend: the array backend of the result is proved on the kind programs of the Dask paths (translator "
                      "trusted, its tables probed); values / coords / attrs unchanged on dask: observation only"]
    for k, e in entries.items():
        if e["status"] != "ok" or e["unknowns"]:
            r.broken.append(f"translator: {k} not fully translated: {e['status']} {e['unknowns'][:2]}")
    used = set()
    for e in entries.values():
        used.update(e.get("used", []))
        for u in e.get("unclassified", []):
            r.tag("unclassified:" + u)
    run_primitive_probes(r, used)
    run_wrapper_probes(r)
    r.extra["phase_s"]["primitive_probes"] = round(time.time() - t_start, 1)
    preds, err = predictions(funcs)
    if err:
        r.notes.append("driver unavailable: " + err)
    bad = [f for f, p in preds.items() if p and not p["ok"]]
    badmeta = [f for f, p in preds.items() if p and not p["meta"]]
    r.extra["buffer_programs"] = {f: dict(size=p["size"], may_write=p["write"], may_return=p["ret"],
                                          may_return_coords=p["retc"], may_return_attrs=p["reta"], ok=p["ok"], meta=p["meta"])
                                  for f, p in preds.items() if p}
    r.extra["rejected_by_checker"] = bad
    r.extra["meta_not_conforming"] = badmeta
    if bad or badmeta:
        r.broken.append(f"checker rejects the generated program of {bad}; metadata contract broken for {badmeta}")
    # the backend clause on the proof side: the kind programs of the Dask paths
    kinds, kerr = dask_kind_verdicts()
    bad_backend = [f for f, v in kinds.items() if not v["ok"]]
    r.extra["dask_kind_programs"] = kinds
    krep = kind_report()
    for f, e in krep.get("entries", {}).items():
        if e.get("status") != "ok":
            r.broken.append(f"kind translator: {f}: {e.get('status')}")
    if bad_backend:
        r.broken.append("the Dask path of " + ", ".join(f"{f} (may return: {kinds[f]['kinds']})" for f in bad_backend)
                        + " may return something that is not a dask collection")
    run_kind_probes(r, krep)
    # corpus first
    corpus = [b["case"] for b in r.corpus() if "case" in b]
    cases = list(corpus)
    if bad and not full:
        # a rejected program names the function, the parameter and the branch conditions of the offending store: the
        # inputs that drive those conditions come first …
        cases += make_targeted_cases(r.rng, bad, entries)
    if bad_backend and not full:
        # … and a Dask path that may hand back an in-memory array gets every chunking class x kernel shape, twice
        cases += make_backend_cases(r.rng, funcs, r.tier, only=set(bad_backend), reps=2)
    cases += make_cases(r.rng, funcs, r.tier, full=full)
    cases += make_backend_cases(r.rng, funcs, r.tier)
    cases += make_edge_cases(r.rng, funcs, entries, r.tier)
    if bad and not full:
        # functions whose program is rejected get the whole matrix right away
        for f in bad:
            for _ in range(1 if f in SLOW else 3):
                cases += make_cases(r.rng, [f], r.tier, full=True, only_backend="numpy")
    avail = [f for f in SEQ_FUNCS if f in entries]
    for _ in range({"quick": 10, "thorough": 60}[r.tier] if avail else 0):
        backend = r.rng.choice(["numpy", "numpy", "dask"])
        pool = [f for f in avail if backend == "numpy" or f not in NUMPY_ONLY]
        cases.append(dict(kind="sequence", funcs=[r.rng.choice(pool) for _ in range(r.rng.randrange(3, 7))],
                          backend=backend, dtype=r.rng.choice(DTYPES), layout=r.rng.choice(LAYOUTS),
                          seed=r.rng.randrange(1 << 30), meta=draw_meta(r.rng)))
    t_obs = time.time()
    results = run_parallel(cases)
    for res in results:
        judge(r, res, entries, preds)
    costs = sorted((x["chunk_cost"] for x in results if x.get("chunk_cost")), key=lambda c: -c["cpu"])
    r.extra["observation_cost"] = dict(processes=len(costs), cpu_s=round(sum(c["cpu"] for c in costs), 1),
                                       longest=costs[:8])
    r.extra["phase_s"]["observation"] = round(time.time() - t_obs, 1)
    r.extra["observed_functions"] = len(funcs)
    r.extra["not_covered"] = ["cupy / dask-cupy paths", "gpu_rtx", "esri.py", "datashader helpers of utils.py (canvas_like, "
                              "bands_to_img, color_values)", "scalar distance functions of proximity.py"]


def search(r):
    """a proof obligation or the correspondence broke and no failing input is known yet: first the inputs the broken
    programs point at (every value the source knows for the parameters of the guards x threshold-crossing coordinates;
    every chunking class x kernel for a Dask path that may return an in-memory array), then the thorough edge stream
    and the full dtype x layout matrix, rejected functions first"""
    rep = gen_report()
    entries = rep.get("entries", {})
    funcs = sorted(entries)
    preds, _ = predictions(funcs)
    bad = [f for f, p in preds.items() if p and not p["ok"]]
    kinds, _ = dask_kind_verdicts()
    bad_backend = [f for f, v in kinds.items() if not v["ok"]]
    first = make_targeted_cases(r.rng, bad, entries, full=True)
    if bad_backend:
        first += make_backend_cases(r.rng, funcs, "thorough", only=set(bad_backend), reps=4)
    first += make_edge_cases(r.rng, bad + bad_backend, entries, "thorough")
    for res in run_parallel(first):
        judge(r, res, entries, preds)
    if r.failures:
        return
    order = bad + [f for f in funcs if f not in bad]
    cases = make_cases(r.rng, order, "thorough", full=True) + make_backend_cases(r.rng, funcs, "thorough")
    for res in run_parallel(cases):
        judge(r, res, entries, preds)


def replay(r, body):
    c = body["case"]
    res = observe_sequence(c) if c.get("kind") == "sequence" else observe(c)
    bad = res["modified"] + res["owner_modified"] + res["probe_modified"] + res["identity"] + \
        ([f"shares memory with {res['shares']}"] if res["shares"] and c.get("func") not in VIEWS else []) + \
        (["shares coordinate / attribute memory: " + "; ".join(res["shares_meta"])] if res.get("shares_meta") and
         c.get("func") not in VIEWS else [])
    if bad:
        print("still fails:", "; ".join(bad)[:600])
        return 1
    print("does not fail on the current tree (status %s)" % res["status"])
    return 0
