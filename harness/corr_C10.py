"""
C10 -- analysis functions never modify their inputs, their outputs share no writable memory with the
inputs, and keep the raster's shape / dims / coords / attrs / backend.

Tie:  G  Gen/BufProgs.lean is regenerated from /repo (harness/facts_bufprog.py): one buffer program per public
         function (NumPy path, helpers and numba kernels inlined) + where the returned DataArray takes its
         metadata from; Props/C10.lean proves the checker sound and evaluates it on those programs.
      probe  the primitive table the translator trusts (alloc / copy / view / maybe-view) is confirmed with
         np.shares_memory on several dtypes and layouts, every run.
      H  observation: every public function x {numpy, dask} x dtype x layout {C, F, strided view, read-only}:
         deep snapshot of all arguments before / after, np.shares_memory(out, in), write-to-output probe,
         shape / dims / coords (scalar coords included) / attrs / backend.  The prediction of the generated
         program (which inputs may be written, which inputs the result may alias) must cover the observation.
      wrapper level (round 2): every parameter is a raster object with three input buffers (cells, coordinates, attrs);
         the xarray constructor / copy primitives are rows of a table (Gen.primTable = facts_bufprog.WPRIMS) probed here
         on the real xarray (run_wrapper_probes); the fixture dimension `meta` of a case says which coordinates (scalar,
         2-D auxiliary, non-index 1-D, datetime / string scalars, coordinate attrs; every dtype and layout) and which attrs
         (plain, nested, array-valued, not deep-copyable) the rasters carry.
Oracle (written from the property statement, with its documented exceptions only): the same observation.  Inputs are
compared with a recursive snapshot whether the call returned or raised; the output's cells, coordinates and attrs arrays
are checked with np.shares_memory against every buffer of every argument (index coordinates: only if writeable) and
written into (cells, coordinate values, coordinate attrs, attrs dict) before the inputs are compared once more.  Values
nested inside attrs that input and output share through xarray's shallow attrs copy are recorded, not judged.
"""
import copy
import json
import os
import random
import traceback

import numpy as np

from common import LEAN, Driver

PROP = "C10"
DTYPES = ["int8", "int16", "int32", "int64", "uint8", "uint16", "uint32", "uint64", "float32", "float64"]
LAYOUTS = ["C", "F", "strided", "readonly"]
H, W = 6, 7
# what a raster carries besides its cells (the fixture dimension `meta` of a case)
COORD_FEATURES = ["scalar", "aux2d", "nonindex1d", "time", "cattrs"]
ATTR_STYLES = ["plain", "nested", "arrays", "lock", "generator", "module", "handle"]
UNCOPYABLE = ("lock", "generator", "module", "handle")      # copy.deepcopy raises TypeError on these values

# ------------------------------------------------------------------------------------------------ contracts
# (from the property statement) primary input of the raster -> raster functions under the identity clause
IDENTITY = {
    "slope.slope": "agg", "aspect.aspect": "agg", "curvature.curvature": "agg", "hillshade.hillshade": "agg",
    "classify.binary": "agg", "classify.reclassify": "agg", "classify.quantile": "agg",
    "classify.natural_breaks": "agg", "classify.equal_interval": "agg",
    "convolution.convolution_2d": "agg", "focal.mean": "agg", "focal.apply": "raster", "focal.hotspots": "raster",
    "multispectral.arvi": "nir_agg", "multispectral.evi": "nir_agg", "multispectral.gci": "nir_agg",
    "multispectral.nbr": "nir_agg", "multispectral.nbr2": "swir1_agg", "multispectral.ndvi": "nir_agg",
    "multispectral.ndmi": "nir_agg", "multispectral.savi": "nir_agg", "multispectral.sipi": "nir_agg",
    "multispectral.ebbi": "red_agg", "pathfinding.a_star_search": "surface",
    "proximity.proximity": "raster", "proximity.allocation": "raster", "proximity.direction": "raster",
    "viewshed.viewshed": "raster", "zonal.regions": "raster",
}
EXTRA_ATTRS = {"focal.hotspots": {"unit"}}
VIEWS = {"zonal.trim", "zonal.crop", "convolution.custom_kernel", "utils.get_dataarray_resolution"}
INPLACE = {"zonal.apply": "values"}          # updates `values` in place by contract
WIDENS = {"viewshed.viewshed": "raster"}     # may widen the input's dtype without changing a value
SAME_SHAPE = {"local." + f: None for f in ("cell_stats", "combine", "lesser_frequency", "equal_frequency",
                                           "greater_frequency", "lowest_position", "highest_position",
                                           "popularity", "rank")}
NUMPY_ONLY = {"classify.natural_breaks", "pathfinding.a_star_search", "viewshed.viewshed", "zonal.regions",
              "zonal.trim", "zonal.crop", "zonal.apply", "bump.bump", "convolution.custom_kernel",
              "convolution.calc_cellsize", "utils.get_xy_range", "utils.calc_res",
              "utils.get_dataarray_resolution", "analytics.summarize_terrain", "polygonize.polygonize"} | set(SAME_SHAPE)
SLOW = {"proximity.proximity", "proximity.allocation", "proximity.direction", "viewshed.viewshed",
        "pathfinding.a_star_search", "zonal.regions"}


# ------------------------------------------------------------------------------------------------ inputs
def base_values(rng, kind):
    if kind == "zones":
        v = [[(i // 3) * 2 + (j // 4) for j in range(W)] for i in range(H)]
        return np.array(v, dtype=np.float64)
    if kind == "targets":
        a = np.zeros((H, W))
        for _ in range(3):
            a[rng.randrange(H), rng.randrange(W)] = rng.randrange(1, 4)
        return a
    if kind == "layer":
        return np.array([[rng.randrange(1, 5) for _ in range(W)] for _ in range(H)], dtype=np.float64)
    return np.array([[rng.randrange(0, 60) for _ in range(W)] for _ in range(H)], dtype=np.float64)


def lay_out(a, layout):
    """returns (array with the requested memory layout, owner of the memory)"""
    if a.ndim == 0 and layout != "strided":
        a = np.array(a)
        if layout == "readonly":
            a.flags.writeable = False
        return a, a
    if layout == "F":
        a = np.asfortranarray(a)
        return a, a
    if layout == "strided" and a.ndim == 1:
        big = np.zeros((a.shape[0] * 2 + 1,), dtype=a.dtype)
        big[...] = 111 if a.dtype.kind != "b" else 0
        v = big[1::2][:a.shape[0]]
        v[...] = a
        return v, big
    if layout == "strided" and a.ndim == 0:
        big = np.zeros((3,), dtype=a.dtype)
        v = big[1:2].reshape(())
        v[...] = a
        return v, big
    if layout == "strided":
        big = np.zeros((a.shape[0] * 2 + 1, a.shape[1] * 3 + 2), dtype=a.dtype)
        big[...] = 111 if a.dtype.kind != "b" else 0
        v = big[1::2, 2::3][:a.shape[0], :a.shape[1]]
        v[...] = a
        return v, big
    a = np.ascontiguousarray(a)
    if layout == "readonly":
        a.flags.writeable = False
    return a, a


def draw_meta(rng, attrs=None, coords=None):
    """one point of the fixture dimension: which coordinates / attribute values the raster carries"""
    feats = [f for f, p in zip(COORD_FEATURES, (0.7, 0.5, 0.4, 0.25, 0.4)) if rng.random() < p]
    if coords is not None:
        feats = sorted(set(feats) | set(coords), key=COORD_FEATURES.index)
    return dict(coords=feats, cdtype=rng.choice(DTYPES), clayout=rng.choice(LAYOUTS),
                attrs=attrs or rng.choice(ATTR_STYLES))


def mk_coords(meta, tag):
    """-> (coords mapping for the DataArray constructor, {coordinate name: owner of its memory})"""
    import xarray as xr
    ys, xs = np.linspace(5.0, 0.0, H), np.linspace(0.0, 6.0, W)
    if meta is None:            # the fixture of the first round: two index and two scalar coordinates
        return {"y": ys, "x": xs, "band": sum(map(ord, tag)) % 97, "spatial_ref": 0}, {}
    feats, cd, cl = meta["coords"], meta["cdtype"], meta["clayout"]
    cattrs = "cattrs" in feats
    owners = {}

    def var(name, dims, values, attrs):
        values = np.asarray(values)
        if np.dtype(cd).kind == "f":
            values = values + 0.123456789        # not exactly representable: rounding / re-casting shows
        arr, owner = lay_out(values.astype(cd), cl)
        owners[name] = owner
        return xr.Variable(dims, arr, attrs=attrs if cattrs else None)

    coords = {"y": xr.Variable(("y",), ys, attrs={"units": "m", "axis": "Y"} if cattrs else None),
              "x": xr.Variable(("x",), xs, attrs={"units": "m", "axis": "X"} if cattrs else None)}
    if "scalar" in feats:
        coords["band"] = var("band", (), sum(map(ord, tag)) % 97, {"long_name": "band"})
        coords["spatial_ref"] = xr.Variable((), np.array(0, dtype="int64"), attrs={
            "crs_wkt": "GEOGCS[\"WGS 84\"]", "GeoTransform": "0 1 0 5 0 -1", "towgs84": [0, 0, 0]} if cattrs else None)
    if "aux2d" in feats:
        ii, jj = np.meshgrid(np.arange(H), np.arange(W), indexing="ij")
        coords["lon"] = var("lon", ("y", "x"), jj + 10 * ii, {"standard_name": "longitude", "valid_range": [0, 60]})
        coords["lat"] = var("lat", ("y", "x"), 100 - 3 * ii - jj, {"standard_name": "latitude"})
    if "nonindex1d" in feats:
        coords["row_id"] = var("row_id", ("y",), (np.arange(H) * 3) % 7 + 1, {"comment": "not an index"})
        coords["col_weight"] = var("col_weight", ("x",), np.arange(W) + 2, None)
    if "time" in feats:
        coords["time"] = xr.Variable((), np.array("2020-01-02T03:04:05", dtype="datetime64[s]"))
        coords["tile"] = xr.Variable((), np.array("h12v04"))
    return coords, owners


def mk_attrs(meta, tag):
    base = {"res": (1.0, 1.0), "crs": "EPSG:4326", "nodata": -9999, "history": ["made", "up"], "layer": tag}
    style = None if meta is None else meta["attrs"]
    if style in (None, "plain"):
        return base
    if style == "nested":
        base.update(unit="km", provenance={"steps": ["read", {"clip": [0, 1, 2]}], "bbox": [0.0, 0.0, 6.0, 5.0]},
                    tags={"dem", "demo"}, scale_factor=0.5)
    elif style == "arrays":
        cd = meta["cdtype"]
        base.update(transform=np.array([1.0, 0.0, 0.0, 0.0, -1.0, 5.0]),
                    palette=lay_out((np.arange(6).reshape(2, 3) + 1).astype(cd), meta["clayout"])[0],
                    stats={"hist": np.arange(4), "edges": [0.0, 1.0]})
    elif style == "lock":
        import threading
        base.update(unit="km", source_lock=threading.Lock())
    elif style == "generator":
        base.update(block_iter=(i for i in range(3)))
    elif style == "module":
        import math
        base.update(unit="m", backend_module=math)
    elif style == "handle":
        base.update(handle=open(os.devnull))
    return base


def mk_raster(rng, dtype, layout, backend, kind="elev", nan=True, rname=None, inf=False, tag="r", chunks=None, meta=None):
    """-> (raster, owner of the cells' memory, {coordinate name: owner of its memory})"""
    import xarray as xr
    vals = base_values(rng, kind).astype(dtype)
    if np.dtype(dtype).kind == "f" and nan and kind == "elev" and rng.random() < 0.5:
        vals[rng.randrange(H), rng.randrange(W)] = np.nan
        if inf and rng.random() < 0.5:
            vals[rng.randrange(H), rng.randrange(W)] = rng.choice([np.inf, -np.inf])
    elif np.dtype(dtype).kind == "f" and inf and kind == "elev" and rng.random() < 0.6:
        vals[rng.randrange(H), rng.randrange(W)] = rng.choice([np.inf, -np.inf])      # +-inf without a NaN cell
    arr, owner = lay_out(vals, layout)
    data = arr
    if backend == "dask":
        import dask.array as da
        ch = rng.choice([(3, 4), (2, 3), (6, 7), (4, 2)])
        data = da.from_array(arr, chunks=chunks or ch)
    coords, cowners = mk_coords(meta, tag)
    r = xr.DataArray(data, dims=["y", "x"], name=rname, coords=coords, attrs=mk_attrs(meta, tag))
    return r, owner, cowners


class Inputs:
    """the arguments of one call, with the owners of the underlying memory"""

    def __init__(self):
        self.args = {}
        self.owners = {}

    def raster(self, name, rng, case, **kw):
        r, o, co = mk_raster(rng, case["dtype"], case["layout"], case["backend"], tag=name, meta=case.get("meta"), **kw)
        self.args[name] = r
        self.owners[name] = o
        for c, oc in co.items():
            self.owners[f"{name}.coord:{c}"] = oc
        return r

    def array(self, name, a):
        self.args[name] = a
        self.owners[name] = a
        return a

    def plain(self, name, v):
        self.args[name] = v
        return v


def build(case):
    """-> (callable, Inputs, keyword arguments that are not inputs)"""
    import importlib
    import xarray as xr
    rng = random.Random(case["seed"])
    mod, fn = case["func"].split(".")
    m = importlib.import_module("xrspatial." + {"polygonize": "experimental.polygonize"}.get(mod, mod))
    f = getattr(m, fn)
    I = Inputs()
    kw = {}
    key = case["func"]
    if key in ("slope.slope", "aspect.aspect", "curvature.curvature", "hillshade.hillshade", "perlin.perlin",
               "classify.quantile", "classify.natural_breaks", "classify.equal_interval", "focal.mean"):
        I.raster("agg", rng, case, inf=key.startswith("classify."))
        if key == "focal.mean":
            I.plain("excludes", [np.nan, 3.0])
            kw["passes"] = rng.choice([0, 1, 2])
        if key in ("classify.quantile", "classify.equal_interval", "classify.natural_breaks"):
            kw["k"] = 3
        if key == "classify.natural_breaks":
            kw["num_sample"] = rng.choice([None, 20, 20000])
    elif key == "terrain.generate_terrain":
        I.raster("agg", rng, case)
        I.plain("full_extent", None)
    elif key == "classify.binary":
        I.raster("agg", rng, case)
        I.array("values", np.array([1, 2, 3, 10]))
    elif key == "classify.reclassify":
        I.raster("agg", rng, case)
        I.array("bins", np.array([10.0, 20.0, 40.0, 100.0]))
        I.plain("new_values", [1, 2, 3, 4])
    elif key in ("convolution.convolution_2d", "focal.apply", "focal.hotspots", "focal.focal_stats"):
        I.raster("agg" if key in ("convolution.convolution_2d", "focal.focal_stats") else "raster", rng, case)
        I.array("kernel", np.array([[0., 1, 0], [1, 1, 1], [0, 1, 0]]))
        if key == "focal.focal_stats":
            I.plain("stats_funcs", ["mean", "max", "sum"])
    elif key == "convolution.convolve_2d":
        r, o, _ = mk_raster(rng, case["dtype"], case["layout"], case["backend"])
        I.args["data"], I.owners["data"] = r.data, o
        I.array("kernel", np.ones((3, 3)))
    elif key == "convolution.custom_kernel":
        I.array("kernel", lay_out(np.ones((3, 3)).astype(case["dtype"]), case["layout"])[0])
    elif key in ("convolution.calc_cellsize", "utils.get_xy_range", "utils.calc_res", "analytics.summarize_terrain"):
        I.raster("raster" if key != "analytics.summarize_terrain" else "terrain", rng, case, rname="elev")
        if key.startswith("utils."):
            I.plain("xdim", None)
            I.plain("ydim", None)
    elif key == "utils.get_dataarray_resolution":
        r = I.raster("agg", rng, case)
        if rng.random() < 0.5:
            del r.attrs["res"]
    elif key.startswith("multispectral."):
        import inspect
        for p in inspect.signature(f).parameters.values():
            if p.name.endswith("_agg") or p.name in ("r", "g", "b"):
                I.raster(p.name, rng, case, nan=False)
    elif key == "pathfinding.a_star_search":
        I.raster("surface", rng, case, nan=False)
        I.array("start", np.array([5.0, 0.0]))
        I.plain("goal", [0.0, 6.0])
        I.array("barriers", np.array([0]))
        kw.update(snap_start=True, snap_goal=True, connectivity=rng.choice([4, 8]))
    elif key.startswith("proximity."):
        I.raster("raster", rng, case, kind="targets")
        I.plain("target_values", rng.choice([[], [1, 2]]))
        kw["max_distance"] = rng.choice([np.inf, 2.5])
    elif key == "viewshed.viewshed":
        I.raster("raster", rng, case, nan=False)
        kw.update(x=3.0, y=2.0, observer_elev=5)
    elif key == "zonal.regions":
        I.raster("raster", rng, case, kind="zones")
        kw["neighborhood"] = rng.choice([4, 8])
    elif key == "zonal.trim":
        r = I.raster("raster", rng, case, kind="targets")
        I.plain("values", (0,))
    elif key == "zonal.crop":
        zc = dict(case, dtype="int32")
        I.raster("zones", rng, zc, kind="zones")
        I.raster("values", rng, case)
        I.plain("zones_ids", (1, 2))
    elif key in ("zonal.stats", "zonal.crosstab", "zonal.apply"):
        zc = dict(case, dtype="int32" if np.dtype(case["dtype"]).kind == "f" else case["dtype"])
        same = dict(chunks=(3, 4)) if key == "zonal.crosstab" else {}    # crosstab requires aligned chunks
        I.raster("zones", rng, zc, kind="zones", **same)
        I.raster("values", rng, case, kind="layer" if key == "zonal.crosstab" else "elev", **same)
        if key == "zonal.stats":
            I.plain("zone_ids", [0, 1, 2])
            I.plain("stats_funcs", ["mean", "max", "count"])
            kw["return_type"] = rng.choice(["pandas.DataFrame", "xarray.DataArray"]) if case["backend"] == "numpy" \
                else "pandas.DataFrame"
        elif key == "zonal.crosstab":
            I.plain("zone_ids", [0, 1])
            if case["backend"] == "numpy" and rng.random() < 0.5:
                # 3-D values: one layer per category
                import xarray as xr
                v2 = I.args["values"]
                stack, owner = lay_out(np.stack([np.asarray(v2.data) + i for i in range(3)]), case["layout"]
                                       if case["layout"] != "strided" else "C")
                I.args["values"] = xr.DataArray(stack, dims=["cat", "y", "x"],
                                                coords={"cat": [1, 2, 3], "y": v2.y.values, "x": v2.x.values},
                                                attrs=dict(v2.attrs))
                I.owners["values"] = owner
                I.plain("cat_ids", [1, 3])
                kw.update(layer=0, agg=rng.choice(["mean", "count", "max"]))
            else:
                I.plain("cat_ids", [1, 2, 3])
        else:
            I.plain("func", lambda v: v * 2)
    elif key.startswith("local."):
        layers = {}
        for nm in ("a", "b", "c"):
            r, o, co = mk_raster(rng, case["dtype"], case["layout"], "numpy", kind="layer", meta=case.get("meta"))
            layers[nm] = r
            I.owners["raster." + nm] = o
            for c, oc in co.items():
                I.owners[f"raster.{nm}.coord:{c}"] = oc
        I.args["raster"] = xr.Dataset(layers, attrs={"title": "layers"})
        if "ref_var" in f.__code__.co_varnames[:f.__code__.co_argcount]:
            I.plain("ref_var", "a")
            I.plain("data_vars", ["b", "c"])
        else:
            I.plain("data_vars", rng.choice([None, ["a", "b"]]))
    elif key == "polygonize.polygonize":
        I.raster("raster", rng, case, kind="zones")
        mc = dict(case, dtype=rng.choice(["bool", "uint8", case["dtype"]]))
        if rng.random() < 0.5:
            I.raster("mask", rng, mc, kind="targets")
        else:
            I.plain("mask", None)
        I.array("transform", np.array([2.0, 0.0, 10.0, 0.0, -2.0, 50.0])) if rng.random() < 0.5 else I.plain("transform", None)
        kw["connectivity"] = rng.choice([4, 8])
    elif key == "bump.bump":
        kw.update(width=8, height=6, count=5, spread=2)
        I.plain("height_func", lambda locs: np.ones(len(locs)) * 3)
    else:
        # a public function this harness has no recipe for: call it on one raster (strict default)
        import inspect
        ps = list(inspect.signature(f).parameters.values())
        I.raster(ps[0].name, rng, case)
    return f, I, kw


# ------------------------------------------------------------------------------------------------ snapshots
def np_of(x):
    """the numpy values of an array-like (computes dask)"""
    if hasattr(x, "compute"):
        x = x.compute()
    return np.asarray(x)


class Opaque:
    """a value that cannot be copied (lock, open handle, generator, module): compared by identity"""

    def __init__(self, ref):
        self.ref = ref

    def __repr__(self):
        return f"<{type(self.ref).__name__} object>"


def snap_value(v, depth=0):
    """deep snapshot of an attribute value: containers recursively, arrays by copy, everything that refuses to be
    deep-copied by identity (the snapshot keeps the object alive, so the identity cannot be re-used)"""
    if isinstance(v, np.ndarray):
        return ("array", np.array(v, copy=True), str(v.dtype))
    if isinstance(v, dict) and depth < 8:
        return ("dict", [(snap_value(k, depth + 1), snap_value(x, depth + 1)) for k, x in v.items()])
    if isinstance(v, (list, tuple)) and depth < 8:
        return (type(v).__name__, [snap_value(x, depth + 1) for x in v])
    if isinstance(v, (set, frozenset)) and depth < 8:
        return ("set", sorted((snap_value(x, depth + 1) for x in v), key=repr))
    if v is None or isinstance(v, (bool, int, float, complex, str, bytes, np.generic)):
        return ("value", v)
    try:
        return ("value", copy.deepcopy(v))
    except Exception:
        return ("opaque", Opaque(v))


def snap_equal(a, b):
    if a[0] != b[0]:
        return False
    if a[0] == "array":
        return a[2] == b[2] and same_values(a[1], b[1])
    if a[0] == "dict":
        return len(a[1]) == len(b[1]) and all(snap_equal(k1, k2) and snap_equal(v1, v2)
                                              for (k1, v1), (k2, v2) in zip(a[1], b[1]))
    if a[0] in ("list", "tuple", "set"):
        return len(a[1]) == len(b[1]) and all(snap_equal(x, y) for x, y in zip(a[1], b[1]))
    if a[0] == "opaque":
        return a[1].ref is b[1].ref
    x, y = a[1], b[1]
    try:
        if type(x) is not type(y) and not (isinstance(x, (int, float, np.generic)) and isinstance(y, (int, float, np.generic))):
            return False
        return bool(x == y) or bool(x != x and y != y)
    except Exception:
        return repr(x) == repr(y)


def show_snap(a):
    if a[0] == "array":
        return f"array({a[1].tolist()}, {a[2]})"
    if a[0] == "dict":
        return "{" + ", ".join(f"{show_snap(k)}: {show_snap(v)}" for k, v in a[1]) + "}"
    if a[0] in ("list", "tuple", "set"):
        return a[0][0] + "[" + ", ".join(show_snap(x) for x in a[1]) + "]"
    return repr(a[1])


def snap_attrs(attrs):
    """{key: snapshot} of an attrs mapping (keys in order)"""
    return {k: snap_value(v) for k, v in dict(attrs).items()}


def attrs_equal(a, b):
    """two attrs snapshots: same keys, same values (opaque values: the same objects)"""
    return set(a) == set(b) and all(snap_equal(a[k], b[k]) for k in a)


def attrs_diff(a, b):
    out = []
    for k in a:
        if k not in b:
            out.append(f"{k!r} removed")
        elif not snap_equal(a[k], b[k]):
            out.append(f"{k!r}: {show_snap(a[k])[:60]} -> {show_snap(b[k])[:60]}")
    out.extend(f"{k!r} added (= {show_snap(b[k])[:40]})" for k in b if k not in a)
    return "; ".join(out)[:300]


def snap_coord(v):
    return dict(dims=tuple(v.dims), values=np.array(np_of(v.data), copy=True), dtype=str(v.dtype), attrs=snap_attrs(v.attrs))


def snap_da(d):
    return dict(kind="DataArray", values=np.array(np_of(d.data), copy=True), dtype=str(d.dtype), dims=tuple(d.dims),
                name=d.name, attrs=snap_attrs(d.attrs), shape=tuple(d.shape),
                coords={str(k): snap_coord(v) for k, v in d.coords.items()},
                chunks=getattr(d.data, "chunks", None), backend=type(d.data).__name__)


def snapshot(obj):
    import xarray as xr
    if isinstance(obj, xr.DataArray):
        return snap_da(obj)
    if isinstance(obj, xr.Dataset):
        return dict(kind="Dataset", vars={str(k): snap_da(obj[k]) for k in obj.data_vars},
                    attrs=snap_attrs(obj.attrs))
    if isinstance(obj, np.ndarray) or hasattr(obj, "compute"):
        return dict(kind="ndarray", values=np.array(np_of(obj), copy=True), dtype=str(obj.dtype))
    if callable(obj):
        return dict(kind="callable")
    return dict(kind="plain", value=snap_value(obj))


def same_values(a, b):
    a, b = np.asarray(a), np.asarray(b)
    if a.shape != b.shape:
        return False
    if a.dtype.kind in "fc" or b.dtype.kind in "fc":
        return bool(np.array_equal(a, b, equal_nan=True))
    return bool(np.array_equal(a, b))


def diff_da(name, before, after, allow_dtype=False):
    out = []
    if not same_values(before["values"], after["values"]):
        out.append(f"{name}: values changed")
    if before["dtype"] != after["dtype"] and not allow_dtype:
        out.append(f"{name}: dtype {before['dtype']} -> {after['dtype']}")
    if before["dims"] != after["dims"]:
        out.append(f"{name}: dims {before['dims']} -> {after['dims']}")
    if before["name"] != after["name"]:
        out.append(f"{name}: name {before['name']!r} -> {after['name']!r}")
    if not attrs_equal(before["attrs"], after["attrs"]):
        out.append(f"{name}: attrs changed: {attrs_diff(before['attrs'], after['attrs'])}")
    if set(before["coords"]) != set(after["coords"]):
        out.append(f"{name}: coords {sorted(before['coords'])} -> {sorted(after['coords'])}")
    else:
        for k, cb in before["coords"].items():
            ca = after["coords"][k]
            if cb["dims"] != ca["dims"] or cb["dtype"] != ca["dtype"] or not same_values(cb["values"], ca["values"]):
                out.append(f"{name}: coordinate {k} changed")
            elif not attrs_equal(cb["attrs"], ca["attrs"]):
                out.append(f"{name}: attrs of coordinate {k} changed: {attrs_diff(cb['attrs'], ca['attrs'])}")
    return out


def diff(name, before, after, allow_dtype=False):
    if before["kind"] != after["kind"]:
        return [f"{name}: became a {after['kind']}"]
    if before["kind"] == "DataArray":
        return diff_da(name, before, after, allow_dtype)
    if before["kind"] == "Dataset":
        out = []
        if set(before["vars"]) != set(after["vars"]):
            out.append(f"{name}: variables changed")
        else:
            for k in before["vars"]:
                out.extend(diff_da(f"{name}[{k}]", before["vars"][k], after["vars"][k]))
        if not attrs_equal(before["attrs"], after["attrs"]):
            out.append(f"{name}: attrs changed")
        return out
    if before["kind"] == "ndarray":
        return ([] if same_values(before["values"], after["values"]) else [f"{name}: values changed"]) + \
               ([] if before["dtype"] == after["dtype"] else [f"{name}: dtype changed"])
    if before["kind"] == "plain":
        return [] if snap_equal(before["value"], after["value"]) else \
            [f"{name}: {show_snap(before['value'])[:80]} -> {show_snap(after['value'])[:80]}"]
    return []


# ---- the buffers of an argument / of a result: cells, every coordinate, array-valued attributes
def arrays_in(v, label, depth=0):
    """(label, ndarray) for every numpy array reachable from an attribute value"""
    if isinstance(v, np.ndarray):
        yield label, v
    elif isinstance(v, dict) and depth < 8:
        for k, x in v.items():
            yield from arrays_in(x, f"{label}[{k!r}]", depth + 1)
    elif isinstance(v, (list, tuple)) and depth < 8:
        for i, x in enumerate(v):
            yield from arrays_in(x, f"{label}[{i}]", depth + 1)


def da_buffers(d, name):
    """(kind, label, ndarray, is_index) -- kind in data | coord | attr.  Dask-backed parts hold no memory of
    their own until they are computed and are left out."""
    if isinstance(d.data, np.ndarray):
        yield "data", name, d.data, False
    for c, v in d.coords.items():
        arr = v.variable._data if isinstance(v.variable._data, np.ndarray) else v.data
        if isinstance(arr, np.ndarray):
            yield "coord", f"{name}.coords[{c!r}]", arr, c in d.indexes
        for lab, a in arrays_in(dict(v.attrs), f"{name}.coords[{c!r}].attrs"):
            yield "attr", lab, a, False
    for lab, a in arrays_in(dict(d.attrs), f"{name}.attrs"):
        yield "attr", lab, a, False


def obj_buffers(obj, name):
    import xarray as xr
    if isinstance(obj, xr.DataArray):
        yield from da_buffers(obj, name)
    elif isinstance(obj, xr.Dataset):
        for k in obj.data_vars:
            yield from da_buffers(obj[k], f"{name}[{k!r}]")
        for lab, a in arrays_in(dict(obj.attrs), f"{name}.attrs"):
            yield "attr", lab, a, False
    elif isinstance(obj, np.ndarray):
        yield "data", name, obj, False
    elif isinstance(obj, (tuple, list)):
        for i, o in enumerate(obj):
            yield from obj_buffers(o, f"{name}[{i}]")


def buffers_of(obj):
    """numpy buffers holding the cells of an argument"""
    return [a for kind, _, a, _ in obj_buffers(obj, "") if kind == "data"]


def out_arrays(out):
    return [a for kind, _, a, _ in obj_buffers(out, "") if kind == "data"]


def shares_writable(o_arr, o_index, i_arr):
    """does a buffer of the output share *writable* memory with a buffer of an input.  The values of an index
    coordinate are handed out by xarray as a read-only view of an immutable pandas index: such an array cannot be
    written through, so sharing it is not sharing writable memory."""
    if o_arr.size == 0 or i_arr.size == 0 or not np.shares_memory(o_arr, i_arr):
        return False
    return bool(o_arr.flags.writeable) or not o_index


def scribble(a):
    """overwrite a writable array with values that differ from what it holds"""
    if not (isinstance(a, np.ndarray) and a.flags.writeable and a.size):
        return False
    k = a.dtype.kind
    if k == "b":
        a[...] = ~a
    elif k in "iuf":
        a[...] = np.where(a == np.array(7).astype(a.dtype), 8, 7).astype(a.dtype)
    elif k == "M":
        a[...] = a + np.timedelta64(1, "D").astype(a.dtype.str.replace("M", "m"))
    elif k in "US":
        a[...] = "~"
    else:
        return False
    return True


def probe_output(out):
    """write into everything writable the result exposes: cells, coordinates (values and attrs), attrs dict"""
    import xarray as xr
    done = []
    objs = []

    def collect(o):
        if isinstance(o, xr.DataArray):
            objs.append(o)
        elif isinstance(o, xr.Dataset):
            objs.extend(o[k] for k in o.data_vars)
            objs.append(o)
        elif isinstance(o, (tuple, list)):
            for x in o:
                collect(x)
    collect(out)
    for kind, lab, a, _ in obj_buffers(out, "out"):
        if kind in ("data", "coord"):
            try:
                if scribble(a):
                    done.append(kind)
            except Exception as ex:
                done.append(f"{lab}: {ex!r}"[:60])
    for o in objs:
        try:
            for c in o.coords:
                o.coords[c].variable.attrs["__c10_probe__"] = 1
            keys = list(o.attrs)
            o.attrs["__c10_probe__"] = 1
            if keys:
                o.attrs[keys[0]] = "__c10_overwritten__"
                if len(keys) > 1:
                    del o.attrs[keys[-1]]
            done.append("attrs")
        except Exception as ex:
            done.append(f"attrs: {ex!r}"[:60])
    return done


# ------------------------------------------------------------------------------------------------ one case
def observe(case):
    """run one call and return everything the oracle and the correspondence need (JSON-able)"""
    import warnings
    import xarray as xr
    warnings.filterwarnings("ignore")
    res = dict(case=case, status="ok", modified=[], owner_modified=[], shares=[], shares_meta=[], shares_comp=[],
               probe_modified=[], identity=[], notes=[])
    try:
        f, I, kw = build(case)
    except Exception as ex:
        res["status"] = "build-failed:" + repr(ex)[:200]
        return res
    key = case["func"]
    before = {n: snapshot(v) for n, v in I.args.items()}
    owners_before = {n: np.array(o, copy=True) for n, o in I.owners.items()}
    try:
        with warnings.catch_warnings():
            warnings.simplefilter("ignore")
            out = f(**I.args, **kw)
    except Exception as ex:
        out = None
        res["status"] = "raised:" + type(ex).__name__
        res["notes"].append(str(ex)[:160])
    # (1) inputs unchanged -- values, coords (values, dtype, attrs), attrs (recursively), dims, name; also when the
    #     call raised
    for n, v in I.args.items():
        d = diff(n, before[n], snapshot(v), allow_dtype=(WIDENS.get(key) == n))
        if INPLACE.get(key) == n:
            if d:
                res["notes"].append("in place by contract: " + "; ".join(d)[:120])
            continue
        res["modified"].extend(d)
        if before[n].get("chunks") is not None and getattr(getattr(v, "data", None), "chunks", None) != before[n]["chunks"]:
            res["notes"].append(f"{n}: rechunked in place")
    for n, o in I.owners.items():
        if not same_values(owners_before[n], o):
            res["owner_modified"].append(n)
    if out is None:
        return res
    res["out_type"] = type(out).__name__
    # (2) no shared writable memory: every buffer of the result (cells, coordinates, array-valued attrs) against
    #     every buffer of every argument
    obufs = list(obj_buffers(out, "out"))
    for n, v in I.args.items():
        ibufs = list(obj_buffers(v, n))
        ibufs += [("data" if "coord:" not in on else "coord", on, o, False) for on, o in I.owners.items()
                  if on.split(".")[0] == n and isinstance(o, np.ndarray)]
        for okind, olab, o, oindex in obufs:
            for ikind, ilab, b, _ in ibufs:
                if not shares_writable(o, oindex, b):
                    continue
                if okind == "data" and ikind == "data":
                    if n not in res["shares"]:
                        res["shares"].append(n)
                elif okind == "attr" and ikind == "attr":
                    # xarray's attrs copy is shallow by convention (DataArray(attrs=…), every arithmetic operation):
                    # the dict is the output's own, a value nested in it is the same object.  Recorded, not judged.
                    if "attribute values shared by reference (shallow attrs copy)" not in res["notes"]:
                        res["notes"].append("attribute values shared by reference (shallow attrs copy)")
                else:
                    msg = f"{olab} ~ {ilab}"
                    if msg not in res["shares_meta"] and len(res["shares_meta"]) < 12:
                        res["shares_meta"].append(msg)
                    if [okind, n, ikind] not in res["shares_comp"]:
                        res["shares_comp"].append([okind, n, ikind])
    # (3) identity
    if isinstance(out, xr.DataArray):
        res["out_backend"] = type(out.data).__name__
        prim = IDENTITY.get(key)
        if prim is not None:
            b = before[prim]
            if tuple(out.shape) != b["shape"]:
                res["identity"].append(f"shape {tuple(out.shape)} != {b['shape']}")
            if tuple(out.dims) != b["dims"]:
                res["identity"].append(f"dims {tuple(out.dims)} != {b['dims']}")
            oc = {str(k): (tuple(v.dims), np_of(v.data)) for k, v in out.coords.items()}
            if set(oc) != set(b["coords"]):
                res["identity"].append(f"coords {sorted(oc)} != {sorted(b['coords'])}")
            else:
                for k, cb in b["coords"].items():
                    if cb["dims"] != oc[k][0] or not same_values(cb["values"], oc[k][1]):
                        res["identity"].append(f"coordinate {k} differs")
            oattrs = snap_attrs(out.attrs)
            extra = EXTRA_ATTRS.get(key, set())
            if not attrs_equal({k: v for k, v in oattrs.items() if k not in extra},
                               {k: v for k, v in b["attrs"].items() if k not in extra}):
                res["identity"].append("attrs differ from the input's: " + attrs_diff(
                    {k: v for k, v in b["attrs"].items() if k not in extra},
                    {k: v for k, v in oattrs.items() if k not in extra}))
            if type(out.data).__name__ != b["backend"]:
                res["identity"].append(f"backend {type(out.data).__name__} != {b['backend']}")
        elif key in SAME_SHAPE:
            shp = before["raster"]["vars"]["a"]["shape"]
            if tuple(out.shape) != shp:
                res["identity"].append(f"shape {tuple(out.shape)} != {shp}")
    elif key in IDENTITY:
        res["identity"].append(f"result is a {type(out).__name__}, not a DataArray")
    # (4) writing to the output never changes the input
    if key not in VIEWS:
        res["probed"] = probe_output(out)
        for n, v in I.args.items():
            if INPLACE.get(key) == n:
                continue
            d = diff(n, before[n], snapshot(v), allow_dtype=(WIDENS.get(key) == n))
            res["probe_modified"].extend(x for x in d if x not in res["modified"])
        for n, o in I.owners.items():
            if not same_values(owners_before[n], o) and n not in res["owner_modified"]:
                res["probe_modified"].append(f"{n}: memory changed by writing to the output")
    else:
        res["shares_meta"] = []         # documented windows / views of the input
    return res


SEQ_FUNCS = ["slope.slope", "aspect.aspect", "curvature.curvature", "hillshade.hillshade", "classify.binary",
             "classify.quantile", "classify.equal_interval", "classify.natural_breaks", "classify.reclassify",
             "convolution.convolution_2d", "focal.mean", "focal.apply", "focal.hotspots", "focal.focal_stats",
             "perlin.perlin", "terrain.generate_terrain", "zonal.regions", "zonal.trim", "proximity.proximity",
             "pathfinding.a_star_search", "viewshed.viewshed", "analytics.summarize_terrain"]


def observe_sequence(case):
    """one raster handed to several functions in a row: it must be the same raster after every call
    (call histories of the property's quantifier)"""
    import warnings
    warnings.filterwarnings("ignore")
    rng = random.Random(case["seed"])
    res = dict(case=case, status="ok", modified=[], owner_modified=[], shares=[], probe_modified=[], identity=[],
               notes=[], steps=[])
    shared, owner, cowners = mk_raster(rng, case["dtype"], case["layout"], case["backend"], nan=False, rname="elev",
                                       tag="shared", meta=case.get("meta"))
    before = snapshot(shared)
    owners = dict({"cells": owner}, **{f"coordinate {c}": o for c, o in cowners.items()})
    owners_before = {n: np.array(o, copy=True) for n, o in owners.items()}

    def memory_changed():
        return [f"shared: memory of {n} changed" for n, o in owners.items() if not same_values(owners_before[n], o)]
    widened = False
    outs = []
    for fname in case["funcs"]:
        sub = dict(func=fname, backend=case["backend"], dtype=case["dtype"], layout=case["layout"],
                   seed=rng.randrange(1 << 30))
        try:
            f, I, kw = build(sub)
            prim = next(n for n in I.args if n in ("agg", "raster", "surface", "terrain"))
            I.args[prim] = shared
            with warnings.catch_warnings():
                warnings.simplefilter("ignore")
                outs.append((fname, f(**I.args, **kw)))
            st = "ok"
        except Exception as ex:
            st = "raised:" + type(ex).__name__
        widened = widened or fname in WIDENS
        d = diff("shared", before, snapshot(shared), allow_dtype=widened) + memory_changed()
        res["steps"].append(f"{fname}:{st}")
        if d:
            res["modified"] = [f"after {fname} (call {len(res['steps'])} of the sequence): " + "; ".join(d)]
            res["culprit"] = fname
            break
    # writing to any of the outputs afterwards must not reach the shared raster either
    if not res["modified"]:
        for fname, out in outs:
            if fname in VIEWS:
                continue
            probe_output(out)
            d = diff("shared", before, snapshot(shared), allow_dtype=widened) + memory_changed()
            if d:
                res["probe_modified"] = [f"writing to the result of {fname} changed the shared raster: " + "; ".join(d)]
                res["culprit"] = fname
                break
    return res


def run_chunk(cases):
    out = []
    for c in cases:
        try:
            out.append(observe_sequence(c) if c.get("kind") == "sequence" else observe(c))
        except Exception:
            out.append(dict(case=c, status="harness-error:" + traceback.format_exc()[-400:], modified=[],
                            owner_modified=[], shares=[], shares_meta=[], probe_modified=[], identity=[], notes=[]))
    return out


def run_parallel(cases, workers=None):
    """cases grouped by function (JIT reuse), spread over processes"""
    import multiprocessing as mp
    from concurrent.futures import ProcessPoolExecutor
    groups = {}
    for c in cases:
        groups.setdefault((c.get("func", "sequence"), c["backend"]), []).append(c)
    chunks = []
    for g in groups.values():
        step = 12 if g[0].get("func") not in SLOW else 4
        if g[0].get("kind") == "sequence":
            step = 3
        chunks.extend(g[i:i + step] for i in range(0, len(g), step))
    chunks.sort(key=lambda ch: -len(ch) * (5 if ch[0].get("func") in SLOW or ch[0].get("kind") == "sequence" else 1))
    workers = workers or min(14, max(2, (os.cpu_count() or 4) - 2))
    results = []
    with ProcessPoolExecutor(max_workers=workers, mp_context=mp.get_context("fork")) as ex:
        for r in ex.map(run_chunk, chunks):
            results.extend(r)
    return results


# ------------------------------------------------------------------------------------------------ primitive probes
def probe_arrays():
    for dt in ("int8", "uint16", "int64", "float32", "float64"):
        for lay in LAYOUTS:
            a = (np.arange(12).reshape(3, 4) % 5 + 1).astype(dt)
            arr, owner = lay_out(a, lay)
            yield f"{dt}/{lay}", arr


def primitive_probes():
    """(name in the translator's table, class, probe: array -> result)"""
    import xarray as xr
    P = [
        ("np.zeros_like", "alloc", lambda a: np.zeros_like(a)), ("np.empty_like", "alloc", lambda a: np.empty_like(a)),
        ("np.full_like", "alloc", lambda a: np.full_like(a, 1)), ("np.ones_like", "alloc", lambda a: np.ones_like(a)),
        ("np.zeros", "alloc", lambda a: np.zeros(a.shape, a.dtype)), ("np.empty", "alloc", lambda a: np.empty(a.shape)),
        ("np.full", "alloc", lambda a: np.full(a.shape, 1)), ("np.where", "alloc", lambda a: np.where(a > 1, a, a)),
        ("np.where/1", "alloc", lambda a: np.where(a > 1)[0]),
        ("binop", "alloc", lambda a: a * 1), ("binop+0", "alloc", lambda a: a + 0), ("unary", "alloc", lambda a: -a),
        ("compare", "alloc", lambda a: a == a), ("np.sqrt", "alloc", lambda a: np.sqrt(a)),
        ("np.isfinite", "alloc", lambda a: np.isfinite(a)), ("np.gradient", "alloc", lambda a: np.gradient(a.astype("f8"))[0]),
        ("np.concatenate", "alloc", lambda a: np.concatenate([a, a])), ("np.append", "alloc", lambda a: np.append(a, a)),
        ("np.unique", "alloc", lambda a: np.unique(a)), ("np.sort", "alloc", lambda a: np.sort(a)),
        ("np.tile", "alloc", lambda a: np.tile(a[0], 2)), ("np.repeat", "alloc", lambda a: np.repeat(a[0], 2)),
        ("np.pad", "alloc", lambda a: np.pad(a, 1)), ("np.stack", "alloc", lambda a: np.stack([a, a])),
        ("np.percentile", "alloc", lambda a: np.percentile(a, [50])), ("np.clip", "alloc", lambda a: np.clip(a, 1, 2)),
        ("np.meshgrid", "alloc", lambda a: np.meshgrid(a[0], a[:, 0])[0]),
        ("np.nan_to_num", "alloc", lambda a: np.nan_to_num(a)),
        ("np.array", "copy", lambda a: np.array(a)), ("np.copy", "copy", lambda a: np.copy(a)),
        ("copy.deepcopy", "copy", lambda a: copy.deepcopy(a)), ("copy.copy", "copy", lambda a: copy.copy(a)),
        (".astype", "copy", lambda a: a.astype(a.dtype)), (".astype(f4)", "copy", lambda a: a.astype("f4")),
        (".astype(float)", "copy", lambda a: a.astype(float)),
        (".copy", "copy", lambda a: a.copy()), (".flatten", "copy", lambda a: a.flatten()),
        ("mask-index", "copy", lambda a: a[a > 0]), ("mask-index/isfinite", "copy", lambda a: a[np.isfinite(a)]),
        ("int-array-index", "copy", lambda a: a.ravel()[np.argsort(a.ravel())]),
        ("list-index", "copy", lambda a: a[[0, 1]]),
        (".astype(copy=False)", "mview", lambda a: a.astype(a.dtype, copy=False)),
        (".ravel", "mview", lambda a: a.ravel()), (".reshape", "mview", lambda a: a.reshape(-1)),
        ("np.ravel", "mview", lambda a: np.ravel(a)), ("np.reshape", "mview", lambda a: np.reshape(a, (-1,))),
        ("np.asarray", "mview", lambda a: np.asarray(a)), ("np.asarray(dtype)", "mview", lambda a: np.asarray(a, dtype="f8")),
        ("np.ascontiguousarray", "mview", lambda a: np.ascontiguousarray(a)),
        ("slice", "view", lambda a: a[1:, :2]), ("slice[:]", "view", lambda a: a[:]), ("row", "view", lambda a: a[1]),
        ("newaxis", "view", lambda a: a[:, :, np.newaxis]), (".T", "view", lambda a: a.T),
        ("np.transpose", "view", lambda a: np.transpose(a)), ("np.squeeze", "view", lambda a: np.squeeze(a)),
        ("np.expand_dims", "view", lambda a: np.expand_dims(a, 0)), ("np.flip", "view", lambda a: np.flip(a, 0)),
        ("np.broadcast_to", "view", lambda a: np.broadcast_to(a, (2,) + a.shape)),
        (".view", "view", lambda a: a.view()), ("np.ma.masked_array", "view", lambda a: np.ma.masked_array(a, mask=a > 1).data),
        ("xr.DataArray", "view", lambda a: xr.DataArray(a).data), ("DataArray.values", "view", lambda a: xr.DataArray(a).values),
        ("DataArray[slice]", "view", lambda a: xr.DataArray(a)[1:, :2].data),
        ("DataArray(coords,attrs)", "view",
         lambda a: xr.DataArray(a, dims=["y", "x"], coords={"y": np.arange(a.shape[0])}, attrs={"k": 1}).data),
        ("DataArray.transpose", "view", lambda a: xr.DataArray(a).transpose().data),
        ("DataArray[mask]", "copy", lambda a: xr.DataArray(a.ravel())[np.isfinite(a.ravel())].data),
        ("DataArray.astype", "copy", lambda a: xr.DataArray(a).astype(a.dtype).data),
        ("DataArray.copy", "copy", lambda a: xr.DataArray(a).copy().data),
        (".to_dataset", "view", lambda a: xr.DataArray(a, name="n").to_dataset()["n"].data),
        (".sel", "mview", lambda a: xr.DataArray(a, dims=["y", "x"], coords={"y": np.arange(a.shape[0]),
                                    "x": np.arange(a.shape[1])}).sel(x=[1], y=[1], method="nearest").data),
        (".get", "mview", lambda a: {"k": a}.get("k")),
        ("pd.DataFrame", "alloc", lambda a: __import__("pandas").DataFrame({"c": a.ravel().copy(), "d": a.ravel()})["d"].values),
        ("pd.Index", "alloc", lambda a: __import__("pandas").Index(a.ravel()[:2].tolist()).values),
        (".max", "alloc", lambda a: a.max()), (".min", "alloc", lambda a: a.min()), (".sum", "alloc", lambda a: a.sum()),
        (".any", "alloc", lambda a: a.any()), (".item", "alloc", lambda a: a[0, 0].item()),
        ("abs", "alloc", lambda a: abs(a)), ("Counter", "alloc", lambda a: np.array(list(__import__("collections").Counter(a.ravel().tolist())))),
    ]
    return P


def run_primitive_probes(r, used):
    """confirm the classes of the translator's primitive table on real numpy / xarray"""
    seen = {}
    for name, cls, fn in primitive_probes():
        for tag, arr in probe_arrays():
            try:
                res = fn(arr)
            except Exception as ex:
                r.tag("probe-error:" + name)
                r.notes.append(f"probe {name} on {tag}: {ex!r}"[:160])
                continue
            if not isinstance(res, np.ndarray):
                res = np.asarray(res)
            sh = bool(np.shares_memory(res, arr))
            seen.setdefault((name, cls), set()).add(sh)
            r.case(f"probe:{name}:{tag}", nontrivial=True, tags=[f"probe:{cls}"])
            if cls in ("alloc", "copy") and sh:
                r.disagree("primitive-table", dict(primitive=name, layout=tag), "result shares memory with the argument",
                           f"classified {cls} (fresh buffer)")
            if cls == "view" and not sh and res.size > 0:
                r.disagree("primitive-table", dict(primitive=name, layout=tag), "result does not share memory",
                           "classified view")
    # auto probe: every function of the table classified alloc / view that accepts (array) or (array, array)
    import facts_bufprog as fb
    auto_ok = auto_tried = 0
    for name, cls in sorted(fb.PRIMS.items()):
        if not name.startswith("np.") or cls not in ("alloc", "copy", "view", "mview"):
            continue
        obj = np
        try:
            for part in name.split(".")[1:]:
                obj = getattr(obj, part)
        except AttributeError:
            continue
        if not callable(obj) or isinstance(obj, type) and name.split(".")[-1] not in ("float32",):
            continue
        for tag, arr in list(probe_arrays())[::5]:
            for args in ((arr,), (arr, arr), (arr, 1), (arr, 0)):
                try:
                    import warnings
                    with warnings.catch_warnings():
                        warnings.simplefilter("ignore")
                        res = obj(*args)
                except Exception:
                    continue
                auto_tried += 1
                parts = res if isinstance(res, (tuple, list)) else [res]
                for p in parts:
                    if isinstance(p, np.ma.MaskedArray):
                        p = p.data
                    if isinstance(p, np.ndarray):
                        sh = bool(np.shares_memory(p, arr))
                        if cls in ("alloc", "copy") and sh:
                            r.disagree("primitive-table", dict(primitive=name, layout=tag, nargs=len(args)),
                                       "result shares memory with the argument", f"classified {cls}")
                        elif cls == "view" and not sh and p.size:
                            r.disagree("primitive-table", dict(primitive=name, layout=tag, nargs=len(args)),
                                       "result does not share memory", "classified view")
                        else:
                            auto_ok += 1
                break
    r.extra["primitive_probes"] = dict(explicit=len(seen), auto_calls=auto_tried, auto_confirmed=auto_ok,
                                       maybe_view_resolutions={n: sorted(v) for (n, c), v in seen.items() if c == "mview"})
    probed = {n for n, _ in seen}
    r.extra["primitives_used_by_programs"] = sorted(used)
    def cls_of(u):
        return fb.METHODS.get(u[1:]) if u.startswith(".") else fb.PRIMS.get(u)
    r.extra["primitives_used_not_probed"] = sorted(
        u for u in used if cls_of(u) in ("alloc", "copy", "view", "mview", "astype")
        and not any(u == p or (u.startswith(".") and u in p) for p in probed)
        and not (u in fb.PRIMS and u.startswith("np.")))


# ------------------------------------------------------------------------------------------------ wrapper-level probes
def component_sharing(out, data_src, coords_src, attrs_src):
    """(cells shared, coordinate memory shared, attrs dict shared) between the result of an xarray primitive and
    the sources it was built from; None when the result is no raster object"""
    import xarray as xr
    outs = []

    def coll(o):
        if isinstance(o, xr.DataArray):
            outs.append(o)
        elif isinstance(o, xr.Dataset):
            outs.extend(o[k] for k in o.data_vars)
        elif isinstance(o, (tuple, list)):
            for x in o:
                coll(x)
    coll(out)
    if not outs:
        return None
    src_coord_bufs = []
    if coords_src is not None:
        for cn, cv in coords_src.coords.items():
            a = cv.variable._data if isinstance(cv.variable._data, np.ndarray) else cv.data
            if isinstance(a, np.ndarray):
                src_coord_bufs.append(a)
    d = c = a = False
    for o in outs:
        if data_src is not None and isinstance(o.data, np.ndarray) and o.data.size and np.shares_memory(o.data, data_src):
            d = True
        for cn, cv in o.coords.items():
            arr = cv.variable._data if isinstance(cv.variable._data, np.ndarray) else cv.data
            if not isinstance(arr, np.ndarray) or (cn in o.indexes and not arr.flags.writeable):
                continue
            if any(np.shares_memory(arr, b) for b in src_coord_bufs) or \
                    (data_src is not None and np.shares_memory(arr, data_src)):
                c = True
        if attrs_src is not None and o.attrs is attrs_src:
            a = True
    return d, c, a


def wrapper_probes():
    """(row of the wrapper-level table, spelling, probe: source raster -> (result, data source, coords source,
    attrs source))"""
    import copy as cp
    import xarray as xr

    def fresh(s):
        return np.zeros(s.shape)

    def ctor(s):
        a = fresh(s)
        return xr.DataArray(a, coords=s.coords, dims=s.dims, attrs=s.attrs), a, s, s.attrs

    def ctor_dict(s):
        a = fresh(s)
        return xr.DataArray(a, dims=s.dims, coords={c: s[c] for c in s.coords}, attrs=dict(s.attrs)), a, s, s.attrs

    def ctor_raw(s):
        a = fresh(s)
        return xr.DataArray(a, dims=s.dims, coords={c: (s[c].dims, s[c].data) for c in s.coords},
                            attrs=s.attrs), a, s, s.attrs

    def ctor_star(s):
        a = np.zeros((2,) + s.shape)
        return xr.DataArray(a, dims=("stats",) + tuple(s.dims), coords={"stats": [0, 1], **s.coords}, attrs=s.attrs), a, s, s.attrs

    def with_data(deep):
        def f(s):
            a = fresh(s)
            return (s.copy(data=a) if deep is None else s.copy(deep=deep, data=a)), a, s, s.attrs
        return f

    def obj(fn):
        return lambda s: (fn(s), s.data, s, s.attrs)
    P = [
        ("DataArray", "DataArray(a, coords=s.coords, dims=s.dims, attrs=s.attrs)", ctor),
        ("DataArray", "DataArray(a, coords={c: s[c]}, attrs=dict(s.attrs))", ctor_dict),
        ("DataArray", "DataArray(a, coords={c: (dims, s[c].data)})", ctor_raw),
        ("DataArray", "DataArray(a, coords={'stats': …, **s.coords})", ctor_star),
        ("DataArray", "DataArray(s)", obj(lambda s: xr.DataArray(s))),
        ("copy(deep)", "s.copy()", obj(lambda s: s.copy())),
        ("copy(deep)", "s.copy(deep=True)", obj(lambda s: s.copy(deep=True))),
        ("copy(deep)", "copy.deepcopy(s)", obj(lambda s: cp.deepcopy(s))),
        ("copy(shallow)", "s.copy(deep=False)", obj(lambda s: s.copy(deep=False))),
        ("copy(shallow)", "copy.copy(s)", obj(lambda s: cp.copy(s))),
        ("copy(deep,data)", "s.copy(deep=True, data=a)", with_data(True)),
        ("copy(deep,data)", "s.copy(data=a)", with_data(None)),
        ("copy(shallow,data)", "s.copy(deep=False, data=a)", with_data(False)),
        ("copy(?)", "s.copy(deep=flag)", obj(lambda s: s.copy(deep=bool(s.shape[0] % 2)))),
        ("copy(?)", "s.copy(deep=not flag)", obj(lambda s: s.copy(deep=not bool(s.shape[0] % 2)))),
        ("astype", "s.astype('f4')", obj(lambda s: s.astype("f4"))),
        ("astype", "s.astype(s.dtype)", obj(lambda s: s.astype(s.dtype))),
        ("astype(nocopy)", "s.astype(s.dtype, copy=False)", obj(lambda s: s.astype(s.dtype, copy=False))),
        ("astype(nocopy)", "s.astype('f4', copy=False)", obj(lambda s: s.astype("f4", copy=False))),
        ("arith", "s * 2", obj(lambda s: s * 2)), ("arith", "-s", obj(lambda s: -s)), ("arith", "s > 0", obj(lambda s: s > 0)),
        ("arith", "s + s", obj(lambda s: s + s)), ("arith", "np.sqrt(s)", obj(lambda s: np.sqrt(s))),
        ("arith", "np.maximum(s, 0)", obj(lambda s: np.maximum(s, 0))),
        ("arith", "s.where(s > 0)", obj(lambda s: s.where(s > 0))), ("arith", "s.clip(0, 1)", obj(lambda s: s.clip(0, 1))),
        ("arith", "s.max()", obj(lambda s: s.max())), ("arith", "s.mean('y')", obj(lambda s: s.mean("y"))),
        ("arith", "xr.where(s > 0, s, 0)", obj(lambda s: xr.where(s > 0, s, 0))),
        ("arith", "s.fillna(0)", obj(lambda s: s.fillna(0))), ("arith", "s.round()", obj(lambda s: s.round())),
        ("viewlike", "s.T", obj(lambda s: s.T)), ("viewlike", "s.isel(y=slice(0, 2))", obj(lambda s: s.isel(y=slice(0, 2)))),
        ("viewlike", "s.rename('q')", obj(lambda s: s.rename("q"))), ("viewlike", "s.assign_attrs(k=1)", obj(lambda s: s.assign_attrs(k=1))),
        ("viewlike", "s.assign_coords(z=1)", obj(lambda s: s.assign_coords(z=1))),
        ("viewlike", "s.to_dataset(name='q')", obj(lambda s: s.to_dataset(name="q"))),
        ("viewlike", "s.compute()", obj(lambda s: s.compute())), ("viewlike", "s.squeeze()", obj(lambda s: s.squeeze())),
        ("viewlike", "s.transpose('x', 'y')", obj(lambda s: s.transpose("x", "y"))),
        ("viewlike", "s[1:, :2]", obj(lambda s: s[1:, :2])),
        ("viewlike", "s.sel(y=[1], method='nearest')", obj(lambda s: s.sel(y=[1], method="nearest"))),
        ("like", "xr.zeros_like(s)", obj(lambda s: xr.zeros_like(s))), ("like", "xr.ones_like(s)", obj(lambda s: xr.ones_like(s))),
        ("like", "xr.full_like(s, 1)", obj(lambda s: xr.full_like(s, 1))),
    ]
    return P


def probe_rasters():
    rng = random.Random(5)
    for i, dt in enumerate(("int8", "uint16", "int64", "float32", "float64")):
        for j, lay in enumerate(LAYOUTS):
            meta = dict(coords=["scalar", "aux2d", "nonindex1d", "cattrs"], cdtype=DTYPES[(3 * i + j) % len(DTYPES)],
                        clayout=LAYOUTS[(i + j) % 4], attrs=("nested", "arrays", "plain", "nested")[j])
            r, _, _ = mk_raster(rng, dt, lay, "numpy", nan=False, rname="elev", meta=meta)
            yield f"{dt}/{lay}/coords:{meta['cdtype']}/{meta['clayout']}", r


def run_wrapper_probes(r):
    """the wrapper-level primitive table (facts_bufprog.WPRIMS = Gen.primTable of the Lean side) against the real
    xarray: every row with several spellings, every DataArray method, every numpy function of the table applied to a
    DataArray"""
    import warnings
    import xarray as xr
    import facts_bufprog as fb
    # (1) the table the Lean programs were built with is the table probed here
    try:
        reply = Driver().ask(["primtable"])[0]
        lean_table = {row.split("|")[0]: tuple(row.split("|")[1:]) for row in reply.split(";") if row}
    except Exception as ex:
        lean_table = None
        r.notes.append("driver unavailable for primtable: " + repr(ex)[:100])
    if lean_table is not None and lean_table != {k: tuple(v) for k, v in fb.WPRIMS.items()}:
        r.disagree("wrapper-table", dict(side="Gen.primTable vs facts_bufprog.WPRIMS"), str(sorted(fb.WPRIMS.items()))[:300],
                   str(sorted(lean_table.items()))[:300])
    table = fb.WPRIMS
    comps = ("cells", "coordinates", "attrs dict")
    seen = {}

    def judge_row(row, spelling, tag, got, exact):
        for mode, sh, comp in zip(table[row], got, comps):
            seen.setdefault((row, comp), set()).add(sh)
            if mode in ("fresh", "deep") and sh:
                r.disagree("wrapper-table", dict(row=row, spelling=spelling, raster=tag, component=comp),
                           "the result shares this component with its source", f"classified {mode}")
            if exact and mode == "shallow" and not sh:
                r.disagree("wrapper-table", dict(row=row, spelling=spelling, raster=tag, component=comp),
                           "the result does not share this component", "classified shallow")
    rasters = list(probe_rasters())
    for row, spelling, fn in wrapper_probes():
        for tag, src in rasters:
            try:
                with warnings.catch_warnings():
                    warnings.simplefilter("ignore")
                    out, dsrc, csrc, asrc = fn(src)
                got = component_sharing(out, dsrc, csrc, asrc)
            except Exception as ex:
                r.tag("wprobe-error:" + spelling[:30])
                r.notes.append(f"wrapper probe {spelling} on {tag}: {ex!r}"[:160])
                continue
            if got is None:
                continue
            r.case(f"wprobe:{spelling}:{tag}", nontrivial=True, tags=[f"wprobe:{row}"])
            judge_row(row, spelling, tag, got, exact=True)
    # (2) every public method of DataArray: what the translator does with the name must cover what xarray does
    auto = 0
    io = lambda n: (n.startswith("to_") and n not in ("to_dataset", "to_array", "to_dataarray", "to_numpy", "to_masked_array",
                                                         "to_index", "to_series", "to_pandas", "to_dict", "to_dataframe")) \
        or n in ("plot", "pipe", "map_blocks", "from_dict", "from_series", "from_iris")      # nothing that writes files
    for name in sorted(n for n in dir(xr.DataArray) if not n.startswith("_") and not io(n)):
        for tag, src in rasters[::7]:
            f = getattr(src, name, None)
            if not callable(f):
                break
            got = None
            for args, kw in (((), {}), ((src > 0,), {}), ((0,), {}), ((0, 1), {}), (("y",), {}), (({"y": 0},), {}),
                             ((), {"y": 0}), (("f4",), {}), ((src,), {}), ((), {"name": "q"}), (("q",), {})):
                try:
                    with warnings.catch_warnings():
                        warnings.simplefilter("ignore")
                        got = component_sharing(f(*args, **kw), src.data, src, src.attrs)
                    if got is not None:
                        break
                except Exception:
                    continue
            if got is None:
                continue
            auto += 1
            if name in ("copy", "astype"):
                continue            # probed above, one spelling per row
            row = fb.XMETHODS.get(name)
            if row is not None:
                judge_row(row, f"DataArray.{name}(…)", tag, got, exact=False)
            elif fb.METHODS.get(name) in ("alloc", "scalar", "mview", "astype") and any(got):
                r.disagree("wrapper-table", dict(method=name, raster=tag), f"the result shares (cells, coords, attrs) = {got}",
                           f"the translator treats .{name}() as the ndarray method ({fb.METHODS.get(name)})")
    # (3) numpy functions that hand a DataArray back for a DataArray must be known as such (else their result would be
    #     taken for a bare array without coordinates)
    tag, src = rasters[-1]
    missing = []
    for name, cls in sorted(fb.PRIMS.items()):
        if not name.startswith("np.") or cls not in ("alloc", "copy", "view", "mview"):
            continue
        obj = np
        try:
            for part in name.split(".")[1:]:
                obj = getattr(obj, part)
        except AttributeError:
            continue
        if not callable(obj):
            continue
        for args in ((src,), (src, src), (src, 1), (src, 0), (src > 0, src, src)):
            try:
                with warnings.catch_warnings():
                    warnings.simplefilter("ignore")
                    out = obj(*args)
            except Exception:
                continue
            parts = out if isinstance(out, (tuple, list)) else [out]
            if any(isinstance(p, (xr.DataArray, xr.Variable, xr.Dataset)) for p in parts) and name[3:] not in fb.NP_XR:
                missing.append(name)
            break
    for name in missing:
        r.disagree("wrapper-table", dict(function=name), "returns a DataArray when it is given one",
                   "not listed in facts_bufprog.NP_XR (its result would be taken for a bare array)")
    r.extra["wrapper_probes"] = dict(rows=len(table), spellings=len(wrapper_probes()), rasters=len(rasters),
                                     methods_probed=auto, resolutions={f"{row}:{comp}": sorted(v) for (row, comp), v in seen.items()
                                                                       if table[row][comps.index(comp)] == "maybe"})


# ------------------------------------------------------------------------------------------------ the check
def gen_report():
    rep = json.load(open(os.path.join(LEAN, "XrsVerif", "Gen", "report.json")))
    return rep.get("facts:BufProgs.lean", {"entries": {}})


def predictions(funcs):
    """driver verdicts on the generated programs: name -> dict(ok, write, ret, unknown, meta, view)"""
    try:
        replies = Driver().ask([f"bufprog name={f}" for f in funcs])
    except Exception as ex:
        return {}, repr(ex)
    out = {}
    for f, line in zip(funcs, replies):
        if not line.startswith("ok="):
            out[f] = None
            continue
        kv = dict(t.split("=", 1) for t in line.split(" "))
        ints = lambda t: [int(x) for x in kv.get(t, "").split(",") if x]
        out[f] = dict(ok=kv["ok"] == "true", write=ints("write"), ret=ints("ret"), retc=ints("retc"), reta=ints("reta"),
                      k=int(kv.get("k", "0")), unknown=kv["unknown"] == "true",
                      meta=kv["meta"] == "true", view=kv["view"] == "true", size=int(kv["size"]))
    return out, None


def make_cases(rng, funcs, tier, full=False, only_backend=None):
    cases = []
    for f in funcs:
        for backend in ("numpy", "dask"):
            if backend == "dask" and f in NUMPY_ONLY:
                continue
            if only_backend and backend != only_backend:
                continue
            combos = [(d, l) for d in DTYPES for l in LAYOUTS]
            if full:
                pick = combos if f not in SLOW else rng.sample(combos, 12)
            elif tier == "thorough":
                n = 40 if f not in SLOW else 10
                pick = combos if n >= len(combos) else rng.sample(combos, n)
                if backend == "dask":
                    pick = rng.sample(combos, 12 if f not in SLOW else 4)
            else:
                n = (4 if backend == "numpy" else 1) if f not in SLOW else (2 if backend == "numpy" else 1)
                pick = rng.sample(combos, n)
                # every layout and both dtype families at least once per function over the numpy picks
                if backend == "numpy" and f not in SLOW:
                    pick[0] = (rng.choice(DTYPES[:8]), pick[0][1])
                    pick[1] = (rng.choice(DTYPES[8:]), pick[1][1])
            for i, (d, l) in enumerate(pick):
                # the fixture dimension: per function at least one raster whose attrs cannot be deep-copied, one with
                # nested / array-valued attrs and one with scalar + 2-D auxiliary + non-index 1-D coordinates
                if backend == "numpy" and i % 4 == 0:
                    meta = draw_meta(rng, attrs=rng.choice(UNCOPYABLE))
                elif backend == "numpy" and i % 4 == 1:
                    meta = draw_meta(rng, attrs=rng.choice(["nested", "arrays"]), coords=["scalar", "aux2d", "nonindex1d"])
                else:
                    meta = draw_meta(rng)
                cases.append(dict(func=f, backend=backend, dtype=d, layout=l, seed=rng.randrange(1 << 30), meta=meta))
    return cases


def judge(r, res, entries, preds):
    """oracle + correspondence for one observation"""
    c = res["case"]
    if c.get("kind") == "sequence":
        r.case(c, nontrivial=True, tags=["stream:sequence", f"backend:{c['backend']}", f"seqlen:{len(c['funcs'])}"])
        if res["modified"] or res["probe_modified"]:
            r.fail(f"{res.get('culprit')}:input-modified-in-sequence",
                   f"sequence {c['funcs']} [{c['backend']}, {c['dtype']}, {c['layout']}]: "
                   + "; ".join(res["modified"] + res["probe_modified"])[:400], c)
        return
    key = c["func"]
    st = res["status"].split(":")[0]
    m = c.get("meta") or dict(coords=["scalar"], attrs="plain", cdtype="int64", clayout="C")
    r.case(c, desc=c if len(r.samples) < 6 else None, nontrivial=True,
           tags=[f"fn:{key}", f"backend:{c['backend']}", f"dtype:{c['dtype']}", f"layout:{c['layout']}",
                 f"status:{res['status'] if st != 'ok' else 'ok'}"[:60], f"attrs:{m['attrs']}",
                 f"coord-dtype:{m['cdtype']}", f"coord-layout:{m['clayout']}"] + [f"coords:{x}" for x in m["coords"]])
    if st == "raised":
        r.tag(f"raised:{key}:{c['backend']}:{res['status'].split(':')[1]}")
    if st in ("build-failed", "harness-error"):
        r.notes.append(f"{key} {c['backend']}/{c['dtype']}/{c['layout']}: {res['status'][:300]}")
        r.tag("harness-problem")
        return
    for n in res["notes"]:
        if "rechunked" in n or "in place by contract" in n or "shared by reference" in n:
            r.tag("note:" + n.split(":")[-1].strip()[:40])
    # ---- the property
    if res["modified"] or res["owner_modified"]:
        r.fail(f"{key}:input-modified", f"{key} [{c['backend']}, {c['dtype']}, {c['layout']}] modified its input: "
               + "; ".join(res["modified"] + [o + ": memory changed" for o in res["owner_modified"]])[:400], c)
    if res["shares"] and key not in VIEWS:
        r.fail(f"{key}:shares-memory", f"{key} [{c['backend']}, {c['dtype']}, {c['layout']}] returns memory shared "
               f"with {res['shares']}", c)
    if res.get("shares_meta") and key not in VIEWS:
        r.fail(f"{key}:shares-coordinate-memory", f"{key} [{c['backend']}, {c['dtype']}, {c['layout']}] returns "
               "coordinates / attribute arrays that share writable memory with the input's: "
               + "; ".join(res["shares_meta"])[:400], c)
    if res["probe_modified"]:
        r.fail(f"{key}:output-write-reaches-input", f"{key} [{c['backend']}, {c['dtype']}, {c['layout']}]: writing "
               "to the output changed the input: " + "; ".join(res["probe_modified"])[:300], c)
    if res["identity"]:
        r.fail(f"{key}:identity", f"{key} [{c['backend']}, {c['dtype']}, {c['layout']}] output does not keep the "
               "raster's identity: " + "; ".join(res["identity"])[:400], c)
    # ---- correspondence: the generated program's prediction must cover the observation (numpy path)
    if c["backend"] == "numpy" and preds.get(key) and key in entries:
        params = entries[key]["params"]
        p = preds[key]
        npar = p["k"] // 3 if p.get("k") else len(params)

        def slots(n):
            """the input buffers of parameter n: cells, coordinates, attrs"""
            i = params.index(n)
            return {i, npar + i, 2 * npar + i}
        written = {x.split(":")[0].split("[")[0] for x in res["modified"] if "values changed" in x} | \
                  {o.split(".")[0] for o in res["owner_modified"] if "coord:" not in o}
        for n in written:
            if n in params and params.index(n) not in p["write"]:
                r.disagree("prediction-vs-observation", c, f"input {n} was written", f"program predicts writes only to {p['write']}")
        # wrapper level: a changed coordinate / attribute of an input must be a predicted write of one of its buffers
        meta_written = {x.split(":")[0].split("[")[0] for x in res["modified"]
                        if ": coordinate " in x or ": attrs" in x or ": coords " in x or ": name " in x} | \
                       {o.split(".")[0] for o in res["owner_modified"] if "coord:" in o}
        for n in meta_written:
            if n in params[:npar] and not (slots(n) & set(p["write"])):
                r.disagree("prediction-vs-observation", c, f"coordinates / attrs of input {n} were written",
                           f"program predicts writes only to {[params[i] for i in p['write']]}")
        for n in set(res["shares"]):
            if n in params and params.index(n) not in p["ret"]:
                r.disagree("prediction-vs-observation", c, f"result shares memory with {n}", f"program predicts aliases only of {p['ret']}")
        for okind, n, ikind in res.get("shares_comp", []):
            if n in params[:npar] and not (slots(n) & set(p["ret"] + p["retc"] + p["reta"])) and key not in VIEWS:
                r.disagree("prediction-vs-observation", c, f"the result's {okind} shares memory with a {ikind} buffer of {n}",
                           f"program predicts that the result may alias only {[params[i] for i in p['ret'] + p['retc'] + p['reta']]}")


def run(r, full=False):
    import time
    t_start = time.time()
    r.extra.setdefault("phase_s", {})["proofs"] = round(t_start - r.t0, 1)
    rep = gen_report()
    entries = rep.get("entries", {})
    funcs = sorted(entries)
    r.rule = ("per public function: (dtype, layout) pairs sampled from {int8..uint64,float32,float64} x {C,F,strided view,"
              "read-only} (thorough: all 40 on numpy) x {numpy,dask}; 6x7 rasters with NaN cells for floats, scalar coords "
              "and nested attrs; non-trivial = distinct (function, backend, dtype, layout, data seed); plus the primitive "
              "probes (table entry x 5 dtypes x 4 layouts)")
    r.trusted += ["harness/facts_bufprog.py primitive table (probed with np.shares_memory each run)",
                  "numpy / xarray / dask / numba run time (observed, not modelled)"]
    r.assumptions += ["the buffer program abstracts the Python source faithfully (translator trusted; prediction >= observation checked)",
                      "dask backend: observation only"]
    for k, e in entries.items():
        if e["status"] != "ok" or e["unknowns"]:
            r.broken.append(f"translator: {k} not fully translated: {e['status']} {e['unknowns'][:2]}")
    used = set()
    for e in entries.values():
        used.update(e.get("used", []))
        for u in e.get("unclassified", []):
            r.tag("unclassified:" + u)
    run_primitive_probes(r, used)
    run_wrapper_probes(r)
    r.extra["phase_s"]["primitive_probes"] = round(time.time() - t_start, 1)
    preds, err = predictions(funcs)
    if err:
        r.notes.append("driver unavailable: " + err)
    bad = [f for f, p in preds.items() if p and not p["ok"]]
    badmeta = [f for f, p in preds.items() if p and not p["meta"]]
    r.extra["buffer_programs"] = {f: dict(size=p["size"], may_write=p["write"], may_return=p["ret"],
                                          may_return_coords=p["retc"], may_return_attrs=p["reta"], ok=p["ok"], meta=p["meta"])
                                  for f, p in preds.items() if p}
    r.extra["rejected_by_checker"] = bad
    r.extra["meta_not_conforming"] = badmeta
    if bad or badmeta:
        r.broken.append(f"checker rejects the generated program of {bad}; metadata contract broken for {badmeta}")
    # corpus first
    corpus = [b["case"] for b in r.corpus() if "case" in b]
    cases = corpus + make_cases(r.rng, funcs, r.tier, full=full)
    if bad and not full:
        # functions whose program is rejected get the whole matrix right away
        for _ in range(3):
            cases += make_cases(r.rng, bad, r.tier, full=True, only_backend="numpy")
    avail = [f for f in SEQ_FUNCS if f in entries]
    for _ in range({"quick": 10, "thorough": 60}[r.tier] if avail else 0):
        backend = r.rng.choice(["numpy", "numpy", "dask"])
        pool = [f for f in avail if backend == "numpy" or f not in NUMPY_ONLY]
        cases.append(dict(kind="sequence", funcs=[r.rng.choice(pool) for _ in range(r.rng.randrange(3, 7))],
                          backend=backend, dtype=r.rng.choice(DTYPES), layout=r.rng.choice(LAYOUTS),
                          seed=r.rng.randrange(1 << 30), meta=draw_meta(r.rng)))
    t_obs = time.time()
    results = run_parallel(cases)
    for res in results:
        judge(r, res, entries, preds)
    r.extra["phase_s"]["observation"] = round(time.time() - t_obs, 1)
    r.extra["observed_functions"] = len(funcs)
    r.extra["not_covered"] = ["cupy / dask-cupy paths", "gpu_rtx", "esri.py", "datashader helpers of utils.py (canvas_like, "
                              "bands_to_img, color_values)", "scalar distance functions of proximity.py"]


def search(r):
    """a proof obligation or the correspondence broke: the full dtype x layout matrix, rejected functions first"""
    rep = gen_report()
    entries = rep.get("entries", {})
    funcs = sorted(entries)
    preds, _ = predictions(funcs)
    bad = [f for f, p in preds.items() if p and not p["ok"]]
    order = bad + [f for f in funcs if f not in bad]
    cases = make_cases(r.rng, order, "thorough", full=True)
    for res in run_parallel(cases):
        judge(r, res, entries, preds)


def replay(r, body):
    c = body["case"]
    res = observe_sequence(c) if c.get("kind") == "sequence" else observe(c)
    bad = res["modified"] + res["owner_modified"] + res["probe_modified"] + res["identity"] + \
        ([f"shares memory with {res['shares']}"] if res["shares"] and c.get("func") not in VIEWS else []) + \
        (["shares coordinate / attribute memory: " + "; ".join(res["shares_meta"])] if res.get("shares_meta") and
         c.get("func") not in VIEWS else [])
    if bad:
        print("still fails:", "; ".join(bad)[:600])
        return 1
    print("does not fail on the current tree (status %s)" % res["status"])
    return 0
