#!/usr/bin/env python3
"""
translate.py -- regenerate lean/XrsVerif/Gen/*.lean from /repo's *current* source.

Layer T1: numba per-cell kernels  ->  values of `XrsVerif.Kernel` (Core/KLang.lean).
Layer T2: structural facts (map_overlap depth / boundary, kernel half widths, tables,
          jit options ...) -> Lean constants (see t2_*.py helpers below).

Only the Python `ast` module is used; nothing from /repo is imported or executed here.
A construct outside the supported subset never gets a silent default: the kernel is emitted
with an `S.fail "untranslatable: ..."` body and listed in `untranslatable`, so every theorem
that mentions it stops checking.

Usage: translate.py [--repo /repo] [--out lean/XrsVerif/Gen] [--check]   (writes only changed files)
"""
import ast
import json
import os
import sys
from fractions import Fraction

REPO = os.environ.get("XRS_REPO", "/repo")
HERE = os.path.dirname(os.path.abspath(__file__))
OUT = os.path.join(os.path.dirname(HERE), "lean", "XrsVerif", "Gen")


class Untranslatable(Exception):
    pass


def lean_str(s):
    return '"' + s.replace("\\", "\\\\").replace('"', '\\"') + '"'


def lean_int(n):
    return str(n) if n >= 0 else f"({n})"


def lit(fr):
    fr = Fraction(fr)
    return f"(E.lit {lean_int(fr.numerator)} {fr.denominator})"


UN_CALLS = {
    "arctan": "atan", "atan": "atan", "sqrt": "sqrt", "exp": "exp", "sin": "sin", "cos": "cos",
    "arcsin": "asin", "asin": "asin", "abs": "abs", "fabs": "abs", "absolute": "abs",
}
CAST_CALLS = {"float", "float32", "float64", "int"}  # numeric casts kept as identity (noted)
BIN_CALLS = {"arctan2": "atan2", "atan2": "atan2"}
BINOPS = {ast.Add: "add", ast.Sub: "sub", ast.Mult: "mul", ast.Div: "div"}
CMPOPS = {ast.Lt: "lt", ast.LtE: "le", ast.Eq: "eq", ast.NotEq: "ne", ast.Gt: "gt", ast.GtE: "ge"}


def call_name(f):
    """np.arctan -> 'arctan', atan -> 'atan', cmath.isfinite -> 'isfinite'"""
    if isinstance(f, ast.Name):
        return f.id
    if isinstance(f, ast.Attribute):
        return f.attr
    return None


class KernelTranslator:
    def __init__(self, module_ast, func, yvar="y", xvar="x"):
        self.mod = module_ast
        self.func = func
        self.yvar, self.xvar = yvar, xvar
        self.args = [a.arg for a in func.args.args]
        self.arrays, self.vectors, self.locals = [], [], set()
        self.casts = []
        self.elementwise = set()   # names that denote whole arrays used elementwise (np.where kernels)
        self.out_name = None
        self.consts = {}
        self.pi_names = {"pi"}
        for st in module_ast.body:
            if isinstance(st, ast.Assign) and len(st.targets) == 1 and isinstance(st.targets[0], ast.Name):
                self.consts[st.targets[0].id] = st.value
            if isinstance(st, ast.ImportFrom) and st.module in ("math", "numpy"):
                for al in st.names:           # `from math import pi as PI`
                    if al.name == "pi" and al.asname:
                        self.pi_names.add(al.asname)

    # ---- expressions -------------------------------------------------
    def offset(self, node, var):
        """index expression  var | var + c | var - c  ->  c"""
        if isinstance(node, ast.Name) and node.id == var:
            return 0
        if isinstance(node, ast.BinOp) and isinstance(node.left, ast.Name) and node.left.id == var \
                and isinstance(node.right, ast.Constant) and isinstance(node.right.value, int):
            if isinstance(node.op, ast.Add):
                return node.right.value
            if isinstance(node.op, ast.Sub):
                return -node.right.value
        raise Untranslatable(f"index {ast.unparse(node)}")

    def expr(self, n):
        if isinstance(n, ast.Constant):
            if isinstance(n.value, bool):
                raise Untranslatable("bool constant as number")
            if isinstance(n.value, int):
                return lit(n.value)
            if isinstance(n.value, float):
                return lit(Fraction(repr(n.value)))
            raise Untranslatable(f"constant {n.value!r}")
        if isinstance(n, ast.Name):
            if n.id in self.elementwise:
                if n.id not in self.arrays:
                    self.arrays.append(n.id)
                return f"(E.rd {lean_str(n.id)} 0 0)"
            if n.id in (self.yvar, self.xvar):
                raise Untranslatable("loop variable used as a value")
            if n.id in self.locals or n.id in self.args:
                return f"(E.var {lean_str(n.id)})"
            if n.id in self.pi_names:
                return "E.pi"
            if n.id in ("nan",):
                return "E.nan"
            if n.id in self.consts:
                return self.expr(self.consts[n.id])
            raise Untranslatable(f"free name {n.id}")
        if isinstance(n, ast.Attribute):
            if n.attr == "nan":
                return "E.nan"
            if n.attr == "pi":
                return "E.pi"
            raise Untranslatable(f"attribute {ast.unparse(n)}")
        if isinstance(n, ast.Subscript):
            if isinstance(n.value, ast.Name) and isinstance(n.slice, ast.Tuple) and len(n.slice.elts) == 2:
                arr = n.value.id
                dy = self.offset(n.slice.elts[0], self.yvar)
                dx = self.offset(n.slice.elts[1], self.xvar)
                if arr not in self.arrays:
                    self.arrays.append(arr)
                return f"(E.rd {lean_str(arr)} {lean_int(dy)} {lean_int(dx)})"
            if isinstance(n.value, ast.Name) and isinstance(n.slice, ast.Name) and self.xvar is not None \
                    and n.slice.id == self.xvar and n.value.id in self.elementwise:
                arr = n.value.id
                if arr not in self.arrays:
                    self.arrays.append(arr)
                return f"(E.rd {lean_str(arr)} 0 0)"
            raise Untranslatable(f"subscript {ast.unparse(n)}")
        if isinstance(n, ast.UnaryOp):
            if isinstance(n.op, ast.USub):
                if isinstance(n.operand, ast.Constant) and isinstance(n.operand.value, (int, float)) \
                        and not isinstance(n.operand.value, bool):
                    v = n.operand.value
                    return lit(-Fraction(repr(v)) if isinstance(v, float) else -v)
                return f"(E.un .neg {self.expr(n.operand)})"
            if isinstance(n.op, ast.UAdd):
                return self.expr(n.operand)
            raise Untranslatable(f"unary {ast.unparse(n)}")
        if isinstance(n, ast.BinOp):
            if type(n.op) in BINOPS:
                return f"(E.bin .{BINOPS[type(n.op)]} {self.expr(n.left)} {self.expr(n.right)})"
            if isinstance(n.op, ast.Pow) and isinstance(n.right, ast.Constant):
                if n.right.value == 0.5:
                    return f"(E.un .sqrt {self.expr(n.left)})"
                if n.right.value == 2:
                    e = self.expr(n.left)
                    return f"(E.bin .mul {e} {e})"
            raise Untranslatable(f"binop {ast.unparse(n)}")
        if isinstance(n, ast.Call):
            name = call_name(n.func)
            if name in UN_CALLS and len(n.args) == 1:
                return f"(E.un .{UN_CALLS[name]} {self.expr(n.args[0])})"
            if name in BIN_CALLS and len(n.args) == 2:
                return f"(E.bin .{BIN_CALLS[name]} {self.expr(n.args[0])} {self.expr(n.args[1])})"
            if name in ("min", "max") and len(n.args) == 2:
                return f"(E.bin .{name} {self.expr(n.args[0])} {self.expr(n.args[1])})"
            if name == "radians" and len(n.args) == 1:
                return f"(E.bin .mul {self.expr(n.args[0])} (E.bin .div E.pi (E.lit 180 1)))"
            if name in CAST_CALLS and len(n.args) == 1:
                self.casts.append(ast.unparse(n))
                return self.expr(n.args[0])
            inl = self.inline_pure_helper(n)
            if inl is not None:
                return self.expr(inl)
            raise Untranslatable(f"call {ast.unparse(n)}")
        raise Untranslatable(f"expression {ast.unparse(n)}")

    def inline_pure_helper(self, call):
        """`f(a, b, ..)` where `f` is a function of the same module whose body is straight-line: assignments of
        expressions to fresh names followed by one `return <expr>` -- replaced by that expression with the
        arguments substituted (the same value: no control flow, no side effect; numba inlines such helpers too).
        Anything else: None."""
        if not isinstance(call.func, ast.Name) or call.keywords:
            return None
        f = next((st for st in self.mod.body if isinstance(st, ast.FunctionDef) and st.name == call.func.id), None)
        if f is None or f.args.vararg or f.args.kwarg or f.args.kwonlyargs or f.args.defaults:
            return None
        params = [a.arg for a in f.args.args]
        if len(params) != len(call.args):
            return None
        body = [st for st in f.body if not (isinstance(st, ast.Expr) and isinstance(st.value, ast.Constant))]
        if not body or not isinstance(body[-1], ast.Return) or body[-1].value is None:
            return None
        env = dict(zip(params, call.args))

        class Sub(ast.NodeTransformer):
            def visit_Name(self_, node):
                if isinstance(node.ctx, ast.Load) and node.id in env:
                    return copy.deepcopy(env[node.id])
                return node
        import copy
        for st in body[:-1]:
            if not (isinstance(st, ast.Assign) and len(st.targets) == 1 and isinstance(st.targets[0], ast.Name)):
                return None
            if any(isinstance(x, (ast.Call,)) and isinstance(x.func, ast.Name) and x.func.id == f.name for x in ast.walk(st.value)):
                return None          # recursion
            env[st.targets[0].id] = Sub().visit(copy.deepcopy(st.value))
        depth = getattr(self, "_inline_depth", 0)
        if depth > 3:
            return None
        self._inline_depth = depth + 1
        try:
            return Sub().visit(copy.deepcopy(body[-1].value))
        finally:
            self._inline_depth = depth

    def cond(self, n):
        if isinstance(n, ast.Constant) and isinstance(n.value, bool):
            return "C.tt" if n.value else "C.ff"
        if isinstance(n, ast.BoolOp):
            op = "and" if isinstance(n.op, ast.And) else "or"
            parts = [self.cond(v) for v in n.values]
            acc = parts[-1]
            for p in reversed(parts[:-1]):
                acc = f"(C.{op} {p} {acc})"
            return acc
        if isinstance(n, ast.UnaryOp) and isinstance(n.op, ast.Not):
            return f"(C.not {self.cond(n.operand)})"
        if isinstance(n, ast.Compare) and len(n.ops) == 1 and type(n.ops[0]) in CMPOPS:
            return f"(C.cmp .{CMPOPS[type(n.ops[0])]} {self.expr(n.left)} {self.expr(n.comparators[0])})"
        if isinstance(n, ast.Compare) and len(n.ops) == 2 and all(type(o) in CMPOPS for o in n.ops):
            a, b, c = n.left, n.comparators[0], n.comparators[1]
            return (f"(C.and (C.cmp .{CMPOPS[type(n.ops[0])]} {self.expr(a)} {self.expr(b)}) "
                    f"(C.cmp .{CMPOPS[type(n.ops[1])]} {self.expr(b)} {self.expr(c)}))")
        if isinstance(n, ast.Call) and call_name(n.func) in ("logical_or", "logical_and") and len(n.args) == 2:
            op = "or" if call_name(n.func) == "logical_or" else "and"
            return f"(C.{op} {self.cond(n.args[0])} {self.cond(n.args[1])})"
        if isinstance(n, ast.Call) and call_name(n.func) == "logical_not" and len(n.args) == 1:
            return f"(C.not {self.cond(n.args[0])})"
        if isinstance(n, ast.Call):
            name = call_name(n.func)
            if name == "isnan" and len(n.args) == 1:
                return f"(C.isnan {self.expr(n.args[0])})"
            if name == "isfinite" and len(n.args) == 1:
                return f"(C.isfinite {self.expr(n.args[0])})"
            if name == "any" and len(n.args) == 1 and isinstance(n.args[0], ast.Compare) \
                    and len(n.args[0].ops) == 1 and isinstance(n.args[0].ops[0], ast.Eq):
                cmp_ = n.args[0]
                left, right = cmp_.left, cmp_.comparators[0]
                if isinstance(left, ast.Name) and left.id in self.args:
                    vec, e = left.id, right
                elif isinstance(right, ast.Name) and right.id in self.args:
                    vec, e = right.id, left
                else:
                    raise Untranslatable(f"any() over {ast.unparse(cmp_)}")
                if vec not in self.vectors:
                    self.vectors.append(vec)
                return f"(C.anyEq {lean_str(vec)} {self.expr(e)})"
        raise Untranslatable(f"condition {ast.unparse(n)}")

    # ---- statements --------------------------------------------------
    def block(self, stmts):
        parts = [self.stmt(s) for s in stmts]
        parts = [p for p in parts if p != "S.skip"]
        if not parts:
            return "S.skip"
        acc = parts[-1]
        for p in reversed(parts[:-1]):
            acc = f"(S.seq {p}\n {acc})"
        return acc

    def stmt(self, s):
        if isinstance(s, ast.Assign) and len(s.targets) == 1:
            t = s.targets[0]
            if isinstance(t, ast.Name):
                e = self.expr(s.value)
                self.locals.add(t.id)
                return f"(S.assign {lean_str(t.id)} {e})"
            if isinstance(t, ast.Subscript) and isinstance(t.value, ast.Name) and t.value.id == self.out_name:
                if isinstance(t.slice, ast.Tuple) and len(t.slice.elts) == 2 \
                        and self.offset(t.slice.elts[0], self.yvar) == 0 \
                        and self.offset(t.slice.elts[1], self.xvar) == 0:
                    return f"(S.store {self.expr(s.value)})"
            if isinstance(t, ast.Tuple) and isinstance(s.value, ast.Tuple) and len(t.elts) == len(s.value.elts) \
                    and all(isinstance(e, ast.Name) for e in t.elts):
                names = [e.id for e in t.elts]
                used = {n.id for v in s.value.elts for n in ast.walk(v) if isinstance(n, ast.Name)}
                if used & set(names):
                    raise Untranslatable("tuple assignment reads its own targets")
                parts = []
                for nm, v in zip(names, s.value.elts):
                    parts.append(f"(S.assign {lean_str(nm)} {self.expr(v)})")
                for nm in names:
                    self.locals.add(nm)
                acc = parts[-1]
                for q in reversed(parts[:-1]):
                    acc = f"(S.seq {q}\n {acc})"
                return acc
            raise Untranslatable(f"assignment target {ast.unparse(t)}")
        if isinstance(s, ast.AugAssign) and isinstance(s.target, ast.Name) and type(s.op) in BINOPS:
            v = s.target.id
            if v not in self.locals and v not in self.args:
                raise Untranslatable(f"augmented assignment to unknown {v}")
            self.locals.add(v)
            return f"(S.assign {lean_str(v)} (E.bin .{BINOPS[type(s.op)]} (E.var {lean_str(v)}) {self.expr(s.value)}))"
        if isinstance(s, ast.If):
            c = self.cond(s.test)
            # both branches see the variables bound before the `if`; names bound inside are joined
            before = set(self.locals)
            t = self.block(s.body)
            after_t = set(self.locals)
            self.locals = set(before)
            f = self.block(s.orelse) if s.orelse else "S.skip"
            self.locals |= after_t
            return f"(S.ite {c}\n {t}\n {f})"
        if isinstance(s, ast.Continue):
            return "S.cont"
        if isinstance(s, ast.Return):
            if s.value is None:
                return "S.cont"
            return f"(S.seq (S.store {self.expr(s.value)}) S.cont)"
        if isinstance(s, ast.Raise):
            return f"(S.fail {lean_str(ast.unparse(s.exc) if s.exc else 'raise')})"
        if isinstance(s, ast.Assert):
            return f"(S.ite {self.cond(s.test)}\n S.skip\n (S.fail {lean_str('assert ' + ast.unparse(s.test))}))"
        if isinstance(s, ast.Pass):
            return "S.skip"
        if isinstance(s, ast.Expr) and isinstance(s.value, ast.Constant) and isinstance(s.value.value, str):
            return "S.skip"  # docstring
        raise Untranslatable(f"statement {ast.unparse(s).splitlines()[0]}")

    # ---- whole kernels -------------------------------------------------
    def range_margins(self, call, dim_names):
        """range(a, dim - b) / range(dim) / prange(dim) -> (a, b)"""
        if not (isinstance(call, ast.Call) and call_name(call.func) in ("range", "prange")):
            raise Untranslatable(f"loop iterator {ast.unparse(call)}")
        a = call.args
        if len(a) == 1:
            lo, hi = ast.Constant(0), a[0]
        elif len(a) == 2:
            lo, hi = a
        else:
            raise Untranslatable("range with step")
        if not (isinstance(lo, ast.Constant) and isinstance(lo.value, int) and lo.value >= 0):
            raise Untranslatable(f"loop start {ast.unparse(lo)}")
        if isinstance(hi, ast.Name) and hi.id in dim_names:
            return lo.value, 0
        if isinstance(hi, ast.BinOp) and isinstance(hi.op, ast.Sub) and isinstance(hi.left, ast.Name) \
                and hi.left.id in dim_names and isinstance(hi.right, ast.Constant) \
                and isinstance(hi.right.value, int) and hi.right.value >= 0:
            return lo.value, hi.right.value
        raise Untranslatable(f"loop stop {ast.unparse(hi)}")

    def grid_kernel(self):
        """kernel with the `for y ... for x ...` shape"""
        fill = None
        pre, guard = [], "C.tt"
        rows_names, cols_names = set(), set()
        loops = None
        body_stmts = list(self.func.body)

        def is_alloc(v):
            if isinstance(v, ast.Call):
                nm = call_name(v.func)
                if nm in ("zeros_like", "zeros"):
                    return "zero"
                if nm in ("empty", "empty_like"):
                    return "uninit"
                if nm == "full" and len(v.args) >= 2:
                    fv = v.args[1]
                    if isinstance(fv, ast.Attribute) and fv.attr == "nan":
                        return "nan"
                    if isinstance(fv, ast.Constant) and fv.value == 0:
                        return "zero"
            return None

        def handle_top(st):
            nonlocal fill, guard, loops
            if isinstance(st, ast.Expr) and isinstance(st.value, ast.Constant):
                return
            if isinstance(st, ast.Assign) and len(st.targets) == 1:
                t, v = st.targets[0], st.value
                if isinstance(t, ast.Name) and is_alloc(v):
                    self.out_name = t.id
                    fill = is_alloc(v)
                    return
                if isinstance(t, ast.Name) and isinstance(v, ast.Call) and call_name(v.func) == "astype" \
                        and isinstance(v.func.value, ast.Name) and v.func.value.id == t.id:
                    self.casts.append(ast.unparse(st))
                    return
                if isinstance(t, ast.Subscript) and isinstance(t.value, ast.Name) \
                        and t.value.id == self.out_name and isinstance(t.slice, ast.Slice):
                    if isinstance(v, ast.Attribute) and v.attr == "nan":
                        fill = "nan"
                        return
                    if isinstance(v, ast.Constant) and v.value == 0:
                        fill = "zero"
                        return
                if isinstance(t, ast.Tuple) and len(t.elts) == 2 and isinstance(v, ast.Attribute) and v.attr == "shape":
                    rows_names.add(t.elts[0].id)
                    cols_names.add(t.elts[1].id)
                    return
                if isinstance(t, ast.Name):
                    pre.append(self.stmt(st))
                    return
            if isinstance(st, ast.If) and not st.orelse and loops is None \
                    and any(isinstance(b, ast.For) for b in st.body):
                guard = self.cond(st.test)
                for b in st.body:
                    handle_top(b)
                return
            if isinstance(st, ast.If) and not st.orelse and loops is None and guard == "C.tt" and len(st.body) == 1 \
                    and isinstance(st.body[0], ast.Return) and isinstance(st.body[0].value, ast.Name) \
                    and st.body[0].value.id == self.out_name:
                # `if c: return out` in front of the loops is the guard `not c` around them; `not (a == b)` is
                # `a != b` and vice versa (exact also for NaN); other comparisons keep the explicit negation
                t = st.test
                if isinstance(t, ast.Compare) and len(t.ops) == 1 and isinstance(t.ops[0], (ast.Eq, ast.NotEq)):
                    flipped = ast.Compare(left=t.left, ops=[ast.NotEq() if isinstance(t.ops[0], ast.Eq) else ast.Eq()],
                                          comparators=t.comparators)
                    guard = self.cond(flipped)
                else:
                    guard = f"(C.not {self.cond(t)})"
                return
            if isinstance(st, ast.For) and loops is None:
                if not (isinstance(st.target, ast.Name) and len(st.body) == 1 and isinstance(st.body[0], ast.For)):
                    raise Untranslatable("outer loop shape")
                inner = st.body[0]
                if not isinstance(inner.target, ast.Name):
                    raise Untranslatable("inner loop target")
                self.yvar, self.xvar = st.target.id, inner.target.id
                top, bottom = self.range_margins(st.iter, rows_names)
                left, right = self.range_margins(inner.iter, cols_names)
                loops = (top, bottom, left, right, inner.body)
                return
            if isinstance(st, ast.Return) and isinstance(st.value, ast.Name) and st.value.id == self.out_name:
                return
            raise Untranslatable(f"top-level statement {ast.unparse(st).splitlines()[0]}")

        for st in body_stmts:
            handle_top(st)
        if loops is None:
            raise Untranslatable("no loop nest found")
        if fill not in ("nan", "zero"):
            raise Untranslatable(f"output allocation fill={fill}")
        top, bottom, left, right, body = loops
        body_l = self.block(body)
        pre_l = "S.skip"
        for p in reversed(pre):
            pre_l = p if pre_l == "S.skip" else f"(S.seq {p} {pre_l})"
        scalars = [a for a in self.args if a not in self.arrays and a not in self.vectors]
        return dict(arrays=self.arrays, scalars=scalars, vectors=self.vectors, fill=fill, top=top,
                    bottom=bottom, left=left, right=right, pre=pre_l, guard=guard, body=body_l)

    def scalar_kernel(self):
        """a scalar function (no loops): body with `return e`"""
        stmts = [s for s in self.func.body]
        self.out_name = None
        self.yvar = self.xvar = None
        body_l = self.block(stmts)
        return dict(arrays=[], scalars=self.args, vectors=[], fill="nan", top=0, bottom=0, left=0, right=0,
                    pre="S.skip", guard="C.tt", body=body_l)


    def where_kernel(self, target, arrays):
        """`target = <np|da>.where(cond, a, b)[.astype(..)]` used elementwise over `arrays`"""
        self.yvar = self.xvar = None
        self.elementwise = set(arrays)
        for st in self.func.body:   # function-level numeric constants (pixel_max = 255)
            if isinstance(st, ast.Assign) and len(st.targets) == 1 and isinstance(st.targets[0], ast.Name) \
                    and isinstance(st.value, ast.Constant) and isinstance(st.value.value, (int, float)) \
                    and not isinstance(st.value.value, bool):
                self.consts[st.targets[0].id] = st.value
        for n in ast.walk(self.func):
            if isinstance(n, ast.Assign) and len(n.targets) == 1 and isinstance(n.targets[0], ast.Name) \
                    and n.targets[0].id == target:
                v = n.value
                if isinstance(v, ast.Call) and call_name(v.func) == "astype":
                    self.casts.append("astype(" + ast.unparse(v.args[0]) + ")")
                    v = v.func.value
                if isinstance(v, ast.Call) and call_name(v.func) == "where" and len(v.args) == 3:
                    c = self.cond(v.args[0])
                    a, b = self.expr(v.args[1]), self.expr(v.args[2])
                    body = f"(S.ite {c}\n (S.store {a})\n (S.store {b}))"
                    scalars = [x for x in self.args if x not in self.arrays]
                    return dict(arrays=self.arrays, scalars=scalars, vectors=[], fill="nan", top=0, bottom=0,
                                left=0, right=0, pre="S.skip", guard="C.tt", body=body)
        raise Untranslatable(f"no `{target} = where(...)` found")


    def guards_kernel(self):
        """the `if <test over scalar parameters>: raise ...` statements at the top of a public function
        -> a scalar kernel that fails exactly when the function rejects its parameters"""
        self.yvar = self.xvar = None
        parts, skipped = [], []
        for st in self.func.body:
            if isinstance(st, ast.If) and not st.orelse and len(st.body) == 1 and isinstance(st.body[0], ast.Raise):
                try:
                    c = self.cond(st.test)
                except Untranslatable as ex:
                    skipped.append(f"{ast.unparse(st.test)}  ({ex})")
                    continue
                msg = ast.unparse(st.body[0].exc)[:80] if st.body[0].exc else "raise"
                parts.append(f"(S.ite {c} (S.fail {lean_str(msg)}) S.skip)")
        self.casts.append("guards not over plain scalars (skipped): " + "; ".join(skipped))
        if not parts:
            raise Untranslatable("no parameter guard found")
        acc = parts[-1]
        for q in reversed(parts[:-1]):
            acc = f"(S.seq {q}\n {acc})"
        used = [a for a in self.args if f'(E.var "{a}")' in acc]
        return dict(arrays=[], scalars=used, vectors=[], fill="nan", top=0, bottom=0, left=0, right=0,
                    pre="S.skip", guard="C.tt", body=acc)

    def target_test_kernel(self):
        """proximity's target test: the `if n_values == 0: ... else: for i ...: if line[p] == values[i]` block
        -> a per-cell kernel storing 1 (target) or 0"""
        loop = next((n for n in ast.walk(self.func) if isinstance(n, ast.For) and isinstance(n.target, ast.Name)), None)
        if loop is None:
            raise Untranslatable("pixel loop not found")
        self.yvar, self.xvar = None, loop.target.id
        test = next((st for st in loop.body if isinstance(st, ast.If) and isinstance(st.test, ast.Compare)
                     and isinstance(st.test.left, ast.Name) and st.test.left.id == "n_values"), None)
        if test is None or not (isinstance(test.test.ops[0], ast.Eq) and isinstance(test.test.comparators[0], ast.Constant)
                                and test.test.comparators[0].value == 0):
            raise Untranslatable("`if n_values == 0` not found")
        self.elementwise = {"source_line"}

        def sets_target(stmts):
            return len(stmts) == 1 and isinstance(stmts[0], ast.Assign) and isinstance(stmts[0].targets[0], ast.Name) \
                and stmts[0].targets[0].id == "is_target" and isinstance(stmts[0].value, ast.Constant) \
                and stmts[0].value.value is True
        if not (len(test.body) == 1 and isinstance(test.body[0], ast.If) and not test.body[0].orelse
                and sets_target(test.body[0].body)):
            raise Untranslatable("default target test shape")
        default = self.cond(test.body[0].test)
        if not (len(test.orelse) == 1 and isinstance(test.orelse[0], ast.For)):
            raise Untranslatable("explicit target test shape")
        inner = test.orelse[0]
        if not (len(inner.body) == 1 and isinstance(inner.body[0], ast.If) and sets_target(inner.body[0].body)
                and isinstance(inner.body[0].test, ast.Compare) and isinstance(inner.body[0].test.ops[0], ast.Eq)):
            raise Untranslatable("explicit target comparison shape")
        cmp_ = inner.body[0].test
        sides = [cmp_.left, cmp_.comparators[0]]
        vec = next((x for x in sides if isinstance(x, ast.Subscript) and isinstance(x.value, ast.Name)
                    and x.value.id == "values"), None)
        other = next((x for x in sides if x is not vec), None)
        if vec is None:
            raise Untranslatable("explicit target comparison is not against values[i]")
        explicit = f"(C.anyEq \"values\" {self.expr(other)})"
        body = (f"(S.ite (C.cmp .eq (E.var \"n_values\") (E.lit 0 1))\n (S.ite {default} (S.store (E.lit 1 1)) (S.store (E.lit 0 1)))\n"
                f" (S.ite {explicit} (S.store (E.lit 1 1)) (S.store (E.lit 0 1))))")
        return dict(arrays=self.arrays, scalars=["n_values"], vectors=["values"], fill="nan", top=0, bottom=0,
                    left=0, right=0, pre="S.skip", guard="C.tt", body=body)


def find_func(mod, name):
    for st in mod.body:
        if isinstance(st, ast.FunctionDef) and st.name == name:
            return st
    return None


def jit_options(func):
    """decorator facts: parallel / fastmath / cache / which decorator"""
    opts = {"decorators": []}
    for d in func.decorator_list:
        opts["decorators"].append(ast.unparse(d))
        if isinstance(d, ast.Call):
            for kw in d.keywords:
                if kw.arg in ("parallel", "fastmath", "cache", "nogil", "nopython") \
                        and isinstance(kw.value, ast.Constant):
                    opts[kw.arg] = kw.value.value
    return opts


def str_list(xs):
    return "[" + ", ".join(lean_str(x) for x in xs) + "]"


def emit_kernel(lean_name, qual, k):
    return (
        f"def {lean_name} : Kernel := {{\n"
        f"  name := {lean_str(qual)}\n"
        f"  arrays := {str_list(k['arrays'])}\n"
        f"  scalars := {str_list(k['scalars'])}\n"
        f"  vectors := {str_list(k['vectors'])}\n"
        f"  fill := .{k['fill']}\n"
        f"  top := {k['top']}\n  bottom := {k['bottom']}\n  left := {k['left']}\n  right := {k['right']}\n"
        f"  pre := {k['pre']}\n"
        f"  guard := {k['guard']}\n"
        f"  body :=\n {k['body']}\n}}\n"
    )


def emit_untranslatable(lean_name, qual, why):
    why = "untranslatable: " + why
    return (
        f"def {lean_name} : Kernel := {{\n"
        f"  name := {lean_str(qual)}\n  arrays := []\n  scalars := []\n  vectors := []\n  fill := .nan\n"
        f"  top := 0\n  bottom := 0\n  left := 0\n  right := 0\n  pre := S.skip\n  guard := C.tt\n"
        f"  body := S.fail {lean_str(why)}\n}}\n"
    )


# (lean name, file relative to repo, function, kind)
KERNELS = [
    ("slope_cpu", "xrspatial/slope.py", "_cpu", "grid"),
    ("aspect_cpu", "xrspatial/aspect.py", "_run_numpy", "grid"),
    ("curvature_cpu", "xrspatial/curvature.py", "_cpu", "grid"),
    ("arvi_cpu", "xrspatial/multispectral.py", "_arvi_cpu", "grid"),
    ("evi_cpu", "xrspatial/multispectral.py", "_evi_cpu", "grid"),
    ("gci_cpu", "xrspatial/multispectral.py", "_gci_cpu", "grid"),
    ("normalized_ratio_cpu", "xrspatial/multispectral.py", "_normalized_ratio_cpu", "grid"),
    ("savi_cpu", "xrspatial/multispectral.py", "_savi_cpu", "grid"),
    ("sipi_cpu", "xrspatial/multispectral.py", "_sipi_cpu", "grid"),
    ("ebbi_cpu", "xrspatial/multispectral.py", "_ebbi_cpu", "grid"),
    ("normalize_data_cpu", "xrspatial/multispectral.py", "_normalize_data_cpu", "grid"),
    ("binary_cpu", "xrspatial/classify.py", "_cpu_binary", "grid"),
    ("hotspots_cpu", "xrspatial/focal.py", "_calc_hotspots_numpy", "grid"),
    ("euclidean_distance", "xrspatial/proximity.py", "euclidean_distance", "scalar"),
    ("manhattan_distance", "xrspatial/proximity.py", "manhattan_distance", "scalar"),
    ("great_circle_distance", "xrspatial/proximity.py", "great_circle_distance", "scalar"),
    ("calc_direction", "xrspatial/proximity.py", "_calc_direction", "scalar"),
    ("dask_mean", "xrspatial/zonal.py", "_dask_mean", "scalar"),
    ("dask_std", "xrspatial/zonal.py", "_dask_std", "scalar"),
    ("dask_var", "xrspatial/zonal.py", "_dask_var", "scalar"),
    ("viewshed_vertical_ang", "xrspatial/viewshed.py", "_get_vertical_ang", "scalar"),
    ("true_color_alpha_numpy", "xrspatial/multispectral.py", "_true_color_numpy", ("where", "a", ["r"])),
    ("true_color_alpha_dask", "xrspatial/multispectral.py", "_true_color_dask", ("where", "alpha", ["r"])),
    ("proximity_is_target", "xrspatial/proximity.py", "_process_proximity_line", ("target_test",)),
    ("evi_validate", "xrspatial/multispectral.py", "evi", ("guards",)),
    ("savi_validate", "xrspatial/multispectral.py", "savi", ("guards",)),
]


def translate_kernels(repo):
    mods = {}
    out = ["import XrsVerif.Core.KLang",
           "/-! GENERATED by harness/translate.py from the current /repo source -- do not edit. -/",
           "namespace XrsVerif.Gen", "open XrsVerif", ""]
    report = {}
    names = []
    for lean_name, rel, fn, kind in KERNELS:
        path = os.path.join(repo, rel)
        qual = rel.replace("xrspatial/", "").replace(".py", "") + "." + fn
        try:
            if rel not in mods:
                mods[rel] = ast.parse(open(path).read())
            func = find_func(mods[rel], fn)
            if func is None:
                raise Untranslatable("function not found")
            tr = KernelTranslator(mods[rel], func)
            if kind == "grid":
                k = tr.grid_kernel()
            elif kind == "scalar":
                k = tr.scalar_kernel()
            elif kind[0] == "target_test":
                k = tr.target_test_kernel()
            elif kind[0] == "guards":
                k = tr.guards_kernel()
            else:
                k = tr.where_kernel(kind[1], kind[2])
            out.append(f"/-- `{qual}` ({rel}:{func.lineno}); casts dropped: {tr.casts} -/")
            out.append(emit_kernel(lean_name, qual, k))
            report[lean_name] = dict(ok=True, qual=qual, jit=jit_options(func), casts=tr.casts,
                                     arrays=k["arrays"], scalars=k["scalars"], vectors=k["vectors"],
                                     margins=[k["top"], k["bottom"], k["left"], k["right"]], fill=k["fill"])
        except (Untranslatable, OSError, SyntaxError) as ex:
            out.append(emit_untranslatable(lean_name, qual, str(ex)))
            report[lean_name] = dict(ok=False, qual=qual, why=str(ex))
        names.append(lean_name)
    out.append("def allKernels : List (String × Kernel) := [")
    out.append(",\n".join(f"  ({lean_str(n)}, {n})" for n in names))
    out.append("]\n")
    out.append("end XrsVerif.Gen")
    return "\n".join(out) + "\n", report


def write_if_changed(path, text):
    old = None
    if os.path.exists(path):
        old = open(path).read()
    if old != text:
        os.makedirs(os.path.dirname(path), exist_ok=True)
        with open(path, "w") as f:
            f.write(text)
        return True
    return False


def main(argv):
    repo, out = REPO, OUT
    if "--repo" in argv:
        repo = argv[argv.index("--repo") + 1]
    if "--out" in argv:
        out = argv[argv.index("--out") + 1]
    changed = []
    text, report = translate_kernels(repo)
    if write_if_changed(os.path.join(out, "Kernels.lean"), text):
        changed.append("Kernels.lean")
    import importlib
    fact_modules = ["translate_facts"] + sorted(f[:-3] for f in os.listdir(HERE)
                                                if f.startswith("facts_") and f.endswith(".py"))
    # which Gen files each facts module produced last time (kept in report.json): when a module crashes on a
    # source shape it was never written for, its files stay as they are on disk -- stale -- and the crash is
    # reported, so that the checks of the properties depending on them flag a broken obligation instead of
    # every check dying with an infrastructure error
    try:
        modules = json.load(open(os.path.join(out, "report.json"))).get("_modules", {})
    except (OSError, ValueError):
        modules = {}
    crashed = {}
    for mname in fact_modules:
        try:
            mod = importlib.import_module(mname)
            files = []
            for fname, ftext, frep in mod.generate(repo):
                if write_if_changed(os.path.join(out, fname), ftext):
                    changed.append(fname)
                report["facts:" + fname] = frep
                files.append(fname)
            modules[mname] = files
        except Exception:   # a translator bug / unforeseen source shape: contain it
            import traceback
            tb = traceback.format_exc().strip().splitlines()
            crashed[mname] = dict(error=tb[-1][:300], where=" | ".join(t.strip() for t in tb[-7:-1])[:600],
                                  files=modules.get(mname, []))
    report["_modules"] = modules
    if crashed:
        report["_crashed"] = crashed
    write_if_changed(os.path.join(out, "report.json"), json.dumps(report, indent=1, sort_keys=True) + "\n")
    print(json.dumps({"changed": changed, "crashed": crashed,
                      "untranslatable": [k for k, v in report.items()
                                         if not k.startswith("_") and isinstance(v, dict) and v.get("ok") is False]}))


if __name__ == "__main__":
    sys.path.insert(0, HERE)
    main(sys.argv[1:])
