"""
T2 facts of xrspatial/experimental/polygonize.py (C15): the Python glue between the public `polygonize()` and the
numba pipeline -- what happens to `raster.data`, `mask.data`, `transform` and `connectivity` before they reach
`_polygonize_numpy`, and what `_polygonize_numpy` does before / after `_scan`.

`polygonize()` is executed *abstractly*, once per raster dtype the wrapper accepts: every path through its
statements is followed (an `if` whose test is a recognised dtype test of the tracked array -- `np.issubdtype(x.dtype, np.<class>)`,
`x.dtype ==/!=/in ...`, `x.dtype.kind`, `x.dtype.itemsize`, and/or/not of these -- is evaluated with numpy itself; every other test forks the path and is remembered as an assumption;
`raise` ends a path), tracking for the four kernel arguments the chain of conversions applied to them
(`.astype(T)`, `np.asarray(x[, dtype=T])`, `np.ascontiguousarray`, `.copy()`; anything else is `other`).  At the
call of `_polygonize_numpy` the abstract values of the arguments are recorded:

  valuesAtKernel   raster dtype -> dtype of the values array at the kernel (the same dtype when no cast is applied)
  maskCast / transformCast   `.none` if the parameter reaches the kernel with its own dtype, `.to d` if cast
  transformDrops   source text of the conditions under which a transform that was supplied (not None) does not reach
                   the kernel (is replaced by None or by something that is not a conversion of it)
  connectivity8    source text of the third argument

`_polygonize_numpy`: the arguments of its `_scan` call, whether its only `return` hands back the result of that
call (no other way out), how the arrays are flattened, and the single-column (`nx == 1`) workaround.

A shape that is not recognised is never defaulted: `ok := false` (and the theorems of Props/C15.lean, section
"wrapper glue", do not check).
"""
import ast
import os
import re

from translate import call_name, find_func, lean_str, str_list

REL = "xrspatial/experimental/polygonize.py"
KERNEL = "_polygonize_numpy"
DTYPES = ["int8", "int16", "int32", "int64", "uint8", "uint16", "uint32", "uint64", "float32", "float64", "bool"]
LEAN_DT = {"int8": ".i8", "int16": ".i16", "int32": ".i32", "int64": ".i64", "uint8": ".u8", "uint16": ".u16",
           "uint32": ".u32", "uint64": ".u64", "float32": ".f32", "float64": ".f64", "bool": ".bool"}
CONVERSIONS = ("asarray", "asanyarray", "ascontiguousarray", "array")     # np.<f>(x[, dtype=T]): values kept unless dtype=
MAX_PATHS = 4000


# ------------------------------------------------------------------ abstract values
class AV:
    """kind: 'obj' (a DataArray parameter), 'data' (an array / sequence that came from a parameter), 'none',
    'expr' (a scalar expression of `connectivity`), 'other'"""

    def __init__(self, kind, origin=None, dtype=None, ops=(), text=None):
        self.kind, self.origin, self.dtype, self.ops, self.text = kind, origin, dtype, tuple(ops), text

    def key(self):
        return (self.kind, self.origin, self.dtype, self.ops, self.text)


NONE = AV("none")


def other(node):
    return AV("other", text=ast.unparse(node) if isinstance(node, ast.AST) else str(node))


def np_dtype_of(node):
    """`np.int64` / `'int64'` / `int` / `float` / `bool` / `np.dtype('f8')` -> canonical numpy dtype name or None"""
    import numpy as np
    try:
        if isinstance(node, ast.Attribute) and isinstance(node.value, ast.Name) and node.value.id in ("np", "numpy"):
            return np.dtype(getattr(np, node.attr)).name
        if isinstance(node, ast.Constant) and isinstance(node.value, str):
            return np.dtype(node.value).name
        if isinstance(node, ast.Name) and node.id in ("int", "float", "bool"):
            return np.dtype({"int": int, "float": float, "bool": bool}[node.id]).name
        if isinstance(node, ast.Call) and call_name(node.func) == "dtype" and len(node.args) == 1:
            return np_dtype_of(node.args[0])
    except (TypeError, AttributeError):
        return None
    return None


class State:
    def __init__(self, env, assume, isnone, trail):
        self.env, self.assume, self.isnone, self.trail = env, assume, isnone, trail

    def fork(self):
        return State(dict(self.env), dict(self.assume), dict(self.isnone), list(self.trail))


class Abstract:
    def __init__(self, func, raster_dtype):
        self.func = func
        self.params = [a.arg for a in func.args.args]
        self.raster_dtype = raster_dtype
        self.calls = []            # (args AVs, state) at every call of the kernel
        self.early_returns = []    # `return` reached before any kernel call
        self.problems = []
        self.paths = 0

    # ---- expressions
    def ev(self, e, st):
        if isinstance(e, ast.Constant) and e.value is None:
            return NONE
        if isinstance(e, ast.Name):
            if e.id in st.env:
                return st.env[e.id]
            return other(e)
        if isinstance(e, ast.Attribute) and e.attr in ("data", "values") and isinstance(e.value, ast.Name):
            base = self.ev(e.value, st)
            if base.kind == "obj":
                return AV("data", base.origin, self.raster_dtype if base.origin == "raster" else "same")
            return other(e)
        if isinstance(e, ast.IfExp):
            d = self.decide(e.test, st)
            if d is None:
                return other(e)
            return self.ev(e.body if d else e.orelse, st)
        if isinstance(e, ast.Call):
            fn = call_name(e.func)
            kws = {k.arg: k.value for k in e.keywords}
            if fn == "astype" and isinstance(e.func, ast.Attribute) and (e.args or "dtype" in kws):
                base = self.ev(e.func.value, st)
                tgt = np_dtype_of(e.args[0] if e.args else kws["dtype"])
                if base.kind == "data" and tgt in DTYPES and set(kws) <= {"dtype", "copy", "order", "casting", "subok"}:
                    return AV("data", base.origin, tgt, base.ops + (f"astype({tgt})",))
                return other(e)
            if fn in CONVERSIONS and isinstance(e.func, ast.Attribute) and isinstance(e.func.value, ast.Name) \
                    and e.func.value.id in ("np", "numpy") and len(e.args) >= 1 and set(kws) <= {"dtype", "copy", "order"}:
                base = self.ev(e.args[0], st)
                dt = e.args[1] if len(e.args) == 2 else kws.get("dtype")
                if len(e.args) > 2 or base.kind != "data":
                    return other(e)
                if dt is None or (isinstance(dt, ast.Constant) and dt.value is None):
                    return AV("data", base.origin, base.dtype, base.ops + (f"np.{fn}",))
                tgt = np_dtype_of(dt)
                if tgt in DTYPES:
                    return AV("data", base.origin, tgt, base.ops + (f"np.{fn}(dtype={tgt})",))
                return other(e)
            if fn == "copy" and isinstance(e.func, ast.Attribute) and not e.args and not kws:
                base = self.ev(e.func.value, st)
                if base.kind == "data":
                    return AV("data", base.origin, base.dtype, base.ops + ("copy",))
            return other(e)
        if isinstance(e, ast.Compare) and len(e.ops) == 1 and isinstance(e.left, ast.Name):
            base = self.ev(e.left, st)
            if base.kind == "data" and base.origin == "connectivity" and not base.ops:
                return AV("expr", "connectivity", text=ast.unparse(e))
        return other(e)

    # ---- tests
    def decide(self, t, st):
        """True / False / None (unknown: the caller forks)"""
        txt = ast.unparse(t)
        if txt in st.assume:
            return st.assume[txt]
        if isinstance(t, ast.UnaryOp) and isinstance(t.op, ast.Not):
            d = self.decide(t.operand, st)
            return None if d is None else not d
        if isinstance(t, ast.BoolOp):
            ds = [self.decide(v, st) for v in t.values]
            if isinstance(t.op, ast.And):
                return False if False in ds else (True if all(d is True for d in ds) else None)
            return True if True in ds else (False if all(d is False for d in ds) else None)
        if isinstance(t, ast.Compare) and len(t.ops) == 1 and isinstance(t.ops[0], (ast.Is, ast.IsNot)) \
                and isinstance(t.comparators[0], ast.Constant) and t.comparators[0].value is None:
            v = self.ev(t.left, st)
            isnot = isinstance(t.ops[0], ast.IsNot)
            if v.kind == "none":
                return not isnot
            if v.kind in ("obj", "data"):
                if v.ops or v.origin == "raster" or (v.kind == "data" and v.origin == "mask"):
                    return isnot                      # a converted array / raster.data / mask.data is not None
                if v.origin in st.isnone:
                    return st.isnone[v.origin] != isnot
            return None
        # dtype tests of a tracked array with a concrete dtype
        import numpy as np

        def concrete(node):
            if isinstance(node, ast.Attribute) and node.attr == "dtype":
                v = self.ev(node.value, st)
                if v.kind == "data" and v.dtype in DTYPES:
                    return v.dtype
            return None
        if isinstance(t, ast.Call) and call_name(t.func) == "issubdtype" and len(t.args) == 2 and not t.keywords:
            d = concrete(t.args[0])
            cls = t.args[1]
            if d and isinstance(cls, ast.Attribute) and isinstance(cls.value, ast.Name) and cls.value.id in ("np", "numpy") \
                    and hasattr(np, cls.attr):
                try:
                    return bool(np.issubdtype(np.dtype(d), getattr(np, cls.attr)))
                except TypeError:
                    return None
        if isinstance(t, ast.Compare) and len(t.ops) == 1:
            d = concrete(t.left)
            op, rhs = t.ops[0], t.comparators[0]
            if d and isinstance(op, (ast.Eq, ast.NotEq)):
                r = np_dtype_of(rhs)
                if r:
                    return (d == r) == isinstance(op, ast.Eq)
            if d and isinstance(op, (ast.In, ast.NotIn)) and isinstance(rhs, (ast.Tuple, ast.List, ast.Set)):
                rs = [np_dtype_of(x) for x in rhs.elts]
                if all(rs):
                    return (d in rs) == isinstance(op, ast.In)
            if isinstance(t.left, ast.Attribute) and t.left.attr == "itemsize" and isinstance(rhs, ast.Constant) \
                    and isinstance(rhs.value, int):
                d = concrete(t.left.value)
                cmp = {ast.Lt: lambda x, y: x < y, ast.LtE: lambda x, y: x <= y, ast.Gt: lambda x, y: x > y,
                       ast.GtE: lambda x, y: x >= y, ast.Eq: lambda x, y: x == y, ast.NotEq: lambda x, y: x != y}.get(type(op))
                if d and cmp:
                    return cmp(np.dtype(d).itemsize, rhs.value)
            if isinstance(t.left, ast.Attribute) and t.left.attr == "kind":
                d = concrete(t.left.value)
                if d and isinstance(rhs, ast.Constant) and isinstance(rhs.value, str):
                    k = np.dtype(d).kind
                    if isinstance(op, (ast.In, ast.NotIn)):
                        return (k in rhs.value) == isinstance(op, ast.In)
                    if isinstance(op, (ast.Eq, ast.NotEq)):
                        return (k == rhs.value) == isinstance(op, ast.Eq)
        return None

    def assume(self, t, st, val):
        st.assume[ast.unparse(t)] = val
        st.trail.append((ast.unparse(t), val))
        if isinstance(t, ast.Compare) and len(t.ops) == 1 and isinstance(t.ops[0], (ast.Is, ast.IsNot)) \
                and isinstance(t.comparators[0], ast.Constant) and t.comparators[0].value is None:
            v = self.ev(t.left, st)
            if v.kind in ("obj", "data") and not v.ops:
                st.isnone[v.origin] = (val != isinstance(t.ops[0], ast.IsNot))

    # ---- statements
    def assigned(self, st, name):
        for k in [k for k in st.assume if re.search(r"\b%s\b" % re.escape(name), k)]:
            del st.assume[k]

    def kernel_call(self, node):
        return isinstance(node, ast.Call) and call_name(node.func) == KERNEL

    def run(self, stmts, states):
        """returns the states that fall through the end of `stmts`"""
        for s in stmts:
            nxt = []
            for st in states:
                nxt += self.stmt(s, st)
            states = nxt
            self.paths = max(self.paths, len(states))
            if len(states) > MAX_PATHS:
                self.problems.append("too many paths")
                return []
        return states

    def stmt(self, s, st):
        if isinstance(s, ast.Expr) and isinstance(s.value, ast.Constant):
            return [st]
        if isinstance(s, (ast.Import, ast.ImportFrom, ast.Pass, ast.Assert)):
            return [st]
        if isinstance(s, ast.Raise):
            return []
        if isinstance(s, ast.Return):
            if not st.env.get("#called"):
                self.early_returns.append(ast.unparse(s))
            return []
        if isinstance(s, ast.If):
            d = self.decide(s.test, st)
            if d is True:
                return self.run(s.body, [st])
            if d is False:
                return self.run(s.orelse, [st])
            a, b = st.fork(), st.fork()
            self.assume(s.test, a, True)
            self.assume(s.test, b, False)
            return self.run(s.body, [a]) + self.run(s.orelse, [b])
        if isinstance(s, ast.Assign) and len(s.targets) == 1:
            tg, val = s.targets[0], s.value
            if self.kernel_call(val):
                self.record(val, st)
                for n in ast.walk(tg):
                    if isinstance(n, ast.Name):
                        st.env[n.id] = AV("other", text="result of " + KERNEL)
                return [st]
            if isinstance(tg, ast.Name):
                v = self.ev(val, st)
                self.assigned(st, tg.id)
                st.env[tg.id] = v
                return [st]
            # subscript / attribute / tuple target: whatever is stored to there is no longer what it was
            for n in ast.walk(tg):
                if isinstance(n, ast.Name) and isinstance(n.ctx, ast.Store):
                    st.env[n.id] = other(s)
                    self.assigned(st, n.id)
            if isinstance(tg, (ast.Subscript, ast.Attribute)):
                base = tg.value
                while isinstance(base, (ast.Subscript, ast.Attribute)):
                    base = base.value
                if isinstance(base, ast.Name) and base.id in st.env:
                    st.env[base.id] = other(s)
            return [st]
        if isinstance(s, ast.Expr) and self.kernel_call(s.value):
            self.record(s.value, st)
            return [st]
        # anything else (loops, with, try, augmented assignment, bare calls): every tracked name it stores to or
        # passes to a call may have changed
        for n in ast.walk(s):
            if self.kernel_call(n):
                self.problems.append("kernel called inside " + type(s).__name__)
            if isinstance(n, ast.Name) and isinstance(n.ctx, ast.Store) and n.id in st.env:
                st.env[n.id] = other(s)
                self.assigned(st, n.id)
        if isinstance(s, (ast.For, ast.While, ast.With, ast.Try, ast.AugAssign)):
            for n in ast.walk(s):
                if isinstance(n, ast.Name) and n.id in st.env and st.env[n.id].kind in ("data", "expr") \
                        and st.env[n.id].origin in ("raster", "mask", "transform"):
                    if isinstance(s, ast.AugAssign) and not (isinstance(s.target, ast.Name) and s.target.id == n.id):
                        continue
                    st.env[n.id] = other(s)
        return [st]

    def record(self, call, st):
        args = [self.ev(a, st) for a in call.args]
        if call.keywords or len(args) != 4:
            self.problems.append("kernel call with keywords / not 4 positional arguments: " + ast.unparse(call))
        self.calls.append((args, st.fork()))
        st.env["#called"] = True

    def go(self):
        env = {}
        for p in self.params:
            if p in ("raster", "mask"):
                env[p] = AV("obj", p)
            elif p in ("transform", "connectivity"):
                env[p] = AV("data", p, "same")
            else:
                env[p] = AV("other", text="parameter " + p)
        self.run(self.func.body, [State(env, {}, {}, [])])
        return self


# ------------------------------------------------------------------ the wrapper
def wrapper_facts(mod):
    rep = dict(ok=False, problems=[])
    f = find_func(mod, "polygonize")
    if f is None:
        rep["problems"].append("no function polygonize")
        return rep
    params = [a.arg for a in f.args.args]
    rep["params"] = params
    if params[:4] != ["raster", "mask", "connectivity", "transform"]:
        rep["problems"].append("unexpected parameters " + str(params))
        return rep
    ncalls = sum(1 for n in ast.walk(f) if isinstance(n, ast.Call) and call_name(n.func) == KERNEL)
    if ncalls != 1:
        rep["problems"].append(f"{ncalls} calls of {KERNEL}")
    at_kernel, value_ops, mask_ops, tr_ops, drops = {}, [], [], [], []
    mask_cast, tr_cast = set(), set()
    conn, arg_text = set(), None
    kept_paths, dropped_paths = [], []
    for n in ast.walk(f):
        if isinstance(n, ast.Call) and call_name(n.func) == KERNEL:
            arg_text = [ast.unparse(a) for a in n.args]
    for d in DTYPES:
        ab = Abstract(f, d).go()
        rep["problems"] += [p for p in ab.problems if p not in rep["problems"]]
        if ab.early_returns:
            rep["problems"].append(f"return before {KERNEL}: " + "; ".join(sorted(set(ab.early_returns)))[:200])
        if not ab.calls:
            rep["problems"].append(f"no path reaches {KERNEL} for a {d} raster")
            continue
        seen = set()
        for args, st in ab.calls:
            if len(args) != 4:
                continue
            v, m, c, t = args
            # values
            if v.kind == "data" and v.origin == "raster" and v.dtype in DTYPES:
                seen.add(v.dtype)
                value_ops += [o for o in v.ops if o not in value_ops]
            else:
                seen.add("?")
                rep["problems"].append(f"values argument is not a conversion of raster.data: {v.text or v.key()}")
            # mask
            mask_given = st.isnone.get("mask") is False
            if mask_given:
                if m.kind == "data" and m.origin == "mask":
                    mask_cast.add(m.dtype)
                    mask_ops += [o for o in m.ops if o not in mask_ops]
                else:
                    mask_cast.add("?")
                    rep["problems"].append(f"a supplied mask does not reach the kernel: {m.text or m.key()}")
            elif st.isnone.get("mask") is True:
                if m.kind != "none":
                    rep["problems"].append(f"mask=None but the kernel gets {m.text or m.key()}")
            else:
                rep["problems"].append("a path on which `mask is None` was never tested")
            # connectivity
            conn.add(c.text if c.kind == "expr" else "?" + str(c.text))
            # transform
            given = st.isnone.get("transform")
            if given is False:
                if t.kind == "data" and t.origin == "transform":
                    tr_cast.add(t.dtype)
                    tr_ops += [o for o in t.ops if o not in tr_ops]
                    kept_paths.append([(c_, val) for c_, val in st.trail if re.search(r"\btransform\b", c_)])
                else:
                    dropped_paths.append([(c_, val) for c_, val in st.trail if re.search(r"\btransform\b", c_)])
            elif given is True:
                if not (t.kind == "none" or (t.kind == "data" and t.origin == "transform" and not t.ops)):
                    rep["problems"].append(f"transform=None but the kernel gets {t.text or t.key()}")
            else:
                # never tested for None: it must be the untouched parameter
                if not (t.kind == "data" and t.origin == "transform"):
                    drops.append("always")
                else:
                    tr_cast.add(t.dtype)
                    tr_ops += [o for o in t.ops if o not in tr_ops]
        at_kernel[d] = sorted(seen)
    # a dropping path is described by the conditions that do not hold on every path that keeps the transform
    common = set(kept_paths[0]).intersection(*map(set, kept_paths[1:])) if kept_paths else set()
    for tr in dropped_paths:
        conds = [(c_ if val else f"not ({c_})") for c_, val in tr if (c_, val) not in common]
        txt = " and ".join(conds) if conds else "always"
        if txt not in drops:
            drops.append(txt)
    rep["problems"] = sorted(set(" ".join(p.split()) for p in rep["problems"]))
    rep.update(kernel_args=arg_text, values_at_kernel=at_kernel, value_ops=value_ops, mask_cast=sorted(mask_cast), mask_ops=mask_ops,
               transform_cast=sorted(tr_cast), transform_ops=tr_ops, transform_drops=drops, connectivity8=sorted(conn))
    single = all(len(v) == 1 and v[0] in DTYPES for v in at_kernel.values()) and len(at_kernel) == len(DTYPES)
    rep["ok"] = bool(not rep["problems"] and single and len(mask_cast) == 1 and "?" not in mask_cast and len(tr_cast) <= 1
                     and "?" not in tr_cast and len(conn) == 1 and not list(conn)[0].startswith("?"))
    return rep


# ------------------------------------------------------------------ _polygonize_numpy
def numpy_facts(mod):
    rep = dict(ok=False, problems=[], scan_args=[], returns_scan=False, flatten=[], single_column=None)
    f = find_func(mod, KERNEL)
    if f is None:
        rep["problems"].append("no function " + KERNEL)
        return rep
    params = [a.arg for a in f.args.args]
    rep["params"] = params
    # the `_scan` call and the returns
    scan_targets, scan_args = None, None
    top_level_scan = False
    for st in f.body:
        if isinstance(st, ast.Assign) and isinstance(st.value, ast.Call) and call_name(st.value.func) == "_scan":
            top_level_scan = True
    nscan = 0
    for n in ast.walk(f):
        if isinstance(n, ast.Assign) and isinstance(n.value, ast.Call) and call_name(n.value.func) == "_scan":
            nscan += 1
            scan_args = [ast.unparse(a) for a in n.value.args] + [f"{k.arg}={ast.unparse(k.value)}" for k in n.value.keywords]
            scan_targets = ast.unparse(n.targets[0])
    rets = [n for n in ast.walk(f) if isinstance(n, ast.Return)]
    rep["scan_args"] = scan_args or []
    rep["returns"] = [ast.unparse(r) for r in rets]
    if nscan != 1 or not top_level_scan:
        rep["problems"].append(f"{nscan} `_scan` calls / not at the top level of the function")
    # the only return is the last statement and returns what the `_scan` call bound
    rep["returns_scan"] = bool(nscan == 1 and top_level_scan and len(rets) == 1 and f.body and f.body[-1] is rets[0]
                               and rets[0].value is not None and ast.unparse(rets[0].value) == scan_targets)
    # parameters that reach `_scan` under their own name must not be re-bound, except values / mask / nx by the
    # recognised statements below
    allowed = set()
    flatten = []
    single = None
    for st in f.body:
        txt = ast.unparse(st)
        if isinstance(st, ast.Assign) and txt in ("ny, nx = values.shape", "(ny, nx) = values.shape"):
            allowed.add(id(st))
        elif isinstance(st, ast.Assign) and isinstance(st.value, ast.Call) and call_name(st.value.func) == "ravel" \
                and isinstance(st.targets[0], ast.Name) and isinstance(st.value.func, ast.Attribute) \
                and ast.unparse(st.value.func.value) == st.targets[0].id:
            flatten.append(ast.unparse(st.value))
            allowed.add(id(st))
        elif isinstance(st, ast.If) and ast.unparse(st.test) == "mask is not None" and len(st.body) == 1 and not st.orelse \
                and isinstance(st.body[0], ast.Assign) and ast.unparse(st.body[0].targets[0]) == "mask" \
                and isinstance(st.body[0].value, ast.Call) and call_name(st.body[0].value.func) == "ravel" \
                and ast.unparse(st.body[0].value.func.value) == "mask":
            flatten.append(ast.unparse(st.body[0].value))
            allowed.add(id(st))
        elif isinstance(st, ast.If) and ast.unparse(st.test) in ("nx == 1", "1 == nx"):
            single = single_column(st, rep)
            allowed.add(id(st))
        elif isinstance(st, ast.Assign) and isinstance(st.value, ast.Call) and call_name(st.value.func) == "_scan":
            allowed.add(id(st))
        elif isinstance(st, ast.Return) or (isinstance(st, ast.Expr) and isinstance(st.value, ast.Constant)):
            allowed.add(id(st))
    extra = [ast.unparse(st)[:80] for st in f.body if id(st) not in allowed]
    if extra:
        rep["problems"].append("statements not recognised: " + " ;; ".join(extra)[:300])
    rep["flatten"] = flatten
    rep["single_column"] = single
    rep["problems"] = sorted(set(" ".join(p.split()) for p in rep["problems"]))
    rep["ok"] = bool(not rep["problems"] and rep["returns_scan"] and single is not None and single.get("ok"))
    return rep


def single_column(node, rep):
    """the body of `if nx == 1:`"""
    out = dict(ok=False, new_nx=0, values_pad_right=False, mask_pad_right=False, mask_pad_value=True, no_mask_kept_column=99,
               no_mask_default=True, text=ast.unparse(node)[:600])
    if node.orelse:
        return out
    seen = set()
    for st in node.body:
        txt = ast.unparse(st)
        if isinstance(st, ast.Assign) and ast.unparse(st.targets[0]) == "nx" and isinstance(st.value, ast.Constant) \
                and isinstance(st.value.value, int):
            out["new_nx"] = st.value.value
            seen.add("nx")
        elif txt == "values = np.hstack((values, np.empty_like(values)))":
            out["values_pad_right"] = True
            seen.add("values")
        elif txt == "values = np.hstack((np.empty_like(values), values))":
            out["values_pad_right"] = False
            seen.add("values")
        elif isinstance(st, ast.If) and ast.unparse(st.test) == "mask is not None" and len(st.body) == 1:
            b = ast.unparse(st.body[0])
            m = re.fullmatch(r"mask = np\.hstack\(\((mask|np\.(zeros|ones)_like\(mask\)), (mask|np\.(zeros|ones)_like\(mask\))\)\)", b)
            if m and (m.group(1) == "mask") != (m.group(3) == "mask"):
                out["mask_pad_right"] = m.group(1) == "mask"
                out["mask_pad_value"] = (m.group(4) if m.group(1) == "mask" else m.group(2)) == "ones"
                seen.add("mask-given")
            els = [ast.unparse(x) for x in st.orelse]
            if len(els) == 2:
                m0 = re.fullmatch(r"mask = np\.(zeros|ones)_like\(values, dtype=bool\)", els[0])
                m1 = re.fullmatch(r"mask\[:, (\d+)\] = (True|False)", els[1])
                if m0 and m1 and (m0.group(1) == "ones") != (m1.group(2) == "True"):
                    out["no_mask_default"] = m0.group(1) == "ones"
                    out["no_mask_kept_column"] = int(m1.group(1))
                    seen.add("mask-none")
        else:
            seen.add("?" + txt[:60])
    out["ok"] = seen == {"nx", "values", "mask-given", "mask-none"}
    if not out["ok"]:
        rep["problems"].append("single-column workaround not recognised: " + ", ".join(sorted(seen)))
    return out


# ------------------------------------------------------------------ Lean text
def lb(b):
    return "true" if b else "false"


def cast_lean(dts):
    """the set of dtypes a parameter has at the kernel -> `.none` (its own) / `.to d` / `.unknown`"""
    if list(dts) == ["same"]:
        return ".none"
    if len(dts) == 1 and list(dts)[0] in LEAN_DT:
        return f".to {LEAN_DT[list(dts)[0]]}"
    return ".unknown"


def generate(repo):
    mod = ast.parse(open(os.path.join(repo, REL)).read())
    w = wrapper_facts(mod)
    n = numpy_facts(mod)
    table = []
    for d in DTYPES:
        got = (w.get("values_at_kernel") or {}).get(d, [])
        if len(got) == 1 and got[0] in LEAN_DT:
            table.append(f"({LEAN_DT[d]}, {LEAN_DT[got[0]]})")
    sc = n.get("single_column")
    sc_lean = "none" if not sc else (
        "some { ok := %s, newNx := %d, valuesPadRight := %s, maskPadRight := %s, maskPadValue := %s, noMaskKeptColumn := %d, "
        "noMaskDefault := %s }" % (lb(sc["ok"]), sc["new_nx"], lb(sc["values_pad_right"]), lb(sc["mask_pad_right"]),
                                  lb(sc["mask_pad_value"]), sc["no_mask_kept_column"], lb(sc["no_mask_default"])))
    conn = w.get("connectivity8") or ["?"]
    out = ["import XrsVerif.Model.PolygonizeGlue",
           "/-! GENERATED by harness/facts_polygonize.py from xrspatial/experimental/polygonize.py (`polygonize`, "
           "`_polygonize_numpy`) -- do not edit. -/",
           "namespace XrsVerif.Gen.PolygonizeFacts", "open XrsVerif.Polygonize", "",
           "/-- the public `polygonize()`: what reaches `_polygonize_numpy` -/",
           "def wrapperFacts : WrapperFacts := {",
           f"  ok := {lb(w['ok'])}",
           f"  kernelArgs := {str_list(w.get('kernel_args') or [])}",
           "  /- raster dtype -> dtype of the values array handed to the kernel -/",
           f"  valuesAtKernel := [{', '.join(table)}]",
           f"  valueOps := {str_list(w.get('value_ops') or [])}",
           f"  maskCast := {cast_lean(w.get('mask_cast') or [])}",
           f"  maskOps := {str_list(w.get('mask_ops') or [])}",
           f"  transformCast := {cast_lean(w.get('transform_cast') or [])}",
           f"  transformOps := {str_list(w.get('transform_ops') or [])}",
           "  /- conditions under which a supplied transform does not reach the kernel -/",
           f"  transformDrops := {str_list(w.get('transform_drops') or [])}",
           f"  connectivity8 := {lean_str(conn[0] if len(conn) == 1 else '?')}",
           f"  problems := {str_list([p[:200] for p in w.get('problems', [])])} }}", "",
           "/-- `_polygonize_numpy`: flattening, the single-column workaround, the `_scan` call -/",
           "def numpyFacts : NumpyFacts := {",
           f"  ok := {lb(n['ok'])}",
           f"  scanArgs := {str_list(n.get('scan_args') or [])}",
           f"  returnsScanResult := {lb(n.get('returns_scan'))}",
           f"  flatten := {str_list(n.get('flatten') or [])}",
           f"  singleColumn := {sc_lean}",
           f"  problems := {str_list([p[:200] for p in n.get('problems', [])])} }}", "",
           "end XrsVerif.Gen.PolygonizeFacts", ""]
    rep = dict(ok=bool(w["ok"] and n["ok"]), wrapper=w, numpy=n)
    yield "PolygonizeFacts.lean", "\n".join(out), rep
