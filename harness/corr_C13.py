"""
C13 -- spectral indices equal their band formulas, NaN where undefined.

Tie:  G  the kernels and the wiring are regenerated from /repo (Gen/Kernels.lean, Gen/Indices.lean);
         the theorems of Props/C13.lean are about exactly those definitions.
      H  (validation of the translator) the public functions are run on generated bands and
         compared with the generated kernel executed by the Lean driver on the same f4-cast bands.
Search / oracle: the published formulas evaluated in exact rational arithmetic (independent of the
code and of the model), NaN exactly where the denominator is zero or a band is NaN, range /
antisymmetry / scale laws, parameter validation, true_color alpha.
"""
import json
import math
import os
from fractions import Fraction

import numpy as np
import xarray as xr

from common import LEAN, close, grid_tok, parse_grid, tok

PROP = "C13"

DTYPES = [np.uint8, np.uint16, np.int16, np.int32, np.int64, np.uint32, np.float32, np.float64]


def wiring():
    rep = json.load(open(os.path.join(LEAN, "XrsVerif", "Gen", "report.json")))
    return rep["facts:Indices.lean"], rep


# published formulas over Fractions; return None for "undefined (NaN)"
def nd(a, b):
    return None if a + b == 0 else (a - b) / (a + b)


FORMULAS = {
    "ndvi": (["nir_agg", "red_agg"], [], lambda b, s: nd(b[0], b[1])),
    "nbr": (["nir_agg", "swir2_agg"], [], lambda b, s: nd(b[0], b[1])),
    "nbr2": (["swir1_agg", "swir2_agg"], [], lambda b, s: nd(b[0], b[1])),
    "ndmi": (["nir_agg", "swir1_agg"], [], lambda b, s: nd(b[0], b[1])),
    "arvi": (["nir_agg", "red_agg", "blue_agg"], [],
             lambda b, s: None if b[0] + 2 * b[1] + b[2] == 0 else (b[0] - 2 * b[1] + b[2]) / (b[0] + 2 * b[1] + b[2])),
    "evi": (["nir_agg", "red_agg", "blue_agg"], ["c1", "c2", "soil_factor", "gain"],
            lambda b, s: None if b[0] + s[0] * b[1] - s[1] * b[2] + s[2] == 0
            else s[3] * (b[0] - b[1]) / (b[0] + s[0] * b[1] - s[1] * b[2] + s[2])),
    "gci": (["nir_agg", "green_agg"], [], lambda b, s: None if b[1] == 0 else b[0] / b[1] - 1),
    "savi": (["nir_agg", "red_agg"], ["soil_factor"],
             lambda b, s: None if (b[0] + b[1] + s[0]) * (1 + s[0]) == 0
             else (b[0] - b[1]) / ((b[0] + b[1] + s[0]) * (1 + s[0]))),
    "sipi": (["nir_agg", "red_agg", "blue_agg"], [],
             lambda b, s: None if b[0] - b[1] == 0 else (b[0] - b[2]) / (b[0] - b[1])),
    "ebbi": (["red_agg", "swir_agg", "tir_agg"], [], None),  # handled separately (sqrt)
}
NORMALISED = ["ndvi", "nbr", "nbr2", "ndmi"]


def gen_band(rng, shape, dtype, kind):
    h, w = shape
    n = h * w
    if kind == "zeros":
        vals = [0] * n
    elif kind == "small":
        vals = [rng.choice([0, 0, 1, 2, 3, 4, 5, 8, 16]) for _ in range(n)]
    elif kind == "wide":
        vals = [rng.randrange(0, 250) for _ in range(n)]
    else:  # dyadic
        vals = [rng.randrange(0, 64) / 8 for _ in range(n)]
    a = np.array(vals, dtype=np.float64).reshape(h, w)
    if np.issubdtype(dtype, np.integer):
        a = np.floor(a)
    a = a.astype(dtype)
    if np.issubdtype(dtype, np.floating) and rng.random() < 0.5:
        for _ in range(rng.randrange(0, 3)):
            a[rng.randrange(h), rng.randrange(w)] = np.nan
    return a


def mk(a):
    h, w = a.shape
    return xr.DataArray(a, dims=["y", "x"], coords={"y": np.arange(h, dtype=float), "x": np.arange(w, dtype=float)},
                        attrs={"res": (1, 1)})


def frac(v):
    return Fraction(float(v))


def call_index(fn, bands, scal):
    import xrspatial.multispectral as ms
    f = getattr(ms, fn)
    try:
        out = f(*[mk(b) for b in bands], **scal)
        return "ok", np.asarray(out.data)
    except ValueError as ex:
        return "ValueError", str(ex)
    except ZeroDivisionError as ex:
        return "ZeroDivisionError", str(ex)


def gen_scalars(rng, fn, valid=True):
    if fn == "evi":
        s = dict(c1=rng.choice([6.0, 0.0, 1.0, 2.5]), c2=rng.choice([7.5, 0.0, 1.0, 0.5]),
                 soil_factor=rng.choice([1.0, 0.0, -1.0, 0.5, -0.25]), gain=rng.choice([2.5, 0.0, 1.0, 4.0]))
        if not valid:
            which = rng.choice(["soil_hi", "soil_lo", "gain"])
            if which == "soil_hi":
                s["soil_factor"] = rng.choice([1.5, 1.0000001, 7.0])
            elif which == "soil_lo":
                s["soil_factor"] = rng.choice([-1.5, -1.0000001, -3.0])
            else:
                s["gain"] = rng.choice([-0.5, -1e-9, -3.0])
        return s
    if fn == "savi":
        s = dict(soil_factor=rng.choice([1.0, 0.0, -1.0, 0.5, -0.5, 0.25]))
        if not valid:
            s["soil_factor"] = rng.choice([1.5, -1.5, 1.0000001, -1.0000001, 9.0])
        return s
    return {}


def oracle_index(fn, bands, scal, status, out):
    """returns None or a description of how the property fails on the real output"""
    names, snames, formula = FORMULAS[fn]
    if fn in ("evi", "savi"):
        sf = scal["soil_factor"]
        bad = sf > 1.0 or sf < -1.0 or (fn == "evi" and scal["gain"] < 0)
        if bad:
            return None if status == "ValueError" else f"{fn}: invalid parameters {scal} accepted"
    if status != "ok":
        return f"{fn}: raised {status}: {out}"
    if out.dtype != np.float32:
        return f"{fn}: output dtype {out.dtype}, expected float32 (single precision)"
    f4 = [np.asarray(b).astype("f4") for b in bands]
    h, w = out.shape
    for i in range(h):
        for j in range(w):
            vals = [float(b[i, j]) for b in f4]
            got = float(out[i, j])
            if any(v != v for v in vals):
                if got == got:
                    return f"{fn}: NaN band at ({i},{j}) gave {got}"
                continue
            bv = [frac(v) for v in vals]
            sv = [frac(scal[s]) for s in snames]
            if fn == "ebbi":
                den2 = bv[1] + bv[2]
                if den2 < 0:
                    continue  # sqrt of a negative: outside the formula's domain
                exp = None if den2 == 0 else float(bv[1] - bv[0]) / (10 * math.sqrt(float(den2)))
            else:
                exp = formula(bv, sv)
                exp = None if exp is None else float(exp)
            if exp is None:
                if got == got:
                    return f"{fn}: zero denominator at ({i},{j}) bands={vals} scal={scal} gave {got}, expected NaN"
            else:
                if math.isinf(got):
                    return f"{fn}: +-inf at ({i},{j}) bands={vals}"
                if not close(got, exp, rel=1e-5, abs_=1e-6):
                    return f"{fn}: at ({i},{j}) bands={vals} scal={scal} got {got}, formula gives {exp}"
                if fn in NORMALISED and all(v >= 0 for v in vals) and not (-1.0 <= got <= 1.0):
                    return f"{fn}: value {got} outside [-1,1] for non-negative bands {vals}"
    return None


def oracle_laws(fn, bands, out):
    """antisymmetry and power-of-two scale invariance of the normalised differences"""
    st, sw = call_index(fn, [bands[1], bands[0]], {})
    if st != "ok":
        return f"{fn}: swapped call raised {st}"
    a, b = out, sw
    ok = np.where(np.isnan(a), np.isnan(b), a == -b)
    if not ok.all():
        idx = tuple(int(t) for t in np.argwhere(~ok)[0])
        return f"{fn}: not antisymmetric at {idx}: {a[idx]} vs swapped {b[idx]}"
    if np.issubdtype(bands[0].dtype, np.floating):
        for k in (4.0, 0.25):
            st, sc = call_index(fn, [bands[0] * k, bands[1] * k], {})
            if st != "ok":
                return f"{fn}: scaled call raised {st}"
            ok = np.where(np.isnan(a), np.isnan(sc), a == sc)
            if not ok.all():
                idx = tuple(int(t) for t in np.argwhere(~ok)[0])
                return f"{fn}: not invariant under scaling by {k} at {idx}: {a[idx]} vs {sc[idx]}"
    return None


def model_request(kernel, kinfo, bands, scal_in_kernel_order):
    h, w = bands[0].shape
    parts = [f"kernel name={kernel} rows={h} cols={w}"]
    for nm, b in zip(kinfo["arrays"], bands):
        parts.append(f"a:{nm}={grid_tok(np.asarray(b).astype('f4').astype(np.float64))}")
    for nm, v in zip(kinfo["scalars"], scal_in_kernel_order):
        parts.append(f"s:{nm}={tok(float(v))}")
    return " ".join(parts)


def make_case(rng, fn, valid=True):
    names, snames, _ = FORMULAS[fn]
    shape = (rng.randrange(1, 5), rng.randrange(1, 6))
    dtype = rng.choice(DTYPES)
    kind = rng.choice(["small", "small", "dyadic", "wide", "zeros"])
    bands = [gen_band(rng, shape, dtype, kind) for _ in names]
    if rng.random() < 0.3 and len(bands) >= 2:
        bands[1] = bands[0].copy()  # equal bands -> zero numerators / denominators
    return dict(fn=fn, bands=bands, scal=gen_scalars(rng, fn, valid), dtype=np.dtype(dtype).name, kind=kind)


def case_json(c):
    return dict(fn=c["fn"], dtype=c["dtype"], scal=c["scal"],
                bands=[[[tok(v) for v in row] for row in b.tolist()] for b in c["bands"]])


def case_from_json(j):
    bands = [np.array([[_un(t) for t in row] for row in b], dtype=np.float64).astype(j["dtype"])
             for b in j["bands"]]
    return dict(fn=j["fn"], bands=bands, scal=j["scal"], dtype=j["dtype"], kind="replay")


def _un(t):
    from common import untok
    return untok(t)


# ---------------------------------------------------------------- true_color
def gen_true_color(rng):
    shape = (rng.randrange(1, 5), rng.randrange(1, 5))
    dtype = rng.choice([np.float32, np.float64, np.uint8, np.int32])
    bands = [gen_band(rng, shape, dtype, rng.choice(["small", "wide", "dyadic"])) for _ in range(3)]
    nodata = rng.choice([1, 0, 2, 0.5, -1])
    return dict(fn="true_color", bands=bands, scal=dict(nodata=nodata), dtype=np.dtype(dtype).name, kind="tc")


def run_true_color(c, backend="numpy"):
    import dask.array as da
    from xrspatial.multispectral import true_color
    rs = []
    for b in c["bands"]:
        d = mk(b)
        if backend == "dask":
            d.data = da.from_array(b, chunks=(max(1, b.shape[0] // 2), max(1, b.shape[1] // 2)))
        rs.append(d)
    out = true_color(*rs, nodata=c["scal"]["nodata"])
    return np.asarray(out.data)


def oracle_true_color(c, out):
    r = c["bands"][0]
    if out.dtype != np.uint8 or out.shape != r.shape + (4,):
        return f"true_color: output {out.dtype}{out.shape}"
    rf = r.astype(np.float64)
    exp = np.where(np.isnan(rf) | (rf <= c["scal"]["nodata"]), 0, 255)
    if not (out[:, :, 3] == exp).all():
        idx = tuple(int(t) for t in np.argwhere(out[:, :, 3] != exp)[0])
        return f"true_color: alpha at {idx} is {out[idx + (3,)]} for red={r[idx]} nodata={c['scal']['nodata']}"
    return None


# ---------------------------------------------------------------- the check
def run(r, n_override=None):
    wir, rep = wiring()
    n_per = {"quick": 24, "thorough": 160}[r.tier] if n_override is None else n_override
    r.rule = ("per index: random shape<=4x5, dtype in uint8..float64, bands from small ints / dyadics / 0..250 / zeros, "
              "equal bands 30%, NaN cells for floats, valid and invalid soil_factor/gain; non-trivial = distinct "
              "(function, dtype, bands, scalars) with at least one defined and (when possible) one undefined cell")
    requests, pending = [], []
    for fn in FORMULAS:
        w = wir[fn]
        kinfo = rep.get(w["kernel"], {})
        for k in range(n_per):
            valid = (k % 6 != 5) if fn in ("evi", "savi") else True
            c = make_case(r.rng, fn, valid)
            status, out = call_index(fn, c["bands"], c["scal"])
            bad = oracle_index(fn, c["bands"], c["scal"], status, out)
            r.case(case_json(c), desc=case_json(c) if k == 0 else None, nontrivial=(c["kind"] != "zeros"),
                   tags=[f"fn:{fn}", f"dtype:{c['dtype']}", f"status:{status}", f"kind:{c['kind']}"])
            if bad:
                r.fail(f"{fn}:formula", bad, case_json(c))
                continue
            if status != "ok":
                continue
            r.tag("nan_cells", int(np.isnan(out).sum()))
            r.tag("defined_cells", int((~np.isnan(out)).sum()))
            if fn in NORMALISED and k % 3 == 0:
                bad = oracle_laws(fn, c["bands"], out)
                if bad:
                    r.fail(f"{fn}:laws", bad, case_json(c))
            # model request: bands in the wiring's order, scalars in the kernel's order
            if w["kernel"] != "?" and kinfo.get("ok"):
                pub = dict(zip(FORMULAS[fn][0], c["bands"]))
                try:
                    kb = [pub[p] for p in w["arrays"]]
                    ks = [c["scal"][p] for p in w["scalars"]]
                except KeyError:
                    r.disagree("wiring", case_json(c), f"wiring names {w}", "public parameters " + str(FORMULAS[fn][0]))
                    continue
                requests.append(model_request(w["kernel"], kinfo, kb, ks))
                pending.append((c, out))
    # true_color
    for k in range(n_per):
        c = gen_true_color(r.rng)
        for backend in ("numpy", "dask"):
            out = run_true_color(c, backend)
            bad = oracle_true_color(c, out)
            r.case(dict(case_json(c), backend=backend), nontrivial=True, tags=["fn:true_color", f"backend:{backend}"])
            if bad:
                r.fail("true_color:alpha", bad + f" [{backend}]", case_json(c))
                continue
            kname = f"true_color_alpha_{backend}"
            if rep.get(kname, {}).get("ok"):
                h, w_ = c["bands"][0].shape
                requests.append(f"kernel name={kname} rows={h} cols={w_} "
                                f"a:r={grid_tok(c['bands'][0].astype(np.float64))} s:nodata={tok(float(c['scal']['nodata']))}")
                pending.append((dict(c, alpha=True), out[:, :, 3].astype(np.float64)))
    from common import Driver
    replies = Driver().ask(requests)
    for (c, out), rep_line, req in zip(pending, replies, requests):
        if not rep_line[:1].isdigit():
            r.disagree("kernel-vs-real", case_json(c), "real output", f"driver said {rep_line[:200]}")
            continue
        mg = parse_grid(rep_line)
        h, w_ = out.shape
        for i in range(h):
            for j in range(w_):
                if not close(float(out[i, j]), mg[i][j], rel=3e-6, abs_=1e-6):
                    r.disagree("kernel-vs-real", case_json(c), f"({i},{j}) real={float(out[i, j])}",
                               f"model={mg[i][j]} request={req[:300]}")
                    break
            else:
                continue
            break


def search(r):
    """something broke: look for a concrete failing input with the formula oracle on more cases"""
    run(r, n_override={"quick": 150, "thorough": 600}[r.tier])


def replay(r, body):
    c = case_from_json(body["case"])
    if c["fn"] == "true_color":
        bad = None
        for backend in ("numpy", "dask"):
            bad = bad or oracle_true_color(c, run_true_color(c, backend))
    else:
        status, out = call_index(c["fn"], c["bands"], c["scal"])
        bad = oracle_index(c["fn"], c["bands"], c["scal"], status, out)
        if not bad and status == "ok" and c["fn"] in NORMALISED:
            bad = oracle_laws(c["fn"], c["bands"], out)
    if bad:
        print("still fails:", bad)
        return 1
    print("does not fail on the current tree")
    return 0
