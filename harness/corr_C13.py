"""
C13 -- spectral indices equal their band formulas, NaN where undefined.

Tie:  G  the kernels and the wiring are regenerated from /repo (Gen/Kernels.lean, Gen/Indices.lean);
         the theorems of Props/C13.lean are about exactly those definitions.
      H  (validation of the translator) the public functions are run on generated bands and
         compared with the generated kernel executed by the Lean driver on the same f4-cast bands.
Search / oracle: the published formulas evaluated in exact rational arithmetic (independent of the
code and of the model), NaN exactly where the denominator is zero or a band is NaN, range /
antisymmetry / scale laws, parameter validation, true_color alpha.
"""
import json
import math
import os
from fractions import Fraction

import numpy as np
import xarray as xr

from common import LEAN, close, grid_tok, parse_grid, tok

PROP = "C13"

DTYPES = [np.uint8, np.uint16, np.int16, np.int32, np.int64, np.uint32, np.float32, np.float64]


def wiring():
    rep = json.load(open(os.path.join(LEAN, "XrsVerif", "Gen", "report.json")))
    return rep["facts:Indices.lean"], rep


# published formulas over Fractions; return None for "undefined (NaN)"
def nd(a, b):
    return None if a + b == 0 else (a - b) / (a + b)


FORMULAS = {
    "ndvi": (["nir_agg", "red_agg"], [], lambda b, s: nd(b[0], b[1])),
    "nbr": (["nir_agg", "swir2_agg"], [], lambda b, s: nd(b[0], b[1])),
    "nbr2": (["swir1_agg", "swir2_agg"], [], lambda b, s: nd(b[0], b[1])),
    "ndmi": (["nir_agg", "swir1_agg"], [], lambda b, s: nd(b[0], b[1])),
    "arvi": (["nir_agg", "red_agg", "blue_agg"], [],
             lambda b, s: None if b[0] + 2 * b[1] + b[2] == 0 else (b[0] - 2 * b[1] + b[2]) / (b[0] + 2 * b[1] + b[2])),
    "evi": (["nir_agg", "red_agg", "blue_agg"], ["c1", "c2", "soil_factor", "gain"],
            lambda b, s: None if b[0] + s[0] * b[1] - s[1] * b[2] + s[2] == 0
            else s[3] * (b[0] - b[1]) / (b[0] + s[0] * b[1] - s[1] * b[2] + s[2])),
    "gci": (["nir_agg", "green_agg"], [], lambda b, s: None if b[1] == 0 else b[0] / b[1] - 1),
    "savi": (["nir_agg", "red_agg"], ["soil_factor"],
             lambda b, s: None if (b[0] + b[1] + s[0]) * (1 + s[0]) == 0
             else (b[0] - b[1]) / ((b[0] + b[1] + s[0]) * (1 + s[0]))),
    "sipi": (["nir_agg", "red_agg", "blue_agg"], [],
             lambda b, s: None if b[0] - b[1] == 0 else (b[0] - b[2]) / (b[0] - b[1])),
    "ebbi": (["red_agg", "swir_agg", "tir_agg"], [], None),  # handled separately (sqrt)
}
NORMALISED = ["ndvi", "nbr", "nbr2", "ndmi"]


SIGNED_DTYPES = [np.int16, np.int32, np.int64, np.float32, np.float64]
# values at and just beyond the edges of the 8- and 16-bit types (all sums the kernels form from them stay exact in float32)
EDGES = {"uint8": [0, 1, 254, 255], "uint16": [0, 255, 256, 65534, 65535], "int16": [-32768, -32767, -1, 0, 255, 256, 32767],
         "wide": [-32769, -32768, -256, -1, 0, 255, 256, 32767, 32768, 65535, 65536, 100000]}
SIGN_KINDS = ["signed", "slightly-negative", "both-negative", "opposite"]


def gen_band(rng, shape, dtype, kind):
    """kinds: zeros / small / wide / dyadic (non-negative, as before); signed (-16..16, any sign per cell); both-negative;
    slightly-negative and opposite are made from these by `make_case`; edges: values at the edges of the band's own dtype.
    A kind the dtype cannot hold degrades to its absolute values (unsigned) / integers (integer dtypes)."""
    h, w = shape
    n = h * w
    dt = np.dtype(dtype)
    if kind == "zeros":
        vals = [0] * n
    elif kind == "small":
        vals = [rng.choice([0, 0, 1, 2, 3, 4, 5, 8, 16]) for _ in range(n)]
    elif kind == "wide":
        vals = [rng.randrange(0, 250) for _ in range(n)]
    elif kind == "signed":
        vals = [rng.randrange(-128, 129) / 8 if dt.kind == "f" else rng.randrange(-16, 17) for _ in range(n)]
    elif kind == "both-negative":
        vals = [-rng.choice([0, 1, 2, 3, 4, 5, 8, 16, 100]) for _ in range(n)]
    elif kind == "edges":
        pool = EDGES.get(dt.name, EDGES["wide"])
        if dt.kind == "u":
            pool = [v for v in pool if v >= 0]
        vals = [rng.choice(pool) for _ in range(n)]
    else:  # dyadic
        vals = [rng.randrange(0, 64) / 8 for _ in range(n)]
    a = np.array(vals, dtype=np.float64).reshape(h, w)
    if dt.kind == "u":
        a = np.abs(a)
    if np.issubdtype(dtype, np.integer):
        a = np.floor(a)
    a = a.astype(dtype)
    if np.issubdtype(dtype, np.floating) and rng.random() < 0.5:
        for _ in range(rng.randrange(0, 3)):
            a[rng.randrange(h), rng.randrange(w)] = np.nan
    return a


def mk(a):
    h, w = a.shape
    return xr.DataArray(a, dims=["y", "x"], coords={"y": np.arange(h, dtype=float), "x": np.arange(w, dtype=float)},
                        attrs={"res": (1, 1)})


def frac(v):
    return Fraction(float(v))


def call_index(fn, bands, scal):
    import xrspatial.multispectral as ms
    f = getattr(ms, fn)
    try:
        out = f(*[mk(b) for b in bands], **scal)
        return "ok", np.asarray(out.data)
    except ValueError as ex:
        return "ValueError", str(ex)
    except ZeroDivisionError as ex:
        return "ZeroDivisionError", str(ex)


def gen_scalars(rng, fn, valid=True):
    if fn == "evi":
        s = dict(c1=rng.choice([6.0, 0.0, 1.0, 2.5]), c2=rng.choice([7.5, 0.0, 1.0, 0.5]),
                 soil_factor=rng.choice([1.0, 0.0, -1.0, 0.5, -0.25]), gain=rng.choice([2.5, 0.0, 1.0, 4.0]))
        if not valid:
            which = rng.choice(["soil_hi", "soil_lo", "gain"])
            if which == "soil_hi":
                s["soil_factor"] = rng.choice([1.5, 1.0000001, 7.0])
            elif which == "soil_lo":
                s["soil_factor"] = rng.choice([-1.5, -1.0000001, -3.0])
            else:
                s["gain"] = rng.choice([-0.5, -1e-9, -3.0])
        return s
    if fn == "savi":
        s = dict(soil_factor=rng.choice([1.0, 0.0, -1.0, 0.5, -0.5, 0.25]))
        if not valid:
            s["soil_factor"] = rng.choice([1.5, -1.5, 1.0000001, -1.0000001, 9.0])
        return s
    return {}


def oracle_index(fn, bands, scal, status, out):
    """returns None or a description of how the property fails on the real output"""
    names, snames, formula = FORMULAS[fn]
    if fn in ("evi", "savi"):
        sf = scal["soil_factor"]
        bad = sf > 1.0 or sf < -1.0 or (fn == "evi" and scal["gain"] < 0)
        if bad:
            return None if status == "ValueError" else f"{fn}: invalid parameters {scal} accepted"
    if status != "ok":
        return f"{fn}: raised {status}: {out}"
    if out.dtype != np.float32:
        return f"{fn}: output dtype {out.dtype}, expected float32 (single precision)"
    f4 = [np.asarray(b).astype("f4") for b in bands]
    h, w = out.shape
    for i in range(h):
        for j in range(w):
            vals = [float(b[i, j]) for b in f4]
            got = float(out[i, j])
            if any(v != v for v in vals):
                if got == got:
                    return f"{fn}: NaN band at ({i},{j}) gave {got}"
                continue
            bv = [frac(v) for v in vals]
            sv = [frac(scal[s]) for s in snames]
            if fn == "ebbi":
                den2 = bv[1] + bv[2]
                if den2 < 0:
                    continue  # sqrt of a negative: outside the formula's domain
                exp = None if den2 == 0 else float(bv[1] - bv[0]) / (10 * math.sqrt(float(den2)))
            else:
                exp = formula(bv, sv)
                exp = None if exp is None else float(exp)
            if exp is None:
                if got == got:
                    return f"{fn}: zero denominator at ({i},{j}) bands={vals} scal={scal} gave {got}, expected NaN"
            else:
                if math.isinf(got):
                    return f"{fn}: +-inf at ({i},{j}) bands={vals}"
                if not close(got, exp, rel=1e-5, abs_=1e-6):
                    return f"{fn}: at ({i},{j}) bands={vals} scal={scal} got {got}, formula gives {exp}"
                if fn in NORMALISED and all(v >= 0 for v in vals) and not (-1.0 <= got <= 1.0):
                    return f"{fn}: value {got} outside [-1,1] for non-negative bands {vals}"
    return None


def oracle_laws(fn, bands, out):
    """antisymmetry and power-of-two scale invariance of the normalised differences"""
    st, sw = call_index(fn, [bands[1], bands[0]], {})
    if st != "ok":
        return f"{fn}: swapped call raised {st}"
    a, b = out, sw
    ok = np.where(np.isnan(a), np.isnan(b), a == -b)
    if not ok.all():
        idx = tuple(int(t) for t in np.argwhere(~ok)[0])
        return f"{fn}: not antisymmetric at {idx}: {a[idx]} vs swapped {b[idx]}"
    if np.issubdtype(bands[0].dtype, np.floating):
        for k in (4.0, 0.25):
            st, sc = call_index(fn, [bands[0] * k, bands[1] * k], {})
            if st != "ok":
                return f"{fn}: scaled call raised {st}"
            ok = np.where(np.isnan(a), np.isnan(sc), a == sc)
            if not ok.all():
                idx = tuple(int(t) for t in np.argwhere(~ok)[0])
                return f"{fn}: not invariant under scaling by {k} at {idx}: {a[idx]} vs {sc[idx]}"
    return None


def model_request(kernel, kinfo, bands, scal_in_kernel_order):
    h, w = bands[0].shape
    parts = [f"kernel name={kernel} rows={h} cols={w}"]
    for nm, b in zip(kinfo["arrays"], bands):
        parts.append(f"a:{nm}={grid_tok(np.asarray(b).astype('f4').astype(np.float64))}")
    for nm, v in zip(kinfo["scalars"], scal_in_kernel_order):
        parts.append(f"s:{nm}={tok(float(v))}")
    return " ".join(parts)


def make_case(rng, fn, valid=True):
    """band value classes: non-negative (zeros / small / wide / dyadic), sign classes (signed: any sign per cell;
    slightly-negative: non-negative bands, a few small negative cells in ONE band; both-negative; opposite: second band =
    minus the first, every denominator of a normalised difference zero), edges (values at the edges of each band's dtype);
    dtypes: one for all bands, or (35%, always for edges) each band its own -- uint8..int64, float32/64."""
    names, snames, _ = FORMULAS[fn]
    shape = (rng.randrange(1, 5), rng.randrange(1, 6))
    kind = rng.choice(["small", "small", "dyadic", "wide", "zeros", "edges", "edges"] + SIGN_KINDS)
    signed = kind in SIGN_KINDS
    mixed = kind == "edges" or rng.random() < 0.35
    pool = SIGNED_DTYPES if signed else DTYPES
    dtype = rng.choice(pool)
    dtypes = [rng.choice(pool) if mixed else dtype for _ in names]
    base_kind = {"slightly-negative": rng.choice(["small", "wide", "dyadic"]), "opposite": "signed"}.get(kind, kind)
    bands = [gen_band(rng, shape, dt, base_kind) for dt in dtypes]
    if kind == "slightly-negative":
        i = rng.randrange(len(bands))
        for _ in range(rng.randrange(1, 4)):
            y, x = rng.randrange(shape[0]), rng.randrange(shape[1])
            bands[i][y, x] = rng.choice([-1, -2, -0.125, -0.5]) if bands[i].dtype.kind == "f" else rng.choice([-1, -2, -3])
    elif kind == "opposite" and len(bands) >= 2:
        bands[1] = (-bands[0].astype(np.float64)).astype(bands[1].dtype)
    elif rng.random() < 0.3 and len(bands) >= 2 and not mixed:
        bands[1] = bands[0].copy()  # equal bands -> zero numerators / denominators
    return dict(fn=fn, bands=bands, scal=gen_scalars(rng, fn, valid), dtype=np.dtype(dtype).name,
                dtypes=[b.dtype.name for b in bands], kind=kind, mixed=len({b.dtype.name for b in bands}) > 1)


def case_json(c):
    return dict(fn=c["fn"], dtype=c["dtype"], dtypes=[b.dtype.name for b in c["bands"]], scal=c["scal"],
                bands=[[[tok(v) for v in row] for row in b.astype(np.float64).tolist()] for b in c["bands"]])


def case_from_json(j):
    dts = j.get("dtypes") or [j["dtype"]] * len(j["bands"])
    bands = [np.array([[_un(t) for t in row] for row in b], dtype=np.float64).astype(dt)
             for b, dt in zip(j["bands"], dts)]
    return dict(fn=j["fn"], bands=bands, scal=j["scal"], dtype=j["dtype"], kind="replay")


def _un(t):
    from common import untok
    return untok(t)


# ---------------------------------------------------------------- true_color
def gen_true_color(rng):
    shape = (rng.randrange(1, 5), rng.randrange(1, 5))
    dtype = rng.choice([np.float32, np.float64, np.uint8, np.int32])
    bands = [gen_band(rng, shape, dtype, rng.choice(["small", "wide", "dyadic"])) for _ in range(3)]
    nodata = rng.choice([1, 0, 2, 0.5, -1])
    return dict(fn="true_color", bands=bands, scal=dict(nodata=nodata), dtype=np.dtype(dtype).name, kind="tc")


def run_true_color(c, backend="numpy"):
    import dask.array as da
    from xrspatial.multispectral import true_color
    rs = []
    for b in c["bands"]:
        d = mk(b)
        if backend == "dask":
            d.data = da.from_array(b, chunks=(max(1, b.shape[0] // 2), max(1, b.shape[1] // 2)))
        rs.append(d)
    out = true_color(*rs, nodata=c["scal"]["nodata"])
    return np.asarray(out.data)


def oracle_true_color(c, out):
    r = c["bands"][0]
    if out.dtype != np.uint8 or out.shape != r.shape + (4,):
        return f"true_color: output {out.dtype}{out.shape}"
    rf = r.astype(np.float64)
    exp = np.where(np.isnan(rf) | (rf <= c["scal"]["nodata"]), 0, 255)
    if not (out[:, :, 3] == exp).all():
        idx = tuple(int(t) for t in np.argwhere(out[:, :, 3] != exp)[0])
        return f"true_color: alpha at {idx} is {out[idx + (3,)]} for red={r[idx]} nodata={c['scal']['nodata']}"
    return None


# ---------------------------------------------------------------- several Dask-backed indices in ONE graph
# "equals its band formula per cell" is a statement about the value of every index however it is computed: on
# Dask-backed bands the value only exists once the graph is evaluated, and a scene's indices are evaluated together
# (one dask.compute, one Dataset, ndvi - ndmi).  See harness/jointgraph.py.
def mk_dask(a, chunks):
    import dask.array as da
    d = mk(a)
    d.data = da.from_array(a, chunks=chunks)
    return d


def gen_jointgraph(rng, fn, modes):
    """the first call as `make_case` draws it; every other call differs from it in exactly one place: one band (each band in
    turn), one scalar parameter, nothing -- and may be handed to a sibling index with the same backend"""
    base = make_case(rng, fn, True)
    h, w = base["bands"][0].shape
    calls, dims = [dict(fn=fn, bands=list(base["bands"]), scal=dict(base["scal"]))], []
    for i in range(len(base["bands"])):
        for _ in range(8):
            nb = gen_band(rng, (h, w), base["bands"][i].dtype.type, rng.choice(["small", "dyadic", "wide", "signed"]))
            if not np.array_equal(nb, base["bands"][i], equal_nan=True):
                break
        else:
            continue
        bands = list(base["bands"])
        bands[i] = nb
        calls.append(dict(fn=fn, bands=bands, scal=dict(base["scal"])))
        dims.append(f"band:{i}")
    for k in rng.sample(sorted(base["scal"]), min(1, len(base["scal"]))):
        for _ in range(12):
            v = gen_scalars(rng, fn, True)[k]
            if v != base["scal"][k]:
                calls.append(dict(fn=fn, bands=list(base["bands"]), scal=dict(base["scal"], **{k: v})))
                dims.append(f"param:{k}")
                break
    calls.append(dict(fn=fn, bands=list(base["bands"]), scal=dict(base["scal"])))
    dims.append("identical")
    if fn in NORMALISED:
        for i in range(1, len(calls)):
            if rng.random() < 0.4:
                calls[i]["fn"] = rng.choice([f for f in NORMALISED if f != fn])
                dims[i - 1] += "+sibling"
    chunks = (rng.randrange(1, h + 1), rng.randrange(1, w + 1))
    return dict(calls=calls, dims=dims, modes=modes, chunks=list(chunks), dtype=base["dtype"],
                sched=rng.choice([["synchronous", None], ["threads", 4]]))


def jointgraph_json(g, mode):
    return dict(stream="joint-graph", dtype=g["dtype"], chunks=g["chunks"], sched=g["sched"], mode=mode, dims=g["dims"],
                calls=[dict(fn=c["fn"], scal=c["scal"], dtypes=[b.dtype.name for b in c["bands"]],
                            bands=[[[tok(v) for v in row] for row in b.astype(np.float64).tolist()] for b in c["bands"]])
                       for c in g["calls"]],
                note="these indices are called on Dask-backed bands and their lazy results evaluated in ONE graph (mode compute: "
                     "dask.compute(a.data, b.data, ...); dataset: xr.Dataset({...}).compute(); minus: (a - b).data.compute()); each "
                     "value must equal the band formula and the NumPy-backed call")


def jointgraph_from_json(j):
    calls = [dict(fn=c["fn"], scal=c["scal"],
                  bands=[np.array([[_un(t) for t in row] for row in b], dtype=np.float64).astype(dt)
                         for b, dt in zip(c["bands"], c.get("dtypes") or [j["dtype"]] * len(c["bands"]))])
             for c in j["calls"]]
    return dict(calls=calls, dims=j.get("dims", []), modes=[j["mode"]], chunks=j["chunks"], dtype=j["dtype"], sched=j["sched"])


def check_jointgraph(r, g):
    """-> number of failures reported"""
    import dask.array as da
    import jointgraph
    import xrspatial.multispectral as ms
    expected = []
    for c in g["calls"]:
        st, out = call_index(c["fn"], c["bands"], c["scal"])
        if st != "ok":
            r.tag("joint-graph:skipped(numpy call raises)")
            return 0
        expected.append(out)
    for mode in g["modes"]:
        lazies = [getattr(ms, c["fn"])(*[mk_dask(b, tuple(g["chunks"])) for b in c["bands"]], **c["scal"]) for c in g["calls"]]
        if not all(isinstance(z.data, da.Array) for z in lazies):
            r.tag("joint-graph:result-not-lazy")
            return 0
        eff = jointgraph.effective_mode(lazies, mode)
        key = jointgraph_json(g, mode)
        r.case(key, nontrivial=jointgraph.distinct(expected),
               tags=["stream:joint-graph", f"jg-mode:{eff}", f"jg-fn:{g['calls'][0]['fn']}", f"jg-size:{len(lazies)}"] +
                    sorted({"jg-differs-in:" + d.split(":")[0].split("+")[0] for d in g["dims"]}))
        try:
            kind, got = jointgraph.evaluate(lazies, eff, tuple(g["sched"]))
        except Exception as ex:  # noqa: BLE001
            r.fail(f"{g['calls'][0]['fn']}:joint-graph", f"evaluating {len(lazies)} lazy indices in one graph [{eff}] raised "
                   f"{type(ex).__name__}: {str(ex)[:200]}", key)
            return 1
        bad = None
        if kind == "each":
            for i, (c, e, v) in enumerate(zip(g["calls"], expected, got)):
                bad = oracle_index(c["fn"], c["bands"], c["scal"], "ok", v)
                if not bad and not jointgraph.same_cells(e.astype(np.float64), v.astype(np.float64)):
                    idx = tuple(int(t) for t in np.argwhere(~((e == v) | (np.isnan(e) & np.isnan(v))))[0]) if e.shape == v.shape else ()
                    bad = f"{c['fn']}: Dask value differs from the NumPy-backed call at {idx}"
                if bad:
                    bad = f"call #{i} ({c['fn']}, differs from call #0 in {g['dims'][i - 1] if i else 'nothing'}): " + bad
                    break
        else:
            for i, v in enumerate(got, start=1):
                d = jointgraph.minus_bad(expected[0], expected[i], v)
                if d:
                    bad = f"{g['calls'][0]['fn']} (call #0) - {g['calls'][i]['fn']} (call #{i}, differs in {g['dims'][i - 1]}): " + d
                    break
        if bad:
            r.fail(f"{g['calls'][0]['fn']}:joint-graph", f"{len(lazies)} lazy indices evaluated in one graph [{eff}]: " + bad, key)
            return 1
    return 0


def jointgraph_stream(r, per_fn, n_modes):
    import jointgraph
    k = r.rng.randrange(3)
    for fn in FORMULAS:
        for _ in range(per_fn):
            modes = [jointgraph.MODES[(k + i) % 3] for i in range(n_modes)]
            k += 1
            check_jointgraph(r, gen_jointgraph(r.rng, fn, modes))


# ---------------------------------------------------------------- the check
def run(r, n_override=None):
    wir, rep = wiring()
    n_per = {"quick": 24, "thorough": 160}[r.tier] if n_override is None else n_override
    r.rule = ("per index: random shape<=4x5; band value classes: non-negative (small ints / dyadics / 0..250 / zeros), sign classes "
              "(any sign per cell; a few small negative cells in one band; all negative; second band = minus the first), values at the "
              "edges of each band's dtype (0/255/256/65535/65536, -32768/-32769 ...); dtypes uint8..int64, float32/64 -- one for all "
              "bands or (35%, always for the edge class) each band its own; "
              "equal bands 30%, NaN cells for floats, valid and invalid soil_factor/gain; non-trivial = distinct "
              "(function, dtype, bands, scalars) with at least one defined and (when possible) one undefined cell; "
              "stream joint-graph: per index a group of calls on Dask-backed bands -- the first as above, the others differing "
              "from it in exactly one place (each band in turn, one scalar parameter, nothing; NDVI/NDMI/NBR/NBR2 swapped for one "
              "another 40%) -- whose lazy results are evaluated in ONE graph (dask.compute of all / xr.Dataset / a - b), each "
              "value judged by the formula oracle and against the NumPy-backed call; non-trivial = the expected results differ")
    requests, pending = [], []
    for fn in FORMULAS:
        w = wir[fn]
        kinfo = rep.get(w["kernel"], {})
        for k in range(n_per):
            valid = (k % 6 != 5) if fn in ("evi", "savi") else True
            c = make_case(r.rng, fn, valid)
            status, out = call_index(fn, c["bands"], c["scal"])
            bad = oracle_index(fn, c["bands"], c["scal"], status, out)
            r.case(case_json(c), desc=case_json(c) if k == 0 else None, nontrivial=(c["kind"] != "zeros"),
                   tags=[f"fn:{fn}", f"status:{status}", f"kind:{c['kind']}", "dtypes:" + ("mixed" if c["mixed"] else "one")] +
                        sorted({f"dtype:{d}" for d in c["dtypes"]}))
            if bad:
                r.fail(f"{fn}:formula", bad, case_json(c))
                continue
            if status != "ok":
                continue
            r.tag("nan_cells", int(np.isnan(out).sum()))
            r.tag("defined_cells", int((~np.isnan(out)).sum()))
            if fn in NORMALISED and k % 3 == 0:
                bad = oracle_laws(fn, c["bands"], out)
                if bad:
                    r.fail(f"{fn}:laws", bad, case_json(c))
            # model request: bands in the wiring's order, scalars in the kernel's order
            if w["kernel"] != "?" and kinfo.get("ok"):
                pub = dict(zip(FORMULAS[fn][0], c["bands"]))
                try:
                    kb = [pub[p] for p in w["arrays"]]
                    ks = [c["scal"][p] for p in w["scalars"]]
                except KeyError:
                    r.disagree("wiring", case_json(c), f"wiring names {w}", "public parameters " + str(FORMULAS[fn][0]))
                    continue
                requests.append(model_request(w["kernel"], kinfo, kb, ks))
                pending.append((c, out))
    # true_color
    for k in range(n_per):
        c = gen_true_color(r.rng)
        for backend in ("numpy", "dask"):
            out = run_true_color(c, backend)
            bad = oracle_true_color(c, out)
            r.case(dict(case_json(c), backend=backend), nontrivial=True, tags=["fn:true_color", f"backend:{backend}"])
            if bad:
                r.fail("true_color:alpha", bad + f" [{backend}]", case_json(c))
                continue
            kname = f"true_color_alpha_{backend}"
            if rep.get(kname, {}).get("ok"):
                h, w_ = c["bands"][0].shape
                requests.append(f"kernel name={kname} rows={h} cols={w_} "
                                f"a:r={grid_tok(c['bands'][0].astype(np.float64))} s:nodata={tok(float(c['scal']['nodata']))}")
                pending.append((dict(c, alpha=True), out[:, :, 3].astype(np.float64)))
    jointgraph_stream(r, per_fn={"quick": 2, "thorough": 12}[r.tier] if n_override is None else max(2, n_override // 25),
                      n_modes=2 if r.tier == "quick" else 3)
    from common import Driver
    replies = Driver().ask(requests)
    for (c, out), rep_line, req in zip(pending, replies, requests):
        if not rep_line[:1].isdigit():
            r.disagree("kernel-vs-real", case_json(c), "real output", f"driver said {rep_line[:200]}")
            continue
        mg = parse_grid(rep_line)
        h, w_ = out.shape
        for i in range(h):
            for j in range(w_):
                if not close(float(out[i, j]), mg[i][j], rel=3e-6, abs_=1e-6):
                    r.disagree("kernel-vs-real", case_json(c), f"({i},{j}) real={float(out[i, j])}",
                               f"model={mg[i][j]} request={req[:300]}")
                    break
            else:
                continue
            break


def search(r):
    """something broke: look for a concrete failing input with the formula oracle on more cases"""
    run(r, n_override={"quick": 150, "thorough": 600}[r.tier])


def replay(r, body):
    if body["case"].get("stream") == "joint-graph":
        before = len(r.failures)
        check_jointgraph(r, jointgraph_from_json(body["case"]))
        if len(r.failures) > before:
            print("still fails:", r.failures[-1]["what"])
            return 1
        print("does not fail on the current tree")
        return 0
    c = case_from_json(body["case"])
    if c["fn"] == "true_color":
        bad = None
        for backend in ("numpy", "dask"):
            bad = bad or oracle_true_color(c, run_true_color(c, backend))
    else:
        status, out = call_index(c["fn"], c["bands"], c["scal"])
        bad = oracle_index(c["fn"], c["bands"], c["scal"], status, out)
        if not bad and status == "ok" and c["fn"] in NORMALISED:
            bad = oracle_laws(c["fn"], c["bands"], out)
    if bad:
        print("still fails:", bad)
        return 1
    print("does not fail on the current tree")
    return 0
