"""
C16 -- regions labels are exactly the connected components of equal value.

Tie:  H  the hand model (lean/XrsVerif/Model/Regions.lean: two-pass labelling with stale captured
         labels, clamped windows) is run by the Lean driver on the same rasters as the real
         `xrspatial.zonal.regions` / `_area_connectivity`; the *labels* are compared exactly (the model
         reproduces uid assignment and merging towards the minimum, not only the partition).
      T3 the program `Gen.IL.areaConnectivity`, regenerated statement by statement from `_area_connectivity`
         (harness/facts_il.py) and proved to compute the hand model (Props/C16.lean `generated_*`), is run by the
         driver at IEEE doubles against the numba function on the same rasters (`il:areaConnectivity`, il_corr.py):
         every returned number and the input array are compared exactly.
      G  window offsets/clamping, the closeness test and the wrapper's DataArray arguments are
         regenerated from the source (harness/facts_regions.py -> Gen/RegionsFacts.lean) and pinned by
         theorems of Props/C16.lean.
Oracle (from the property statement alone, independent of the model): flood fill over equal-valued
4-/8-adjacent cells; labels must induce the same partition, be > 0, NaN exactly at NaN cells;
shape / dims / coords / attrs / name of the result are those of the input; the input is not modified.
The oracle is applied only to rasters on which "same value" is equality for the code's per-cell closeness test
|neighbour - cell| <= atol + rtol*|cell| (the property's domain): small alphabets, and -- magnitude / dtype classes,
`magnify` -- any alphabet whose different values are further apart than twice that tolerance, in every integer dtype
int8..uint64 and float32 / float64, with negative values, dtype extremes, large nodata-like cells (1e5, 1e6, 1e20, -999999)
next to small classes, large close-but-different values, rasters with more cells than the dtype can count.
"""
import json
import os
from concurrent.futures import ThreadPoolExecutor

import numpy as np
import xarray as xr
from numba import njit

import il_corr
from common import Driver, grid_tok, tok, untok

PROP = "C16"


class Counted(set):
    """distinct non-trivial inputs: explicit keys plus the enumerated rasters (too many to store)"""
    extra = 0

    def __len__(self):
        return set.__len__(self) + self.extra

INT_DTYPES = ["int64", "int32", "int16", "int8", "uint8", "uint16", "uint32", "uint64"]
FLOAT_DTYPES = ["float64", "float32"]


# ---------------------------------------------------------------- oracle (numba only for speed)
@njit(cache=False)
def _components(data, n8):
    """flood fill: component ids 1.. of equal-valued adjacent non-NaN cells, 0 at NaN"""
    rows, cols = data.shape
    comp = np.zeros((rows, cols), dtype=np.int64)
    stack = np.empty((rows * cols, 2), dtype=np.int64)
    cid = 0
    for y0 in range(rows):
        for x0 in range(cols):
            v = data[y0, x0]
            if v != v or comp[y0, x0] != 0:
                continue
            cid += 1
            comp[y0, x0] = cid
            top = 0
            stack[0, 0] = y0
            stack[0, 1] = x0
            top = 1
            while top > 0:
                top -= 1
                y = stack[top, 0]
                x = stack[top, 1]
                for dy in range(-1, 2):
                    for dx in range(-1, 2):
                        if dy == 0 and dx == 0:
                            continue
                        if not n8 and dy != 0 and dx != 0:
                            continue
                        yy = y + dy
                        xx = x + dx
                        if yy < 0 or yy >= rows or xx < 0 or xx >= cols:
                            continue
                        if comp[yy, xx] == 0 and data[yy, xx] == v:
                            comp[yy, xx] = cid
                            stack[top, 0] = yy
                            stack[top, 1] = xx
                            top += 1
    return comp, cid


@njit(cache=False)
def _partition_code(lab, data, comp, ncomp):
    """0 ok | 1 NaN pattern differs | 2 a label is not > 0 | 3 one component, two labels
       | 4 one label, two components"""
    rows, cols = data.shape
    first_lab = np.zeros(ncomp + 1, dtype=np.float64)
    for y in range(rows):
        for x in range(cols):
            v = data[y, x]
            lb = lab[y, x]
            if v != v:
                if lb == lb:
                    return 1
                continue
            if lb != lb:
                return 1
            if not lb > 0:
                return 2
            c = comp[y, x]
            if first_lab[c] == 0:
                first_lab[c] = lb
            elif first_lab[c] != lb:
                return 3
    for a in range(1, ncomp + 1):
        for b in range(a + 1, ncomp + 1):
            if first_lab[a] == first_lab[b]:
                return 4
    return 0


CODES = {1: "NaN pattern of the result differs from the input's", 2: "a label is not positive",
         3: "one connected component carries two labels", 4: "two different components share a label"}


def oracle_labels(data, lab, n):
    """data, lab: 2-D arrays (any dtype).  None or a description"""
    d = np.asarray(data)
    # integers are compared as integers (a float64 copy would identify distinct 64-bit values)
    if d.dtype.kind == "u" and (d.size == 0 or int(d.max()) < 2 ** 63):
        d = d.astype(np.int64)          # one oracle specialisation less
    d = d.astype(np.uint64) if d.dtype.kind == "u" else d.astype(np.int64) if d.dtype.kind in "ib" else d.astype(np.float64)
    lb = np.asarray(lab).astype(np.float64)
    if lb.shape != d.shape:
        return f"result shape {lb.shape} != input shape {d.shape}"
    comp, ncomp = _components(d, n == 8)
    code = _partition_code(lb, d, comp, ncomp)
    if code:
        return f"{CODES[code]} (neighborhood={n})"
    return None


def make_enum_runner(fortran=False):
    """fortran=True: the raster handed to the kernel is F-ordered (a transposed view), same cell values"""
    from xrspatial.zonal import _area_connectivity as kern

    @njit(cache=False)
    def run_enum(rows, cols, n, alphabet, t0, cnt):
        """real labels of rasters t0..t0+cnt-1 (0 at NaN) and the oracle's verdict for each"""
        k = len(alphabet)
        ncell = rows * cols
        out = np.zeros((cnt, ncell), dtype=np.int64)
        codes = np.zeros(cnt, dtype=np.int64)
        if fortran:
            r = np.empty((cols, rows), dtype=np.float64).T
        else:
            r = np.empty((rows, cols), dtype=np.float64)
        for dt in range(cnt):
            t = t0 + dt
            for i in range(ncell):
                r[i // cols, i % cols] = alphabet[t % k]
                t //= k
            lab = kern(r, n)
            comp, ncomp = _components(r, n == 8)
            codes[dt] = _partition_code(lab, r, comp, ncomp)
            for i in range(ncell):
                v = lab[i // cols, i % cols]
                out[dt, i] = 0 if v != v else np.int64(v)
        return out, codes

    return run_enum


def enum_raster(rows, cols, alphabet, t):
    k = len(alphabet)
    vals = []
    for _ in range(rows * cols):
        vals.append(alphabet[t % k])
        t //= k
    return np.array(vals, dtype=np.float64).reshape(rows, cols)


# ---------------------------------------------------------------- memory layouts
# The same logical raster under different memory layouts.  The model / oracle always see the logical
# (row-major) raster; only the array handed to the real code changes.
#   C          C-contiguous            F          np.asfortranarray
#   T          transposed view of the C-ordered transpose (what `.T` / DataArray.transpose hand out)
#   strided    every 2nd row / 3rd column of a larger C array (neither C- nor F-contiguous)
#   stridedF   the same cut out of a larger F-ordered array
#   neg        negative strides in both axes        negrow   negative row stride only
#   readonly / readonlyF   C / F array with flags.writeable = False
#   xrT        DataArray built on the transposed array with swapped dims, then .transpose(...)
LAYOUTS = ["C", "F", "T", "strided", "stridedF", "neg", "negrow", "readonly", "readonlyF", "xrT"]
NUMBA_CHEAP_LAYOUTS = ["C", "F", "T", "strided", "stridedF", "neg", "negrow", "xrT"]   # no extra read-only specialisation


def lay(a, layout):
    """the same values (and dtype, shape) under another memory layout"""
    a = np.ascontiguousarray(a)
    if a.ndim != 2 or layout in (None, "C"):
        return a
    h, w = a.shape
    fill = 0 if a.dtype.kind == "b" else 99
    if layout == "F":
        return np.asfortranarray(a)
    if layout in ("T", "xrT"):
        return np.ascontiguousarray(a.T).T
    if layout == "strided":
        big = np.full((2 * h + 1, 3 * w + 2), fill, dtype=a.dtype)
        v = big[1::2, 2::3][:h, :w]
        v[...] = a
        return v
    if layout == "stridedF":
        big = np.full((3 * w + 2, 2 * h + 1), fill, dtype=a.dtype)
        v = big.T[1::2, 2::3][:h, :w]
        v[...] = a
        return v
    if layout == "neg":
        return np.ascontiguousarray(a[::-1, ::-1])[::-1, ::-1]
    if layout == "negrow":
        return np.ascontiguousarray(a[::-1, :])[::-1, :]
    if layout == "readonly":
        b = a.copy()
        b.flags.writeable = False
        return b
    if layout == "readonlyF":
        b = np.asfortranarray(a).copy(order="F")
        b.flags.writeable = False
        return b
    raise ValueError(layout)


def pick_layout(rng, shape, cheap=False):
    """half of the cases C-ordered, the rest spread over the other layouts"""
    if rng.random() < 0.4:
        return "C"
    return rng.choice((NUMBA_CHEAP_LAYOUTS if cheap else LAYOUTS)[1:])


def layout_class(arr):
    """how numba types the array: C / F / A(ny), + ro"""
    k = "C" if arr.flags.c_contiguous else ("F" if arr.flags.f_contiguous else "A")
    return k + ("" if arr.flags.writeable else "+ro")


# ---------------------------------------------------------------- many provisional labels
# Rasters whose labelling pass hands out many provisional ids and merges chosen ones of them: the
# bookkeeping of a one-pass labelling (polygonize's `region_lookup` starts with max(64, nx, ny) slots and is
# doubled / extended on demand; regions' uid counter) is exercised at and around its size boundaries.
def comb_raster(rng, target=None, max_cells=1600):
    """k rows of alternating values (row r uses the pair 2r, 2r+1: every cell of these rows is its own
    provisional region in both connectivities, ids in scan order), optional bridges inside these rows,
    and a last row of filler with bridges: a bridge over column c of the row below joins the regions of
    columns c-1 and c+1, i.e. records a merge for the provisional id of column c+1.  With `target` the
    last row holds a bridge whose upper id is exactly `target` (when reachable).  Returns (raster, info)."""
    for _ in range(50):
        N = rng.choice([64, 64, 64, 63, 65, 32, 48, 20, 100, 128, 130, rng.randrange(6, 140)])
        base = max(64, N)
        if target is None:
            S = base * rng.choice([1, 1, 2, 2, 4])
            T = S - 1 + rng.choice([-2, -1, 0, 0, 0, 0, 0, 1, 2, 3])
            if rng.random() < 0.25:          # anywhere, e.g. a first merge far beyond twice the table size
                T = rng.randrange(4, 4 * base)
        else:
            T = target
        k = max(1, -(-T // N))               # rows of alternating values so that id T exists
        if (k + 1) * N > max_cells or T < 3:
            continue
        a = np.empty((k + 1, N), dtype=np.int64)
        ids = np.zeros((k, N), dtype=np.int64)
        nid = 0
        p_inner = rng.choice([0.0, 0.0, 0.03, 0.1])
        for r in range(k):
            i = 0
            while i < N:
                # a bridge inside the alternating rows: three (or five) cells with the value two columns apart below
                bw = rng.choice([3, 3, 5])
                if (r >= 1 and i + bw <= N and rng.random() < p_inner and a[r - 1, i] == a[r - 1, i + bw - 1]
                        and ids[r - 1, i] and ids[r - 1, i + bw - 1]):
                    a[r, i:i + bw] = a[r - 1, i]
                    i += bw
                    continue
                a[r, i] = 2 * r + (i % 2)
                nid += 1
                ids[r, i] = nid
                i += 1
        filler = 2 * k + 7
        a[k, :] = filler
        placed = []
        cols = [c for c in range(1, N - 1) if ids[k - 1, c - 1] and ids[k - 1, c + 1] and a[k - 1, c - 1] == a[k - 1, c + 1]
                and a[k - 1, c] != a[k - 1, c - 1]]
        hit = [c for c in cols if ids[k - 1, c + 1] == T]
        if not hit and target is not None:
            continue
        extra = rng.choice([0, 0, 1, 2, 4])
        chosen = hit[:1] + [rng.choice(cols) for _ in range(extra) if cols]
        if rng.random() < 0.3 and cols:      # grow the table first: merges at lower ids than the target
            chosen += [c for c in cols if ids[k - 1, c + 1] < T and rng.random() < 0.2]
        for c in sorted(set(chosen)):
            bw = rng.choice([3, 3, 3, 5])
            lo, hi = c - 1, min(N - 1, c - 1 + bw - 1)
            if (hi - lo) % 2:
                hi -= 1
            a[k, lo:hi + 1] = a[k - 1, c - 1]
            placed.append(int(ids[k - 1, c + 1]))
        return a, dict(gen="comb", target=int(T), uppers=sorted(placed))
    a = (np.add.outer(np.arange(2), np.arange(64)) % 2).astype(np.int64)
    return a, dict(gen="comb", target=0, uppers=[])


STAMPS = [
    ["1.1", "111"], ["111", "1.1"], ["1.1", "1.1", "111"], ["11", ".1", "11"], ["11", "1.", "11"],
    ["1.1.1", "11111"], ["..1", "1.1", "111"], ["1..", "1.1", "111"], [".1.", "1.1", "111"],
    ["1.1", "111", "1.1"], ["1..1", "1111"], ["1.", ".1"], [".1", "1."], ["1.1", ".1."], [".1.", "1.1"],
    ["11.", ".11", "11."], ["1.1.", "111.", "..11", ".11."],
]


def sparse_raster(rng, max_cells=1600):
    """every cell its own region (value (i + 2j) mod 5 differs from its W, S, SW and SE neighbours), then
    a few small shapes of other values stamped at random places: few merges at widely spread provisional
    ids, so the first (or a later) merge lands far beyond twice the current table size"""
    shape_kind = rng.choice(["wide", "tall", "square", "any"])
    if shape_kind == "wide":
        h, w = rng.randrange(2, 7), rng.randrange(30, 200)
    elif shape_kind == "tall":
        h, w = rng.randrange(30, 200), rng.randrange(2, 7)
    elif shape_kind == "square":
        h = w = rng.randrange(8, 36)
    else:
        h, w = rng.randrange(2, 40), rng.randrange(2, 40)
    while h * w > max_cells:
        if h >= w:
            h = max(2, h * 2 // 3)
        else:
            w = max(2, w * 2 // 3)
    a = (np.add.outer(2 * np.arange(h), np.arange(w)) % 5).astype(np.int64)
    nst = rng.choice([1, 1, 2, 2, 3, 5, 8])
    for s in range(nst):
        st = rng.choice(STAMPS)
        if rng.random() < 0.3:
            st = st[::-1]
        if rng.random() < 0.3:
            st = [row[::-1] for row in st]
        sh, sw = len(st), len(st[0])
        if sh > h or sw > w:
            continue
        y, x = rng.randrange(h - sh + 1), rng.randrange(w - sw + 1)
        if rng.random() < 0.35:              # towards the end of the scan: high provisional ids
            y = h - sh - rng.randrange(0, min(3, h - sh + 1))
            y = max(0, y)
        v = 7 + (s % 2 if rng.random() < 0.5 else 0)
        for dy, row in enumerate(st):
            for dx, ch in enumerate(row):
                if ch == "1":
                    a[y + dy, x + dx] = v
    return a, dict(gen="sparse", stamps=nst)


def dense_raster(rng, max_cells=1600):
    """random rasters over two or three values with many short runs: many provisional ids, merged densely
    (re-links of already merged ids, chains)"""
    if rng.random() < 0.5:
        h, w = rng.randrange(2, 8), rng.randrange(30, 180)
    else:
        h, w = rng.randrange(30, 180), rng.randrange(2, 8)
    while h * w > max_cells:
        if h >= w:
            h = max(2, h * 2 // 3)
        else:
            w = max(2, w * 2 // 3)
    nvals = rng.choice([2, 2, 3])
    a = np.array([rng.randrange(nvals) for _ in range(h * w)], dtype=np.int64).reshape(h, w)
    return a, dict(gen="dense", nvals=nvals)


def many_raster(rng, max_cells=1600):
    mode = rng.choice(["comb", "comb", "comb", "sparse", "sparse", "dense"])
    if mode == "comb":
        a, info = comb_raster(rng, max_cells=max_cells)
        if rng.random() < 0.25:              # the same picture scanned column by column
            a = np.ascontiguousarray(a.T)
            info["transposed"] = True
    elif mode == "sparse":
        a, info = sparse_raster(rng, max_cells)
    else:
        a, info = dense_raster(rng, max_cells)
    return a, info


# ---------------------------------------------------------------- generators
def shapes_upto(cells, min_cells=1):
    return [(h, w) for h in range(1, cells + 1) for w in range(1, cells + 1) if min_cells <= h * w <= cells]


def spiral(h, w):
    """one-cell-wide wall spiralling inwards with a one-cell-wide corridor"""
    a = np.zeros((h, w), dtype=np.int64)
    y, x, dy, dx = 0, 0, 0, 1
    a[0, 0] = 1
    turned = False
    for _ in range(2 * h * w + 8):
        ny, nx, nny, nnx = y + dy, x + dx, y + 2 * dy, x + 2 * dx
        ok = (0 <= ny < h and 0 <= nx < w and a[ny, nx] == 0
              and not (0 <= nny < h and 0 <= nnx < w and a[nny, nnx] == 1))
        if ok:
            y, x = ny, nx
            a[y, x] = 1
            turned = False
        else:
            if turned:
                break
            dy, dx = dx, -dy
            turned = True
    return a


def structured(rng, h, w):
    kind = rng.choice(["spiral", "comb_down", "comb_up", "rings", "checker", "stripes_d", "u", "s", "const", "snake"])
    a = np.zeros((h, w), dtype=np.int64)
    if kind == "spiral":
        a = spiral(h, w)
    elif kind == "comb_down":      # teeth joined at the bottom: provisional labels merge late
        a[:, ::2] = 1
        a[h - 1, :] = 1
    elif kind == "comb_up":
        a[:, ::2] = 1
        a[0, :] = 1
    elif kind == "rings":
        for k in range(0, (min(h, w) + 1) // 2):
            a[k:h - k, k:w - k] = k % 2
    elif kind == "checker":
        a = (np.add.outer(np.arange(h), np.arange(w)) % 2).astype(np.int64)
    elif kind == "stripes_d":      # anti-diagonal stripes: 8-connected only
        a = (np.add.outer(np.arange(h), np.arange(w)) % 3 == 0).astype(np.int64)
    elif kind == "u":
        a[:, 0] = 1
        a[:, w - 1] = 1
        a[h - 1, :] = 1
    elif kind == "s":
        a[::2, :] = 1
        for k in range(1, h, 2):
            a[k, (w - 1) if (k // 2) % 2 == 0 else 0] = 1
    elif kind == "snake":          # diagonal staircase going up-right: labels met from the right
        for k in range(min(h, w)):
            a[h - 1 - k, k] = 1
            if k + 1 < w:
                a[h - 1 - k, k + 1] = 1
    else:
        a[:] = 1
    if rng.random() < 0.5:
        a = a[:, ::-1].copy()
    if rng.random() < 0.5:
        a = a[::-1, :].copy()
    if rng.random() < 0.3:
        a = a * 2 + (rng.random() < 0.5)
    return kind, a


def trident(rng):
    """three diagonal arms meeting in one cell under the 8-neighbourhood: a short NW arm (fresh, high
    provisional label), a long arm arriving from the SW that started in row 0 (low label) and a NE arm:
    the pass-2 window of the meeting cell captures [high, low, other] in that order"""
    k1 = rng.randrange(1, 3)
    k3 = rng.randrange(1, 4)
    y = max(k1, k3) + rng.randrange(1, 3)
    x = k1 + 2 + rng.randrange(0, 2)
    h = y + 2 + rng.randrange(0, 2)
    w = x + k3 + 1 + rng.randrange(0, 2)
    a = np.full((h, w), 9, dtype=np.int64)
    a[y, x] = 0
    for t in range(1, k1 + 1):
        a[y - t, x - t] = 0
    for t in range(1, k3 + 1):
        a[y - t, x + t] = 0
    xc = x - k1 - 2
    a[0:y + 2, xc] = 0
    a[y + 1, xc:x] = 0
    return a


def diag_tree(rng, h, w):
    """sparse diagonal random walks of one value on a background of another"""
    a = np.full((h, w), 9, dtype=np.int64)
    for _ in range(rng.randrange(2, 6)):
        y, x = rng.randrange(h), rng.randrange(w)
        dy, dx = rng.choice([-1, 1]), rng.choice([-1, 1])
        for _ in range(rng.randrange(2, max(h, w) + 1)):
            if not (0 <= y < h and 0 <= x < w):
                break
            a[y, x] = 0
            if rng.random() < 0.15:
                dx = -dx
            if rng.random() < 0.1:
                dy = -dy
            y += dy
            x += dx
    return a


def random_raster(rng, h, w, nvals, nan_p, flip_p=None):
    if flip_p is None:
        vals = [rng.randrange(nvals) for _ in range(h * w)]
    else:   # blobs: copy the left / upper neighbour most of the time
        vals = []
        for i in range(h * w):
            y, x = divmod(i, w)
            if rng.random() < flip_p or (x == 0 and y == 0):
                vals.append(rng.randrange(nvals))
            elif x > 0 and (y == 0 or rng.random() < 0.5):
                vals.append(vals[i - 1])
            else:
                vals.append(vals[i - w] if y > 0 else rng.randrange(nvals))
    a = np.array(vals, dtype=np.float64).reshape(h, w)
    if nan_p > 0:
        m = np.array([rng.random() < nan_p for _ in range(h * w)]).reshape(h, w)
        a[m] = np.nan
    return a


def gen_case(rng, big=False):
    """a case inside the property's domain (integer-valued, small alphabet)"""
    mode = rng.choice(["rand", "rand", "blob", "struct", "struct", "line", "trident", "diag"])
    hi = 12 if big else 8
    h, w = rng.randrange(1, hi + 1), rng.randrange(1, hi + 3)
    if mode == "line":
        if rng.random() < 0.5:
            h = 1
            w = rng.randrange(1, 30)
        else:
            w = 1
            h = rng.randrange(1, 30)
    n = rng.choice([4, 8])
    if mode == "trident":
        a = trident(rng)
        if rng.random() < 0.2:
            a = a[:, ::-1].copy()
        a = a.astype(np.float64)
        n = 8 if rng.random() < 0.8 else 4
        tag = "struct:trident"
    elif mode == "diag" and h >= 3 and w >= 3:
        a = diag_tree(rng, h, w).astype(np.float64)
        n = 8 if rng.random() < 0.8 else 4
        tag = "struct:diag"
    elif mode == "struct" and h >= 2 and w >= 2:
        kind, a = structured(rng, h, w)
        a = a.astype(np.float64)
        tag = "struct:" + kind
    else:
        nvals = rng.choice([1, 2, 2, 3, 4])
        a = random_raster(rng, h, w, nvals, 0.0, flip_p=0.35 if mode == "blob" else None)
        tag = mode
    dtype = rng.choice(FLOAT_DTYPES + ["int64", "int32", "int64"])
    if dtype in FLOAT_DTYPES:
        p = rng.choice([0.0, 0.0, 0.1, 0.3])
        if p:
            m = np.array([rng.random() < p for _ in range(a.size)]).reshape(a.shape)
            a[m] = np.nan
        if rng.random() < 0.3:
            a = a - 1          # negative and zero values
    layout = pick_layout(rng, a.shape)
    if layout.startswith("readonly") and dtype not in ("float64", "int64"):
        layout = "F" if layout.endswith("F") else "C"     # one numba specialisation less per dtype
    return dict(kind="grid", n=n, dtype=dtype, grid=[[tok(v) for v in row] for row in a.tolist()], tag=tag, layout=layout)


def gen_many(rng, max_cells=1600):
    """many provisional labels, merges at chosen / widely spread ids (see many_raster)"""
    a, info = many_raster(rng, max_cells)
    dtype = rng.choice(["float64", "int64"])
    return dict(kind="grid", n=rng.choice([4, 8]), dtype=dtype, grid=[[tok(v) for v in row] for row in a.tolist()],
                tag="many:" + info["gen"], layout=pick_layout(rng, a.shape, cheap=True), info=info)


def gen_narrow(rng, which):
    """narrow integer dtypes with more provisional labels than the dtype can count"""
    dtype = rng.choice(["uint8", "int8"])
    if which == 0:
        return dict(kind="gen", gen="alternating", rows=1, cols=rng.choice([300, 520, 257, 129]), dtype=dtype, n=rng.choice([4, 8]),
                    tag="narrow:alternating")
    if which == 1:
        return dict(kind="gen", gen="checker", rows=rng.choice([12, 17]), cols=rng.choice([13, 16]), dtype=dtype, n=4, tag="narrow:checker")
    if which == 2:
        return dict(kind="gen", gen="alternating", rows=rng.choice([40000, 33000]), cols=1, dtype=rng.choice(["int16"]), n=4,
                    tag="narrow:int16")
    return dict(kind="gen", gen="columns", rows=3, cols=rng.choice([140, 270]), dtype=dtype, n=rng.choice([4, 8]), tag="narrow:columns")


def gen_mag(rng, k):
    """the magnitude / dtype stream proper: blobs / noise over 2-5 values in three size classes (small; 130-250 cells: more
    than int8 counts; 260-570 cells: more than uint8 counts), re-valued (magnify) in dtype number k of the ten, in turn"""
    dt = ALL_DTYPES[k % len(ALL_DTYPES)]
    size = rng.choice(["small", "small", "mid", "large"])
    if size == "small":
        h, w = rng.randrange(1, 9), rng.randrange(1, 12)
    elif size == "mid":
        h, w = rng.randrange(10, 14), rng.randrange(13, 18)
    else:
        h, w = rng.randrange(13, 20), rng.randrange(20, 30)
    if rng.random() < 0.15:
        h, w = w, h
    nan_p = rng.choice([0.0, 0.0, 0.1]) if dt in FLOAT_DTYPES else 0.0
    a = random_raster(rng, h, w, rng.choice([2, 3, 3, 4, 5]), nan_p, flip_p=rng.choice([None, 0.35, 0.2, 0.2]))
    c = dict(kind="grid", n=rng.choice([4, 8]), dtype="float64", grid=[[tok(v) for v in row] for row in a.tolist()],
             tag="mag:" + size, layout="C")
    return magnify(rng, c, a, dtypes=[dt])


def gen_wild(rng):
    """outside the property's domain (float closeness is not an equivalence): model vs code only"""
    h, w = rng.randrange(1, 6), rng.randrange(1, 7)
    mode = rng.choice(["tol", "inf", "bigint", "dyadic"])
    if mode == "tol":
        pool = [1.0, 1.000001, 1.000002, 1.00002, 1.00004, 0.99999, 2.0, 2.00001, 0.0, 1e-9, 5e-9, -1e-9]
        dtype = "float64"
    elif mode == "inf":
        pool = [1.0, 2.0, float("inf"), float("-inf"), float("nan"), 1.0, 2.0]
        dtype = "float64"
    elif mode == "bigint":
        pool = [100000, 100001, 100003, 250000, 250002, 250004, 99999, 7]
        dtype = rng.choice(["int64", "float64"])
    else:
        pool = [0.5, 0.25, -0.5, 1.5, 0.0]
        dtype = rng.choice(FLOAT_DTYPES)
    a = np.array([rng.choice(pool) for _ in range(h * w)], dtype=np.float64).reshape(h, w)
    return dict(kind="grid", n=rng.choice([4, 8]), dtype=dtype, grid=[[tok(v) for v in row] for row in a.tolist()],
                tag="wild:" + mode, wild=True)


# ---------------------------------------------------------------- value magnitude and dtype classes
# The partition regions() must produce depends only on which cells hold equal values.  So the raster of any stream may be
# re-valued by an injective map of its (small) alphabet into another magnitude / dtype class, and a few cells may be
# overwritten with large-magnitude "nodata-like" values: the flood-fill oracle on the re-valued raster decides.
#   dtype     every integer dtype int8..uint64 (negative values where signed), float32, float64
#   neg       small negative and positive values            edges   the dtype's extremes and their neighbours
#   bigclose  large values that differ by a few times the tolerance of the unchanged code (rtol*|v|), not less
#   spike     the small alphabet kept, 1-3 cells overwritten with 1e5 / 1e6 / 1e20 / -999999 / dtype extremes
# Kept inside the property's domain (`equality_domain`): all values finite, any two different values of the raster
# further apart than twice atol + rtol*max|.| (so the per-cell closeness of the code is equality), 64-bit integers up to
# 2^62 in magnitude (the kernel's own integer subtraction must not wrap).
RTOL, ATOL = 1e-5, 1e-8
I62 = 2 ** 62 - 1
ALL_DTYPES = INT_DTYPES + FLOAT_DTYPES


def dtype_range(dt):
    if dt in FLOAT_DTYPES:
        return None
    ii = np.iinfo(dt)
    return max(int(ii.min), -I62), min(int(ii.max), I62)


def far_apart(vals):
    """any two different values are further apart than 2*(atol + rtol*max|.|), in exact arithmetic"""
    from fractions import Fraction
    vs = sorted(set(Fraction(v) for v in vals))
    tol2 = lambda a, b: 2 * (Fraction(ATOL) + Fraction(RTOL) * max(abs(a), abs(b)))      # noqa: E731
    return all(b - a > tol2(a, b) for a, b in zip(vs, vs[1:]))


def equality_domain(a):
    """the raster is one on which the property reads 'same value' as equality (see above)"""
    a = np.asarray(a)
    if a.dtype.kind == "f":
        v = a[~np.isnan(a)]
        if not np.all(np.isfinite(v)):
            return False
        vals = [float(x) for x in np.unique(v).tolist()]
    else:
        vals = [int(x) for x in np.unique(a).tolist()]
        if a.dtype.itemsize == 8 and any(abs(x) > I62 for x in vals):
            return False
    return len(vals) <= 4096 and far_apart(vals)


def value_pool(rng, dt, klass, k):
    """k different values of the class for dtype `dt` (None when the class does not exist for it)"""
    rg = dtype_range(dt)
    lo, hi = rg if rg else (None, None)
    if klass == "neg":
        pool = [-1, -2, -3, -5, -7, -100, 0, 1, 2, 3, 7]
        if rg and lo == 0:
            return None
        pool = [v for v in pool if rg is None or lo <= v <= hi]
        if dt in FLOAT_DTYPES:
            pool += [-0.5, 0.5, -2.5]
    elif klass == "edges":
        if rg is None:
            big = 3.0e38 if dt == "float32" else 1.0e308
            pool = [big, -big, big / 4, 0.0, 1.0, -1.0, 2.0 ** -100]
        else:
            ii = np.iinfo(dt)
            pool = [lo, hi, 0, (hi + 1) // 2]
            # next to an extreme only where the unchanged code tells them apart (tolerance below 1/2)
            step = 1 if RTOL * max(abs(lo), abs(hi)) * 2 < 0.5 else int(4 * RTOL * max(abs(lo), abs(hi))) + 3
            pool += [lo + step, hi - step, hi - 2 * step]
            if lo < 0:
                pool += [-1, lo + 2 * step]
            if int(ii.min) < lo:          # 64-bit: the true extremes are outside the judged domain
                pool = [v for v in pool if abs(v) <= I62]
    elif klass == "bigclose":
        bases = [10 ** 5, 10 ** 6, 250000, 2 ** 24, 2 ** 31 - 10 ** 6, 10 ** 9, 10 ** 12, 2 ** 53 - 10 ** 12, -10 ** 5, -999999, -10 ** 9]
        if dt in FLOAT_DTYPES:
            bases += [10 ** 20, -10 ** 20] if dt == "float64" else []
            bases = [b for b in bases if abs(b) < (2 ** 24 if dt == "float32" else 2 ** 53) or abs(b) >= 10 ** 20]
        else:
            bases = [b for b in bases if lo <= b and abs(b) * 1.01 + 64 <= hi]
        if not bases:
            return None
        b = rng.choice(bases)
        d = int(rng.choice([3, 5, 40]) * RTOL * abs(b)) + rng.choice([3, 7, 21])      # > 2*tol by construction
        if abs(b) >= 10 ** 20:
            d = 10 ** 16 * rng.choice([3, 7])
        sgn = 1 if b > 0 else -1
        pool = [b + sgn * i * d for i in range(k + 1)]
    else:
        raise ValueError(klass)
    pool = list(dict.fromkeys(pool))
    if dt == "float32":
        pool = list(dict.fromkeys(float(np.float32(v)) for v in pool))
    if len(pool) < k:
        return None
    out = rng.sample(pool, k)
    return out if far_apart(out) else None


def spike_values(rng, dt, n):
    rg = dtype_range(dt)
    if rg is None:
        pool = [1e5, 1e6, 1e20, -999999.0, -1e5, 3.0e38 if dt == "float32" else 1e300, -9999.0, 65535.0]
    else:
        lo, hi = rg
        pool = [v for v in [10 ** 5, 10 ** 6, -999999, -10 ** 5, 10 ** 12, 10 ** 18, -9999, 32767, -32768, 255, 127, -128, 65535,
                            2 ** 31 - 1, -2 ** 31, 2 ** 32 - 1, lo, hi] if lo <= v <= hi]
    return [rng.choice(pool) for _ in range(n)]


def vtok(v):
    return str(int(v)) if isinstance(v, (int, np.integer)) else tok(float(v))


def magnify(rng, c, base, dtypes=None, classes=None):
    """re-value the case `c` (whose raster `base` holds a small alphabet, NaN allowed): adds dtype / vmap / spikes / mag"""
    vals = sorted(set(float(v) for v in np.asarray(base, dtype=np.float64).ravel().tolist() if v == v))
    has_nan = bool(np.isnan(np.asarray(base, dtype=np.float64)).any())
    if len(vals) > 12 or not vals:
        return c
    for _ in range(6):
        dt = rng.choice(dtypes or (FLOAT_DTYPES if has_nan else ALL_DTYPES))
        klass = rng.choice(classes or ["neg", "neg", "edges", "edges", "bigclose", "spike", "spike", "spike"])
        if klass == "spike":
            rg = dtype_range(dt)
            if rg is not None and (min(vals) < rg[0] or max(vals) > rg[1]):
                continue
            if any(v != int(v) for v in vals) and dt not in FLOAT_DTYPES:
                continue
            new = [int(v) if dt not in FLOAT_DTYPES else v for v in vals]
            n_sp = rng.choice([1, 1, 2, 3])
            h, w = np.asarray(base).shape
            spikes = [[rng.randrange(h), rng.randrange(w), vtok(v)] for v in spike_values(rng, dt, n_sp)] if h * w else []
        else:
            new = value_pool(rng, dt, klass, len(vals))
            spikes = []
            if new is None:
                continue
        c = dict(c, dtype=dt, vmap={vtok(int(k) if k == int(k) else k): vtok(v) for k, v in zip(vals, new)}, mag=klass)
        if spikes:
            c["spikes"] = spikes
        if dt not in ("float64", "int64", "float32", "int32"):
            c["layout"] = "C"          # one numba specialisation per extra dtype
        return c
    return c


def revalue(a, c):
    """apply c['vmap'] / c['spikes'] to the small-alphabet raster `a` -> array of dtype c['dtype'] (exact for integers)"""
    dt = c["dtype"]
    isf = dt in FLOAT_DTYPES
    conv = (lambda t: untok(t)) if isf else (lambda t: int(t))      # noqa: E731
    src = np.asarray(a, dtype=np.float64)
    out = np.full(src.shape, np.nan if isf else 0, dtype=dt)
    hit = np.isnan(src)
    for k, v in c["vmap"].items():
        m = src == float(untok(k))
        out[m] = conv(v)
        hit |= m
    if not hit.all():
        raise ValueError("vmap does not cover the raster's alphabet")
    for y, x, v in c.get("spikes", []):
        out[y, x] = conv(v)
    return out


def materialise(c):
    """case json -> numpy array of the case's dtype"""
    if c["kind"] == "grid":
        a = np.array([[untok(t) for t in row] for row in c["grid"]], dtype=np.float64)
        if a.ndim == 1:
            a = a.reshape(len(c["grid"]), 0)
        if "vmap" in c:
            return revalue(a, c)
        return a.astype(c["dtype"])
    if c["kind"] == "enum":
        return enum_raster(c["rows"], c["cols"], [untok(t) for t in c["alphabet"]], c["t"])
    if "vmap" in c:
        return revalue(materialise({k: v for k, v in c.items() if k not in ("vmap", "spikes")} | {"dtype": "int64"}), c)
    h, w = c["rows"], c["cols"]
    if c["gen"] == "alternating":
        a = (np.arange(h * w) % 2).reshape(h, w)
    elif c["gen"] == "checker":
        a = np.add.outer(np.arange(h), np.arange(w)) % 2
    elif c["gen"] == "columns":
        a = np.zeros((h, w), dtype=np.int64)
        a[:, ::2] = 1
        a[h - 1, :] = 1
    else:
        raise ValueError(c["gen"])
    return a.astype(c["dtype"])


# ---------------------------------------------------------------- running the real code
def mk(a, layout="C"):
    """DataArray over `a` as it is (no copy: the memory layout of `a` is what the real code sees)"""
    h, w = a.shape
    ys = np.arange(h, dtype=float) * 2.5 + 10
    xs = np.arange(w, dtype=float) * 0.5 - 3
    kw = dict(attrs={"res": (0.5, 2.5), "crs": "EPSG:4326", "nodata": -1}, name="input")
    if layout == "xrT":
        # stored transposed with swapped dims, handed over through xarray's own transpose (a view)
        t = xr.DataArray(np.ascontiguousarray(np.asarray(a).T), dims=["lon", "lat"], coords={"lat": ys, "lon": xs, "band": 7}, **kw)
        return t.transpose("lat", "lon")
    return xr.DataArray(a, dims=["lat", "lon"], coords={"lat": ys, "lon": xs, "band": 7}, **kw)


def run_real(a, n, name="lbl", layout="C"):
    from xrspatial.zonal import regions
    ra = mk(lay(a, layout), layout)
    before = mk(a.copy()).copy(deep=True)
    try:
        out = regions(ra, neighborhood=n, name=name)
    except ValueError as ex:
        return "ValueError", str(ex), None
    except Exception as ex:  # noqa: BLE001 -- any other exception on a valid raster is a finding
        return type(ex).__name__, str(ex)[:300], None
    meta = None
    if out.shape != ra.shape:
        meta = f"shape {out.shape} != {ra.shape}"
    elif out.dims != ra.dims:
        meta = f"dims {out.dims} != {ra.dims}"
    elif out.attrs != before.attrs:
        meta = f"attrs {out.attrs} != {before.attrs}"
    elif out.name != name:
        meta = f"name {out.name!r} != {name!r}"
    elif set(out.coords) != set(before.coords) or any(not np.array_equal(out.coords[k].values, before.coords[k].values)
                                                      for k in before.coords):
        meta = "coords differ from the input's"
    elif not np.array_equal(np.asarray(ra.data), before.values, equal_nan=a.dtype.kind == "f"):
        meta = "the input raster was modified"
    return "ok", np.asarray(out.data), meta


MODEL_MAX_CELLS_MANY = 1700


def in_domain(c, a):
    if c.get("wild"):
        return False
    if "vmap" in c:
        return equality_domain(a)
    return True


def exactly_float64(a):
    """the model is sent float64 tokens: only rasters whose values a float64 holds exactly"""
    if a.dtype.kind == "f":
        return True
    return bool(np.all(np.abs(a.astype(np.float64)) < 2.0 ** 53))


def fail_key(a, lab=None, n=4):
    if a.dtype.kind == "i" and a.size and lab is not None:
        lo = np.iinfo(a.dtype).min
        at_min = a == lo
        if at_min.any() and exactly_float64(np.where(at_min, 0, a)):
            # is the dtype's minimum the only value that goes wrong?  (judge the raster without those cells)
            d = np.where(at_min, np.nan, a.astype(np.float64))
            lb = np.where(at_min, np.nan, np.asarray(lab).astype(np.float64))
            if oracle_labels(d, lb, n) is None:
                return "regions:signed-minimum"
    if a.dtype.kind in "iu" and np.iinfo(a.dtype).max < a.size:
        return "regions:label-dtype-overflow"
    return "regions:components"


def verdict(c):
    """-> finding key or None for one grid case (real code + oracle only)"""
    a = materialise(c)
    if a.size == 0:
        return None
    status, out, meta = run_real(a, c["n"], layout=c.get("layout", "C"))
    if status != "ok" or meta or not in_domain(c, a):
        return None
    return fail_key(a, out, c["n"]) if oracle_labels(a, out, c["n"]) else None


def shrink_case(c, key):
    """greedy minimisation of a failing grid case: rows / columns are dropped from the four sides (halves first, then one at
    a time) while the real code still fails the oracle with the same finding key; spikes move with the cut"""
    def cut(cc, top, bottom, left, right):
        g = cc["grid"]
        h, w = len(g), len(g[0]) if g else 0
        if top + bottom >= h or left + right >= w:
            return None
        out = dict(cc, grid=[row[left:w - right] for row in g[top:h - bottom]])
        if "spikes" in cc:
            out["spikes"] = [[y - top, x - left, v] for y, x, v in cc["spikes"] if top <= y < h - bottom and left <= x < w - right]
        return out
    cur = c
    progress = True
    trials = 0
    while progress and trials < 400:
        progress = False
        h, w = len(cur["grid"]), len(cur["grid"][0])
        for side in range(4):
            size = h if side < 2 else w
            for k in (size // 2, size // 4, 1):
                if k < 1:
                    continue
                t = cut(cur, *[k if i == side else 0 for i in range(4)])
                trials += 1
                if t is not None and verdict(t) == key:
                    cur, progress = t, True
                    break
            if progress:
                break
    return cur


def check_case(r, c, requests, pending, model=True):
    """run one case on the real code, apply the oracle, queue the model request"""
    a = materialise(c)
    status, out, meta = run_real(a, c["n"], layout=c.get("layout", "C"))
    if c["n"] not in (4, 8):
        if status != "ValueError":
            r.fail("regions:validation", f"neighborhood={c['n']} accepted", c)
        requests.append(f"regions n={c['n']} g={grid_tok(a.astype(np.float64))}")
        pending.append((c, "err:ValueError"))
        return
    if status != "ok":
        r.fail("regions:raises", f"regions raised {status}: {out}", c)
        return
    if meta:
        r.fail("regions:meta", meta, c)
        return
    if in_domain(c, a):
        bad = oracle_labels(a, out, c["n"])
        if bad:
            uv = np.unique(a[~np.isnan(a)] if a.dtype.kind == "f" else a).tolist()
            key = fail_key(a, out, c["n"])
            if c["kind"] == "grid" and a.size > 4 and sum(1 for f in r.failures if f["key"] == key) < 2 and not c.get("shrunk"):
                small = shrink_case(c, key)
                if small is not c:
                    return check_case(r, dict(small, shrunk=True), requests, pending, model=False)
            r.fail(key, f"{bad}; dtype={a.dtype}, shape={a.shape}, memory layout={c.get('layout', 'C')}, "
                   f"values {uv[:8]}{'...' if len(uv) > 8 else ''}, "
                   f"labels min={np.nanmin(out) if out.size else None} max={np.nanmax(out) if out.size else None}", c)
            return
    if model and a.size <= (MODEL_MAX_CELLS_MANY if c.get("tag", "").startswith("many:") else 400) and a.size > 0 \
            and exactly_float64(a):
        requests.append(f"regions n={c['n']} g={grid_tok(a.astype(np.float64))}")
        lab = np.asarray(out).astype(np.float64)
        pending.append((c, f"{a.shape[0]}x{a.shape[1]}:" + ",".join(tok(v) for v in lab.ravel().tolist())))


def flush_model(r, requests, pending, stream):
    if not requests:
        return
    chunks = [list(range(i, min(i + 400, len(requests)))) for i in range(0, len(requests), 400)]
    drv = Driver()

    def ask(idx):
        return drv.ask([requests[i] for i in idx])

    with ThreadPoolExecutor(max_workers=8) as ex:
        replies = [x for part in ex.map(ask, chunks) for x in part]
    for (c, real), rep in zip(pending, replies):
        if rep != real:
            r.disagree(stream, c, real[:300], rep[:300])


ENUM_PLAN = {
    # (alphabet tokens, max cells)
    "quick": [(["1", "2", "nan"], 8), (["1", "2"], 10), (["0", "1", "2"], 7), (["1", "2", "3", "nan"], 6)],
    "thorough": [(["1", "2", "nan"], 12), (["1", "2"], 12), (["0", "1", "2"], 10), (["1", "2", "3", "nan"], 8)],
}


def run_enum_stream(r, plan):
    run_enum = make_enum_runner()
    run_enum_f = make_enum_runner(fortran=True)
    if not isinstance(r.nontrivial, Counted):
        r.nontrivial = Counted(r.nontrivial)
    jobs = []
    for alphabet, maxcells in plan:
        k = len(alphabet)
        for (h, w) in shapes_upto(maxcells):
            total = k ** (h * w)
            step = 40000
            for n in (4, 8):
                for t0 in range(0, total, step):
                    jobs.append((alphabet, h, w, n, t0, min(step, total - t0)))
    drv = Driver()

    def model(job):
        alphabet, h, w, n, t0, cnt = job
        rep = drv.ask([f"regions_enum rows={h} cols={w} n={n} alphabet={','.join(alphabet)} from={t0} count={cnt}"])[0]
        return np.array(rep.split(","), dtype=np.int64).reshape(cnt, h * w)

    with ThreadPoolExecutor(max_workers=14) as ex:
        model_out = ex.map(model, jobs)
        for job, mo in zip(jobs, model_out):
            alphabet, h, w, n, t0, cnt = job
            al = np.array([untok(t) for t in alphabet], dtype=np.float64)
            real, codes = run_enum(h, w, n, al, t0, cnt)
            r.evaluations += cnt
            r.tag(f"enum:k{len(alphabet)}:cells{h * w}", cnt)
            if h >= 2 and w >= 2:
                # the same rasters F-ordered: labels must be the same, cell for cell
                real_f, codes_f = run_enum_f(h, w, n, al, t0, cnt)
                r.tag("enum:layout:F", cnt)
                for i in np.nonzero(codes_f)[0][:3]:
                    c = dict(kind="enum", rows=h, cols=w, n=n, alphabet=alphabet, t=int(t0 + i), dtype="float64", tag="enum", layout="F")
                    r.fail("regions:components", CODES[int(codes_f[i])] + f" (neighborhood={n}, F-ordered raster)", c)
                for i in np.nonzero((real_f != mo).any(axis=1))[0][:3]:
                    c = dict(kind="enum", rows=h, cols=w, n=n, alphabet=alphabet, t=int(t0 + i), dtype="float64", tag="enum", layout="F")
                    r.disagree("enum", c, real_f[i].tolist(), mo[i].tolist())
            # every enumerated raster is a distinct input; constant rasters / single cells are trivial
            r.nontrivial.extra += (cnt - (len(alphabet) if t0 == 0 else 0)) if h * w >= 2 else 0
            r.extra["enum_rasters"] = r.extra.get("enum_rasters", 0) + cnt
            badc = np.nonzero(codes)[0]
            for i in badc[:3]:
                c = dict(kind="enum", rows=h, cols=w, n=n, alphabet=alphabet, t=int(t0 + i), dtype="float64", tag="enum")
                r.fail("regions:components", CODES[int(codes[i])] + f" (neighborhood={n})", c)
            diff = np.nonzero((real != mo).any(axis=1))[0]
            for i in diff[:3]:
                c = dict(kind="enum", rows=h, cols=w, n=n, alphabet=alphabet, t=int(t0 + i), dtype="float64", tag="enum")
                r.disagree("enum", c, real[i].tolist(), mo[i].tolist())
    r.extra["enum_plan"] = [dict(alphabet=a, max_cells=m) for a, m in plan]


def mag_tags(c, a):
    if "vmap" not in c:
        return []
    t = ["mag:" + c["mag"]]
    if a is not None and a.dtype.kind in "iu":
        t.append("mag:cells>dtype-max" if np.iinfo(a.dtype).max < a.size else "mag:cells<=dtype-max")
        if a.dtype.kind == "i" and (a < 0).any():
            t.append("mag:negative-values")
        if a.size and ((a == np.iinfo(a.dtype).min).any() or (a == np.iinfo(a.dtype).max).any()):
            t.append("mag:dtype-extreme-present")
    if a is not None and a.size and a.dtype.kind == "f" and np.nanmax(np.abs(np.where(np.isnan(a), 0, a))) >= 1e5:
        t.append("mag:|v|>=1e5-present")
    if a is not None and not equality_domain(a):
        t.append("mag:outside-domain(not judged)")
    return t


def run(r, scale=1):
    r.rule = ("enum: every raster over the alphabet for every shape with h*w <= max_cells (float64, NaN as a symbol), both "
              "neighbourhoods, labels compared exactly with the model and checked by flood fill; random: shapes <= 12x14 and "
              "1xN / Nx1 up to 30, 1-4 values, blobs, spirals / combs / rings / checker / U / S / staircases (flipped), "
              "float64/float32 with NaN, int64/int32; memory layout of the array handed to regions(): C, F, transposed view, "
              "strided (C and F parent), negative strides, read-only, DataArray.transpose -- the model and the oracle see the "
              "logical raster; every enumerated raster with h,w >= 2 is also run F-ordered; many: rasters up to ~1000 (thorough "
              "1600) cells with 60-1000 provisional labels (alternating rows with bridges, isolated cells with stamped shapes, "
              "dense random); narrow: uint8 / int8 / int16 rasters with more provisional labels than "
              "the dtype counts, also re-valued (negative values, dtype extremes); magnitude x dtype (`magnify`): the rasters of "
              "the random (every 2nd), many (every 3rd) and narrow streams and a stream of blobs / noise over 2-5 values in three "
              "size classes (<= 88 cells; 130-221: more than int8 counts; 260-551: more than uint8 counts; one 33000..40000-cell "
              "int16 column) are re-valued by an injective map of their alphabet into a class of one of the ten dtypes int8..uint64, "
              "float32, float64 (each in turn): neg = small negative and positive values, edges = the dtype's extremes and their "
              "neighbours (64-bit: +-(2^62-1)), bigclose = large values 3..40 tolerances apart (1e5, 1e6, 2^24, 1e9, 1e12, 2^53-1e12, "
              "+-1e20), spike = the small classes kept and 1-3 cells overwritten with 1e5 / 1e6 / 1e20 / -999999 / -9999 / dtype "
              "extremes; judged by flood fill on equal values (integers compared as integers) whenever any two different values "
              "of the raster are further apart than 2*(atol + rtol*max|v|), failing rasters are cropped greedily; "
              "wild (model only): values within / just outside rtol, +-inf, ints >= 1e5; il:areaConnectivity: "
              "the generated program vs the numba function on rasters <= 9x12 (random, late-merging shapes, many labels, "
              "close-but-unequal values, +-inf, NaN frames / rows / scatter / all, 1xN / Nx1, n = 4 / 8, C / F / transposed / "
              "strided / negative-stride arrays); non-trivial = "
              "at least two cells and two distinct values or a NaN")
    requests, pending = [], []
    for c in r.corpus():
        cc = c.get("case", c)
        r.case(cc, nontrivial=True, tags=["corpus"])
        check_case(r, cc, requests, pending)
    # --- exhaustive small rasters
    run_enum_stream(r, ENUM_PLAN[r.tier])
    r.exhaustive = True
    # --- random / structured
    n_rand = {"quick": 700, "thorough": 6000}[r.tier] * scale
    for k in range(n_rand):
        c = gen_case(r.rng, big=(k % 3 == 0))
        if k % 2 == 1:
            c = magnify(r.rng, c, materialise(c))
        a = materialise(c)
        nontriv = a.size >= 2 and (len(set(a.ravel().tolist())) >= 2)
        r.case(c, desc=c if k < 2 else None, nontrivial=nontriv,
               tags=mag_tags(c, a) + [f"dtype:{c['dtype']}", f"n:{c['n']}", c["tag"], "nan" if (a != a).any() else "no-nan",
                     "1xN" if a.shape[0] == 1 else ("Nx1" if a.shape[1] == 1 else "2d"), f"layout:{c['layout']}",
                     "numba-layout:" + layout_class(lay(a, c["layout"]))])
        check_case(r, c, requests, pending)
    # --- many provisional labels (combs with bridges at chosen ids, sparse merges, dense random)
    for k in range({"quick": 60, "thorough": 600}[r.tier] * scale):
        c = gen_many(r.rng, max_cells={"quick": 1000, "thorough": 1600}[r.tier])
        if k % 3 == 2:
            c = magnify(r.rng, c, materialise(c))
        a = materialise(c)
        r.case(c, desc=dict(c, grid=f"{a.shape[0]}x{a.shape[1]}") if k < 1 else None, nontrivial=True,
               tags=mag_tags(c, a) + [c["tag"], f"dtype:{c['dtype']}", f"n:{c['n']}", f"layout:{c['layout']}",
                     "many:cells>=%d" % (100 * (a.size // 100)) if a.size < 500 else "many:cells>=500"])
        check_case(r, c, requests, pending)
    # --- narrow integer dtypes
    for k in range({"quick": 6, "thorough": 16}[r.tier] * scale):
        c = gen_narrow(r.rng, k % 4)
        r.case(c, desc=c if k == 0 else None, nontrivial=True, tags=[c["tag"], f"dtype:{c['dtype']}"])
        check_case(r, c, requests, pending)
        # the same picture over other values of the dtype (negative where signed, the dtype's extremes)
        c2 = magnify(r.rng, c, np.array([[0.0, 1.0]]), dtypes=[c["dtype"]], classes=["neg", "edges"])
        if "vmap" in c2:
            r.case(c2, nontrivial=True, tags=mag_tags(c2, None) + [c["tag"], f"dtype:{c['dtype']}"])
            check_case(r, c2, requests, pending)
    # --- value magnitude x dtype (every dtype in turn)
    for k in range({"quick": 500, "thorough": 6000}[r.tier] * scale):
        c = gen_mag(r.rng, k)
        a = materialise(c)
        r.case(c, desc=c if k == 0 else None, nontrivial=a.size >= 2,
               tags=mag_tags(c, a) + [c["tag"], f"dtype:{c['dtype']}", f"n:{c['n']}", "nan" if (a != a).any() else "no-nan"])
        check_case(r, c, requests, pending)
    # --- outside the domain: model vs code only
    for k in range({"quick": 300, "thorough": 3000}[r.tier] * scale):
        c = gen_wild(r.rng)
        r.case(c, nontrivial=True, tags=[c["tag"]])
        check_case(r, c, requests, pending)
    # --- validation
    for n in (0, 1, 5, 6, 9, -4):
        c = dict(kind="grid", n=n, dtype="float64", grid=[["1", "2"], ["2", "1"]], tag="bad-n")
        r.case(c, nontrivial=False, tags=["bad-n"])
        check_case(r, c, requests, pending)
    flush_model(r, requests, pending, "random")
    # --- layer T3: the generated program (the subject of `generated_refines`) against the numba function
    il_corr.stream(r, ["areaConnectivity"], {"quick": 500, "thorough": 5000}[r.tier] * scale)
    r.assumptions.append("float closeness (rtol/atol) is modelled in exact rational arithmetic; values are integers, "
                         "dyadics, or at least 1e-7 relative away from the tolerance boundary")
    r.assumptions.append("'same value' is equality: judged rasters hold finite values any two of which differ by more than "
                         "2*(atol + rtol*max|v|) (closer large values are merged by the unchanged code by design: isclose is not an "
                         "equivalence); 64-bit integers up to 2^62-1 in magnitude (beyond, the kernel's own integer subtraction "
                         "wraps); the model is compared only on rasters whose values a float64 holds exactly")
    r.assumptions.append("known finding D26 (regions:signed-minimum): the minimum of a signed integer dtype in a raster that is not "
                         "widened matches nothing (abs overflow); classified by re-judging the raster without those cells")
    r.trusted.append("numba / numpy semantics of _area_connectivity (compared on the generated cases only)")
    r.trusted.append("layer T3: the translator harness/facts_il.py (validated by the il:areaConnectivity stream); numba's int64 "
                     "wrap-around and float32 rounding of labels above 2^24 are outside ILang")


def il_to_grid(c):
    """an `il:areaConnectivity` case as a case for the property oracle: the same raster under the same layout;
    outside the property's domain (non-integers, +-inf, |v| >= 5e4) only the wrapper checks apply"""
    d = np.array(c["case"]["data"], dtype=np.float64)
    vals = d[~np.isnan(d)]
    integer = bool(np.all(np.isfinite(vals)) and np.all(vals == np.round(vals)) and np.all(np.abs(vals) < 5e4))
    g = dict(kind="grid", n=c["case"]["n"], dtype="float64", grid=[[tok(v) for v in row] for row in d.tolist()],
             tag="il", layout=c["case"].get("lay", "C"))
    if not integer:
        g["wild"] = True
    return g


def search(r):
    """a proof obligation or the correspondence broke: look for a failing input with the oracle"""
    requests, pending = [], []
    for d in r.disagreements[:20]:
        c = d["case"]
        if isinstance(c, dict) and c.get("kind"):
            check_case(r, c, requests, pending, model=False)
        elif isinstance(c, dict) and c.get("prog") == "areaConnectivity":
            check_case(r, il_to_grid(c), requests, pending, model=False)
    if r.failures:
        return
    n = {"quick": 3000, "thorough": 20000}[r.tier]
    for k in range(n):
        c = gen_many(r.rng) if k % 8 == 7 else gen_mag(r.rng, k) if k % 2 == 0 else gen_case(r.rng, big=True)
        if k % 8 in (1, 7):
            c = magnify(r.rng, c, materialise(c))
        r.case(c, nontrivial=True, tags=["search"])
        check_case(r, c, requests, pending, model=False)
        if len(r.failures) >= 3:
            break


def replay(r, body):
    c = body["case"]
    if isinstance(c, dict) and "prog" in c:        # a translator-validation case (layer T3)
        bad = il_corr.replay_case(c)
        print("still disagrees with the generated program" if bad else "agrees on the current tree")
        return bad
    requests, pending = [], []
    check_case(r, c, requests, pending, model=False)
    if r.failures:
        print("still fails:", r.failures[0]["what"])
        return 1
    print("does not fail on the current tree")
    return 0
