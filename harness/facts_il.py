"""
Layer T3: numba loop nests of /repo -> programs of the imperative language `Core/ILang.lean`
(lean/XrsVerif/Gen/IL.lean), statement by statement, from the `ast` of /repo's *current* source.

What is translated (everything else becomes `.fail "untranslatable: ..."` and `ok := false`, which no
refinement theorem can discharge and which the driver reports as an error):

* scalars: integer (`Int`), numeric (generic `F`), boolean; the sort of a local is inferred from all its
  bindings (an integer that is also bound to a numeric value is numeric -- numba's type unification);
* arrays: 1-D / 2-D numeric (`f1`, `f2`) and integer / boolean (`i1`, `i2`) arrays, declared for the parameters
  in `TARGETS`, inferred for arrays allocated in the function (`np.zeros`, `np.ones(..) * c`, `np.empty`,
  `np.zeros_like`, `np.full`; `a[:] = e` is a fill);
* `for v in range(..)` / `prange(..)` (1-3 arguments), `for e in <f1 array>`, `for a, b in zip(<i1>, <i1>)`,
  `while`, `if / elif / else`, `break`, `continue`, `return` (values go to `ret0`, `ret1`, ...),
  `x op= e`, tuple unpacking of `.shape` and of an inlined call's results;
* integer `+ - * // % **k`, `min`, `max`, `len`, `.shape[k]`; numeric `+ - * / **2 **0.5`, `abs`, `np.sqrt`,
  `np.abs`, numeric casts (`np.float32(e)`, `float(e)`: dropped, listed in the report);
  comparisons (chained ones split), `and / or / not`, `np.isnan`, `np.isfinite`, truth value of an integer;
* calls of other `@ngjit` functions of the same module are inlined (`.scope`, parameters bound by assignment,
  arrays passed by name); module-level integer constants are substituted;
* `EXTERNAL` calls stay calls (`FE.ext`): the metric dispatch `_distance(x1, x2, y1, y2, metric)`.

Nothing is imported or run.
"""
import ast
import os

# lean name, file, function, parameter sorts
TARGETS = [
    ("cpuBin", "xrspatial/classify.py", "_cpu_bin", dict(data="f2", bins="f1", new_values="f1")),
    ("strides", "xrspatial/zonal.py", "_strides", dict(flatten_zones="f1", unique_zones="f1")),
    ("trim", "xrspatial/zonal.py", "_trim", dict(data="f2", excludes="f1")),
    ("crop", "xrspatial/zonal.py", "_crop", dict(data="f2", values="f1")),
    ("isNotCrossable", "xrspatial/pathfinding.py", "_is_not_crossable", dict(cell_value="num", barriers="f1")),
    ("isInside", "xrspatial/pathfinding.py", "_is_inside", dict(py="int", px="int", h="int", w="int")),
    ("minCostPixelId", "xrspatial/pathfinding.py", "_min_cost_pixel_id", dict(cost="f2", is_open="i2")),
    ("findNearestPixel", "xrspatial/pathfinding.py", "_find_nearest_pixel",
     dict(py="int", px="int", data="f2", barriers="f1")),
    ("reconstructPath", "xrspatial/pathfinding.py", "_reconstruct_path",
     dict(path_img="f2", parent_ys="i2", parent_xs="i2", cost="f2", start_py="int", start_px="int",
          goal_py="int", goal_px="int")),
    ("aStarSearch", "xrspatial/pathfinding.py", "_a_star_search",
     dict(data="f2", path_img="f2", start_py="int", start_px="int", goal_py="int", goal_px="int",
          barriers="f1", neighbor_ys="i1", neighbor_xs="i1")),
    ("proximityLine", "xrspatial/proximity.py", "_process_proximity_line",
     dict(source_line="f1", xs="f2", ys="f2", pan_near_x="i1", pan_near_y="i1", is_forward="bool",
          line_id="int", width="int", max_distance="num", line_proximity="f1", nearest_xs="i1",
          nearest_ys="i1", values="f1", distance_metric="int")),
    ("convolve2d", "xrspatial/convolution.py", "_convolve_2d_numpy", dict(data="f2", kernel="f2")),
    # the jitted closure of proximity._process; its free variables are declared after the parameters
    ("processNumpy", "xrspatial/proximity.py", "_process._process_numpy",
     dict(img="f2", x_coords="f2", y_coords="f2", target_values="f1", max_distance="num", distance_metric="int",
          process_mode="int")),
    ("calcDirection", "xrspatial/proximity.py", "_calc_direction", dict(x1="num", x2="num", y1="num", y2="num")),
    # the red-black status tree of viewshed.py: tree_vals is (n, 8) numeric, tree_nodes is (n, 4) integer; the
    # NIL node is index -1 = the last row (numba's negative index wraps; ILang's normIdx models it)
    ("meanNumpy", "xrspatial/focal.py", "_mean_numpy", dict(data="f2", excludes="f1")),
    ("applyMean", "xrspatial/focal.py", "_apply_numpy", dict(data="f2", kernel="f2", func="fn:_calc_mean")),
    ("applySum", "xrspatial/focal.py", "_apply_numpy", dict(data="f2", kernel="f2", func="fn:_calc_sum")),
    ("applyMin", "xrspatial/focal.py", "_apply_numpy", dict(data="f2", kernel="f2", func="fn:_calc_min")),
    ("applyMax", "xrspatial/focal.py", "_apply_numpy", dict(data="f2", kernel="f2", func="fn:_calc_max")),
    ("applyRange", "xrspatial/focal.py", "_apply_numpy", dict(data="f2", kernel="f2", func="fn:_calc_range")),
    ("applyStd", "xrspatial/focal.py", "_apply_numpy", dict(data="f2", kernel="f2", func="fn:_calc_std")),
    ("applyVar", "xrspatial/focal.py", "_apply_numpy", dict(data="f2", kernel="f2", func="fn:_calc_var")),
    ("areaConnectivity", "xrspatial/zonal.py", "_area_connectivity", dict(data="f2", n="int")),
    ("vsFindValueMin", "xrspatial/viewshed.py", "_find_value_min_value", dict(tree_vals="f2", node_id="int")),
    ("vsTreeMinimum", "xrspatial/viewshed.py", "_tree_minimum", dict(tree_nodes="i2", x="int")),
    ("vsTreeSuccessor", "xrspatial/viewshed.py", "_tree_successor", dict(tree_nodes="i2", x="int")),
    ("vsLeftRotate", "xrspatial/viewshed.py", "_left_rotate", dict(tree_vals="f2", tree_nodes="i2", root="int", x="int")),
    ("vsRightRotate", "xrspatial/viewshed.py", "_right_rotate", dict(tree_vals="f2", tree_nodes="i2", root="int", y="int")),
    ("vsInsert", "xrspatial/viewshed.py", "_insert_into_tree",
     dict(tree_vals="f2", tree_nodes="i2", root="int", node_id="int", value="f1")),
    ("vsSearch", "xrspatial/viewshed.py", "_search_for_node", dict(tree_vals="f2", tree_nodes="i2", root="int", key="num")),
    ("vsQuery", "xrspatial/viewshed.py", "_max_grad_in_status_struct",
     dict(tree_vals="f2", tree_nodes="i2", root="int", distance="num", angle="num", gradient="num")),
    ("vsDelete", "xrspatial/viewshed.py", "_delete_from_tree", dict(tree_vals="f2", tree_nodes="i2", root="int", key="num")),
    # event geometry, event list and the radial sweep of viewshed.py
    ("vsEventRowCol", "xrspatial/viewshed.py", "_calculate_event_row_col",
     dict(event_type="int", event_row="int", event_col="int", viewpoint_row="int", viewpoint_col="int")),
    ("vsEventPos", "xrspatial/viewshed.py", "_calc_event_pos",
     dict(event_type="int", event_row="int", event_col="int", viewpoint_row="int", viewpoint_col="int")),
    ("vsAngle", "xrspatial/viewshed.py", "_calculate_angle",
     dict(event_x="num", event_y="num", viewpoint_x="int", viewpoint_y="int")),
    ("vsVerticalAng", "xrspatial/viewshed.py", "_get_vertical_ang",
     dict(viewpoint_elev="num", distance_to_viewpoint="num", elev="num")),
    ("vsInitEventList", "xrspatial/viewshed.py", "_init_event_list",
     dict(event_list="f2", raster="f2", vp_row="int", vp_col="int", data="f2", visibility_grid="f2")),
    ("vsSweep", "xrspatial/viewshed.py", "_viewshed_cpu_sweep",
     dict(raster="f2", vp_row="int", vp_col="int", vp_elev="num", vp_target="num", ew_res="num", ns_res="num",
          event_rcts="i2", event_aes="f2", data="f2", visibility_grid="f2")),
]

# functions that stay calls: name -> (number of numeric args, number of trailing integer args)
EXTERNAL = {"_distance": (4, 1)}     # proximity._distance(x1, x2, y1, y2, metric)
EXTERNAL_IN = {"xrspatial/proximity.py"}
# NaN-ignoring whole-array reductions
RED = {"np.nansum": "nansum", "np.nanmean": "nanmean", "np.nanmin": "nanmin", "np.nanmax": "nanmax",
       "np.nanvar": "nanvar", "np.nanstd": "nanstd"}

ARR = {"f1": ("F", 1), "f2": ("F", 2), "i1": ("I", 1), "i2": ("I", 2)}


class Untranslatable(Exception):
    pass


def src(n):
    try:
        return ast.unparse(n)
    except Exception:
        return "<?>"


FUN_ALIAS = {"math.sqrt": "np.sqrt", "math.atan": "np.arctan", "math.fabs": "np.abs", "math.atan2": "np.arctan2",
             "math.sin": "np.sin", "math.cos": "np.cos", "math.exp": "np.exp", "math.asin": "np.arcsin",
             "sqrt": "np.sqrt", "fabs": "np.abs"}


def lstr(s):
    return '"' + s.replace("\\", "\\\\").replace('"', '\\"') + '"'


def lint(n):
    return f"({n})" if n < 0 else str(n)


def join(a, b):
    if a is None:
        return b
    if b is None or a == b:
        return a
    if {a, b} == {"int", "num"}:
        return "num"
    if {a, b} == {"int", "bool"}:
        return "int"
    if {a, b} == {"num", "bool"}:
        return "num"
    raise Untranslatable(f"a variable is bound to both {a} and {b}")


class Module:
    def __init__(self, repo, rel):
        self.rel = rel
        self.tree = ast.parse(open(os.path.join(repo, rel)).read())
        self.funcs = {n.name: n for n in self.tree.body if isinstance(n, ast.FunctionDef)}
        self.consts = {}
        self.fconsts = {}
        self.alias = {}            # local name -> qualified name for `from math import atan, pi as PI`
        for n in self.tree.body:
            if isinstance(n, ast.ImportFrom) and n.module in ("math", "numpy"):
                pre = "math." if n.module == "math" else "np."
                for a in n.names:
                    self.alias[a.asname or a.name] = pre + a.name
        for n in self.tree.body:
            if isinstance(n, ast.Assign) and len(n.targets) == 1 and isinstance(n.targets[0], ast.Name):
                v = const_int(n.value)
                if v is not None:
                    self.consts[n.targets[0].id] = v
                else:
                    fv = const_float(n.value)
                    if fv is not None:
                        self.fconsts[n.targets[0].id] = fv

    def find(self, path):
        """`outer.inner`: a function defined inside another one"""
        parts = path.split(".")
        f = self.funcs.get(parts[0])
        for part in parts[1:]:
            if f is None:
                return None
            f = next((n for n in ast.walk(f) if isinstance(n, ast.FunctionDef) and n.name == part and n is not f), None)
        return f

    def jitted(self, name):
        f = self.funcs.get(name)
        if f is None:
            return False
        for d in f.decorator_list:
            s = src(d)
            if s in ("ngjit", "jit", "njit") or s.startswith(("jit(", "njit(", "nb.jit", "numba.jit", "nb.njit")):
                return True
        return False


def const_int(n):
    if isinstance(n, ast.Constant) and isinstance(n.value, int) and not isinstance(n.value, bool):
        return n.value
    if isinstance(n, ast.UnaryOp) and isinstance(n.op, ast.USub):
        v = const_int(n.operand)
        return None if v is None else -v
    return None


def const_float(n):
    if isinstance(n, ast.Constant) and isinstance(n.value, float):
        return n.value
    if isinstance(n, ast.UnaryOp) and isinstance(n.op, ast.USub):
        v = const_float(n.operand)
        return None if v is None else -v
    return None


def body_of(f):
    b = list(f.body)
    if b and isinstance(b[0], ast.Expr) and isinstance(b[0].value, ast.Constant) and isinstance(b[0].value.value, str):
        b = b[1:]
    return [s for s in b if not isinstance(s, ast.Pass)]


class Fn:
    """translation of one function (possibly as an inlined callee: `prefix`, `amap` = array aliases)"""

    counter = [0]

    def __init__(self, mod, func, ptypes, prefix="", amap=None, depth=0, report=None):
        self.mod, self.func, self.prefix, self.depth = mod, func, prefix, depth
        self.amap = dict(amap or {})            # array parameter -> name in the outermost program
        self.types = dict(ptypes)                # local name -> sort
        self.ret_types = None
        self.optional = set()                    # locals that are also bound to None: a flag `<name>$some` goes with them
        self.report = report if report is not None else dict(casts=[], inlined=[])
        self.tmp = 0
        if depth > 4:
            raise Untranslatable("call depth")
        self.params = [a.arg for a in func.args.args]
        for p in self.params:
            if p not in self.types:
                raise Untranslatable(f"no sort declared for parameter {p}")
        # names declared beyond the parameters are closure variables: they must be free in the function
        bound = set(self.params)
        for n in ast.walk(func):
            if isinstance(n, ast.Name) and isinstance(n.ctx, ast.Store):
                bound.add(n.id)
        for p in self.types:
            if p not in self.params and p in bound:
                raise Untranslatable(f"declared closure variable {p} is bound inside the function")
        self.infer()

    def fname(self, call):
        """canonical name of the function a call applies: `from math import atan` / `math.atan` -> `np.arctan`"""
        f = src(call.func)
        f = self.mod.alias.get(f, f)
        return FUN_ALIAS.get(f, f)

    def is_pi(self, e):
        return (isinstance(e, ast.Name) and e.id not in self.types and self.mod.alias.get(e.id) in ("math.pi", "np.pi")) \
            or (isinstance(e, ast.Attribute) and src(e) in ("np.pi", "math.pi", "numpy.pi"))

    # ---------------------------------------------------------------- names
    def v(self, name):
        return self.prefix + name

    def arr(self, name):
        return self.amap.get(name, self.prefix + name)

    def arr_name(self, name):
        a = self.arr(name)
        if isinstance(a, tuple):
            raise Untranslatable("shape / whole-array use of the row view " + name)
        return a

    # ---------------------------------------------------------------- sorts
    def infer(self):
        for _ in range(6):
            before = dict(self.types)
            self.infer_block(body_of(self.func))
            if before == self.types:
                return
        raise Untranslatable("sort inference does not settle")

    def bind(self, name, ty):
        if ty is None:
            return
        old = self.types.get(name)
        if old in ARR or ty in ARR:
            if old is not None and old != ty:
                raise Untranslatable(f"{name} is bound to {old} and {ty}")
            self.types[name] = ty
        else:
            self.types[name] = join(old, ty)

    def infer_block(self, stmts):
        for s in stmts:
            if isinstance(s, ast.Assign):
                if len(s.targets) != 1:
                    raise Untranslatable("chained assignment")
                t = s.targets[0]
                if isinstance(t, ast.Name) and self.is_slice_view(s.value):
                    self.views = getattr(self, "views", {})
                    if t.id in self.views and src(self.views[t.id]) != src(s.value):
                        raise Untranslatable("slice view bound twice: " + t.id)
                    self.views[t.id] = s.value
                elif isinstance(t, ast.Name) and isinstance(s.value, ast.Constant) and s.value.value is None:
                    self.optional.add(t.id)
                elif isinstance(t, ast.Name):
                    self.bind(t.id, self.sort(s.value, alloc_ok=True))
                elif isinstance(t, ast.Tuple) and all(isinstance(e, ast.Name) for e in t.elts):
                    tys = self.sorts_of_tuple(s.value, len(t.elts))
                    for e, ty in zip(t.elts, tys):
                        self.bind(e.id, ty)
            elif isinstance(s, ast.AugAssign) and isinstance(s.target, ast.Name):
                self.bind(s.target.id, self.sort(ast.BinOp(left=s.target, op=s.op, right=s.value)))
            elif isinstance(s, ast.For):
                it = s.iter
                if isinstance(it, ast.Call) and src(it.func) in ("range", "prange", "nb.prange", "numba.prange"):
                    if isinstance(s.target, ast.Name):
                        self.bind(s.target.id, "int")
                elif isinstance(it, ast.Name) and self.types.get(it.id) in ("f1", "i1") and isinstance(s.target, ast.Name):
                    self.bind(s.target.id, "num" if self.types[it.id] == "f1" else "int")
                elif isinstance(it, ast.Call) and src(it.func) == "zip" and isinstance(s.target, ast.Tuple):
                    for e, a in zip(s.target.elts, it.args):
                        if isinstance(e, ast.Name) and isinstance(a, ast.Name) and self.types.get(a.id) in ("f1", "i1"):
                            self.bind(e.id, "num" if self.types[a.id] == "f1" else "int")
                self.infer_block(s.body)
                self.infer_block(s.orelse)
            elif isinstance(s, (ast.While, ast.If)):
                self.infer_block(s.body)
                self.infer_block(s.orelse)
            elif isinstance(s, ast.Return):
                vals = []
                if s.value is not None:
                    vals = list(s.value.elts) if isinstance(s.value, ast.Tuple) else [s.value]
                tys = [self.sort(v) for v in vals]
                if self.ret_types is None or len(self.ret_types) != len(tys):
                    self.ret_types = tys
                else:
                    self.ret_types = [b if (a is None or b in ARR or b is None and False) else (a if b is None else join(a, b))
                                      for a, b in zip(self.ret_types, tys)]

    def sorts_of_tuple(self, value, n):
        if isinstance(value, ast.Attribute) and value.attr == "shape":
            return ["int"] * n
        if isinstance(value, ast.Tuple) and len(value.elts) == n:
            return [self.sort(e) for e in value.elts]
        if isinstance(value, ast.Call) and isinstance(value.func, ast.Name) and self.mod.jitted(value.func.id):
            tys = self.callee(value).ret_types
            if tys is None or len(tys) != n:
                return [None] * n
            return tys
        return [None] * n

    def callee(self, call, prefix=None):
        name = call.func.id
        f = self.mod.funcs[name]
        params = [a.arg for a in f.args.args]
        args = self.call_args(call)
        ptypes, amap = {}, {}
        for p, a in zip(params, args):
            ty = self.sort_arg(a)
            if ty is None:
                ty = "int"      # not settled yet (first inference rounds)
            ptypes[p] = ty
            if ty in ARR:
                amap[p] = self.arr_arg(a, prefix or "")
        return Fn(self.mod, f, ptypes, prefix=prefix or (self.prefix + name + "$"), amap=amap,
                  depth=self.depth + 1, report=self.report)

    def call_args(self, call):
        """positional argument nodes of a call of a module function: keywords and defaults resolved"""
        name = call.func.id
        f = self.mod.funcs[name]
        params = [a.arg for a in f.args.args]
        defaults = dict(zip(params[len(params) - len(f.args.defaults):], f.args.defaults))
        if f.args.vararg or f.args.kwarg or f.args.kwonlyargs:
            raise Untranslatable("signature of " + name)
        given = dict(zip(params, call.args))
        if len(call.args) > len(params):
            raise Untranslatable("arity of " + name)
        for kw in call.keywords:
            if kw.arg is None or kw.arg not in params or kw.arg in given:
                raise Untranslatable("keyword argument of " + name)
            given[kw.arg] = kw.value
        out = []
        for p in params:
            if p in given:
                out.append(given[p])
            elif p in defaults:
                d = defaults[p]
                if not (isinstance(d, ast.Constant) or (isinstance(d, ast.Name) and (d.id in self.mod.consts or d.id in self.mod.fconsts))):
                    raise Untranslatable("default value of " + p)
                out.append(d)
            else:
                raise Untranslatable("arity of " + name)
        return out

    def sort_arg(self, a):
        """sort of a call argument; `m[i]` of a 2-D array is a 1-D row view"""
        if isinstance(a, ast.Subscript) and isinstance(a.value, ast.Name) and self.types.get(a.value.id) in ("f2", "i2") \
                and not isinstance(a.slice, (ast.Tuple, ast.Slice)):
            return "f1" if self.types[a.value.id] == "f2" else "i1"
        return self.sort(a)

    def arr_arg(self, a, prefix):
        if isinstance(a, ast.Name):
            return self.arr(a.id)
        if isinstance(a, ast.Subscript) and isinstance(a.value, ast.Name):
            base = self.arr(a.value.id)
            if isinstance(base, tuple):
                raise Untranslatable("row of a row view")
            return ("row", base, prefix + "row$" + a.value.id, a.slice)
        raise Untranslatable("array argument " + src(a))

    def sort(self, e, alloc_ok=False):
        """sort of an expression, None when it depends on a name without a sort yet"""
        if isinstance(e, ast.Constant):
            if isinstance(e.value, bool):
                return "bool"
            if isinstance(e.value, int):
                return "int"
            if isinstance(e.value, float):
                return "num"
            raise Untranslatable("constant " + src(e))
        if self.is_pi(e):
            return "num"
        if isinstance(e, ast.Name):
            if e.id in self.types:
                return self.types[e.id]
            if e.id in self.mod.consts:
                return "int"
            if e.id in self.mod.fconsts:
                return "num"
            return None
        if isinstance(e, ast.Attribute):
            s = src(e)
            if s in ("np.nan", "np.inf", "numpy.nan", "numpy.inf", "math.inf", "np.pi"):
                return "num"
            raise Untranslatable("attribute " + s)
        if isinstance(e, ast.UnaryOp):
            if isinstance(e.op, ast.Not):
                return "bool"
            return self.sort(e.operand)
        if isinstance(e, ast.BinOp):
            a = self.sort(e.left, alloc_ok=alloc_ok)
            if alloc_ok and a in ARR:       # np.ones(...) * NONE
                return a
            b = self.sort(e.right)
            if a is None or b is None:
                return None
            a = "int" if a == "bool" else a
            b = "int" if b == "bool" else b
            if isinstance(e.op, ast.Div):
                return "num"
            if isinstance(e.op, ast.Pow):
                k = e.right
                if a == "int" and const_int(k) is not None and const_int(k) >= 0:
                    return "int"
                return "num"
            return "int" if a == "int" and b == "int" else "num"
        if isinstance(e, (ast.Compare, ast.BoolOp)):
            if alloc_ok and self.bare_arrays(e):
                return "i1"
            return "bool"
        if isinstance(e, ast.Subscript):
            if alloc_ok and self.is_where0(e):
                return "i1"
            base = e.value
            if isinstance(base, ast.Attribute) and base.attr == "shape":
                return "int"
            # a[i][j] == a[i, j]
            if isinstance(base, ast.Subscript) and isinstance(base.value, ast.Name):
                base = base.value
            if isinstance(base, ast.Name):
                ty = self.types.get(base.id)
                if ty in ARR:
                    if ARR[ty][1] == 2 and not isinstance(e.slice, (ast.Tuple, ast.Slice)) and e.value is base:
                        return "f1" if ARR[ty][0] == "F" else "i1"       # m[r]: a row view
                    return "num" if ARR[ty][0] == "F" else "int"
                return None
            raise Untranslatable("subscript " + src(e))
        if isinstance(e, ast.Call):
            fn = self.fname(e)
            if fn in ("len",):
                return "int"
            if fn in ("min", "max"):
                tys = [self.sort(a) for a in e.args]
                if None in tys:
                    return None
                return "int" if all(t in ("int", "bool") for t in tys) else "num"
            if fn in ("abs", "np.abs"):
                return self.sort(e.args[0])
            if fn in ("np.isnan", "np.isfinite", "np.isinf"):
                return "bool"
            if fn in ("np.sqrt", "sqrt", "math.sqrt", "np.float32", "np.float64", "float", "np.arctan2", "np.arctan",
                      "np.sin", "np.cos", "np.exp", "np.arcsin"):
                return "num"
            if fn in ("np.sum",) and len(e.args) == 1 and isinstance(e.args[0], ast.Name) \
                    and self.types.get(e.args[0].id) in ("i1", "i2"):
                return "int"
            if fn in ("int", "np.int64", "np.int32") and len(e.args) == 1 and self.sort(e.args[0]) in ("int", "bool"):
                return "int"
            if fn == "int" and len(e.args) == 1 and self.int_quotient(e.args[0]):
                return "int"
            if fn in RED and len(e.args) == 1 and not e.keywords:
                return "num"
            if alloc_ok:
                ty = self.alloc_sort(e)
                if ty:
                    return ty
            if isinstance(e.func, ast.Name) and e.func.id in EXTERNAL and self.mod.rel in EXTERNAL_IN:
                return "num"
            if isinstance(e.func, ast.Name) and self.mod.jitted(e.func.id):
                tys = self.callee(e).ret_types
                if tys is None:
                    return None
                if len(tys) != 1:
                    raise Untranslatable("tuple-valued call used as a value: " + src(e))
                return tys[0]
            if isinstance(e.func, ast.Attribute) and e.func.attr == "astype" and isinstance(e.func.value, ast.Name):
                return self.types.get(e.func.value.id)
            raise Untranslatable("call " + src(e))
        if isinstance(e, ast.IfExp):
            return join(self.sort(e.body), self.sort(e.orelse))
        raise Untranslatable("expression " + src(e))

    def is_slice_view(self, a):
        return (isinstance(a, ast.Subscript) and isinstance(a.value, ast.Name) and self.types.get(a.value.id) == "f2"
                and isinstance(a.slice, ast.Tuple) and len(a.slice.elts) == 2
                and all(isinstance(x, ast.Slice) for x in a.slice.elts))

    def int_quotient(self, e):
        """`a / b` with integer operands (so that `int(a / b)` is the truncated quotient)"""
        return (isinstance(e, ast.BinOp) and isinstance(e.op, ast.Div)
                and self.sort(e.left) == "int" and self.sort(e.right) == "int")

    def dtype_kind(self, call):
        for kw in call.keywords:
            if kw.arg == "dtype":
                s = src(kw.value)
                if "int" in s or "bool" in s:
                    return "I"
                if "float" in s:
                    return "F"
                if s.endswith(".dtype") and isinstance(kw.value, ast.Attribute) and isinstance(kw.value.value, ast.Name):
                    t = self.types.get(kw.value.value.id)
                    return ARR[t][0] if t in ARR else None
                raise Untranslatable("dtype " + s)
        return None

    def alloc_dims(self, a):
        """the shape argument of an allocation as a list of ast nodes (or ('shape-of', name))"""
        if isinstance(a, ast.Attribute) and a.attr == "shape" and isinstance(a.value, ast.Name):
            return ("shape-of", a.value.id)
        if isinstance(a, ast.Tuple):
            return list(a.elts)
        return [a]

    def bare_arrays(self, e):
        """1-D arrays used as whole values (not subscripted) in an expression"""
        out = []

        def walk(n, sub=False):
            if isinstance(n, ast.Subscript):
                walk(n.slice)
                if not isinstance(n.value, ast.Name):
                    walk(n.value)
                return
            if isinstance(n, ast.Call):
                for a in n.args:
                    walk(a)
                return
            if isinstance(n, ast.Name) and self.types.get(n.id) in ("f1", "i1"):
                out.append(n.id)
            for c in ast.iter_child_nodes(n):
                walk(c)
        walk(e)
        return out

    def is_where0(self, e):
        return (isinstance(e, ast.Subscript) and const_int(e.slice) == 0 and isinstance(e.value, ast.Call)
                and src(e.value.func) == "np.where" and len(e.value.args) == 1 and isinstance(e.value.args[0], ast.Name)
                and self.types.get(e.value.args[0].id) == "i1")

    def alloc_sort(self, e):
        if self.is_where0(e):
            return "i1"
        if isinstance(e, (ast.Compare, ast.BoolOp)) and self.bare_arrays(e):
            return "i1"
        if isinstance(e, ast.BinOp) and self.bare_arrays(e):
            return "f1"
        if not isinstance(e, ast.Call):
            return None
        fn = src(e.func)
        if fn == "np.array" and len(e.args) == 1 and isinstance(e.args[0], ast.List) and e.args[0].elts:
            kind = self.dtype_kind(e)
            if kind is None:
                tys = [self.sort(x) for x in e.args[0].elts]
                if None in tys:
                    return None
                kind = "I" if all(t in ("int", "bool") for t in tys) else "F"
            return "f1" if kind == "F" else "i1"
        if fn in ("np.zeros", "np.ones", "np.empty", "np.full"):
            shape = e.args[0] if e.args else next((k.value for k in e.keywords if k.arg == "shape"), None)
            if shape is None:
                raise Untranslatable("allocation without shape: " + src(e))
            dims = self.alloc_dims(shape)
            kind = self.dtype_kind(e) or "F"
            if isinstance(dims, tuple):
                t = self.types.get(dims[1])
                if t not in ARR:
                    return None
                nd = ARR[t][1]
            else:
                nd = len(dims)
            return {("F", 1): "f1", ("F", 2): "f2", ("I", 1): "i1", ("I", 2): "i2"}[(kind, nd)]
        if fn in ("np.zeros_like", "np.empty_like", "np.ones_like"):
            if not isinstance(e.args[0], ast.Name):
                raise Untranslatable("allocation " + src(e))
            t = self.types.get(e.args[0].id)
            if t not in ARR:
                return None
            kind = self.dtype_kind(e) or ARR[t][0]
            return {("F", 1): "f1", ("F", 2): "f2", ("I", 1): "i1", ("I", 2): "i2"}[(kind, ARR[t][1])]
        return None

    # ---------------------------------------------------------------- expressions
    def need_sort(self, e):
        t = self.sort(e)
        if t is None:
            raise Untranslatable("no sort for " + src(e))
        return t

    def ie(self, e):
        """integer expression (Lean text)"""
        if isinstance(e, ast.Name) and e.id.startswith("$row:"):
            return f"(.var {lstr(e.id[5:])})"
        t = self.need_sort(e)
        if t == "bool":
            raise Untranslatable("boolean used as an integer: " + src(e))
        if t != "int":
            raise Untranslatable("numeric expression where an integer is needed: " + src(e))
        c = const_int(e)
        if c is not None:
            return f"(.lit {lint(c)})"
        if isinstance(e, ast.Name):
            if e.id.startswith("$row:"):
                return f"(.var {lstr(e.id[5:])})"
            if e.id in self.types:
                return f"(.var {lstr(self.v(e.id))})"
            return f"(.lit {lint(self.mod.consts[e.id])})"
        if isinstance(e, ast.UnaryOp) and isinstance(e.op, ast.USub):
            return f"(.neg {self.ie(e.operand)})"
        if isinstance(e, ast.UnaryOp) and isinstance(e.op, ast.UAdd):
            return self.ie(e.operand)
        if isinstance(e, ast.BinOp):
            ops = {ast.Add: "add", ast.Sub: "sub", ast.Mult: "mul", ast.FloorDiv: "fdiv", ast.Mod: "mod"}
            if type(e.op) in ops:
                return f"(.bin .{ops[type(e.op)]} {self.ie(e.left)} {self.ie(e.right)})"
            if isinstance(e.op, ast.Pow):
                k = const_int(e.right)
                if k is None or k < 1 or k > 4:
                    raise Untranslatable("integer power " + src(e))
                a = self.ie(e.left)
                out = a
                for _ in range(k - 1):
                    out = f"(.bin .mul {out} {a})"
                return out
            raise Untranslatable("integer operator " + src(e))
        if isinstance(e, ast.Subscript):
            base = e.value
            if isinstance(base, ast.Attribute) and base.attr == "shape" and isinstance(base.value, ast.Name):
                k = const_int(e.slice)
                if k is None or k < 0:
                    raise Untranslatable("shape index " + src(e))
                return f"(.dim {lstr(self.arr_name(base.value.id))} {k})"
            name, idx = self.subscript(e)
            if len(idx) == 1:
                return f"(.ld1 {lstr(name)} {self.ie(idx[0])})"
            return f"(.ld2 {lstr(name)} {self.ie(idx[0])} {self.ie(idx[1])})"
        if isinstance(e, ast.Call):
            fn = self.fname(e)
            if fn == "len" and isinstance(e.args[0], ast.Name) and self.types.get(e.args[0].id) in ARR:
                return f"(.dim {lstr(self.arr_name(e.args[0].id))} 0)"
            if fn in ("min", "max") and len(e.args) >= 2 and not e.keywords:
                out = self.ie(e.args[0])
                for a in e.args[1:]:
                    out = f"(.bin .{fn} {out} {self.ie(a)})"
                return out
            if fn == "int" and self.int_quotient(e.args[0]):
                # exact as long as the operands are far below 2^53 (the float quotient is then never rounded
                # across an integer)
                return f"(.bin .tdiv {self.ie(e.args[0].left)} {self.ie(e.args[0].right)})"
            if fn in ("int", "np.int64", "np.int32"):
                return self.ie(e.args[0])
            if fn == "np.sum" and len(e.args) == 1 and isinstance(e.args[0], ast.Name) \
                    and self.types.get(e.args[0].id) in ("i1", "i2") and not e.keywords:
                return f"(.sum {lstr(self.arr_name(e.args[0].id))})"
            if fn == "abs":
                a = self.ie(e.args[0])
                return f"(.bin .max {a} (.neg {a}))"
            if isinstance(e.func, ast.Name) and self.mod.jitted(e.func.id):
                return self.inline_value(e)[0]
        raise Untranslatable("integer expression " + src(e))

    def subscript(self, e):
        """(array name in the program, [index nodes]) of `a[i]`, `a[i, j]`, `a[i][j]`"""
        base, idx = e.value, e.slice
        if isinstance(base, ast.Subscript) and isinstance(base.value, ast.Name):
            name = base.value.id
            idxs = [base.slice, idx]
        elif isinstance(base, ast.Name):
            name = base.id
            idxs = list(idx.elts) if isinstance(idx, ast.Tuple) else [idx]
        else:
            raise Untranslatable("subscript " + src(e))
        t = self.types.get(name)
        if t not in ARR:
            raise Untranslatable("subscript of a non-array: " + src(e))
        if len(idxs) != ARR[t][1] or any(isinstance(i, ast.Slice) for i in idxs):
            raise Untranslatable("index shape " + src(e))
        target = self.arr(name)
        if isinstance(target, tuple):        # a row view `m[r]` of a 2-D array: v[k] is m[r, k]
            _, base, rowvar, _ = target
            return base, [ast.Name(id="$row:" + rowvar, ctx=ast.Load())] + idxs
        return target, idxs

    def fe(self, e):
        """numeric expression (Lean text); integers are embedded with `.ofInt`"""
        t = self.need_sort(e)
        if t == "int":
            return f"(.ofInt {self.ie(e)})"
        if t == "bool":
            raise Untranslatable("boolean used as a number: " + src(e))
        if self.is_pi(e):
            return ".pi"
        if isinstance(e, ast.Constant):
            from fractions import Fraction
            fr = Fraction(repr(e.value)) if not isinstance(e.value, int) else Fraction(e.value)
            if fr.denominator > 10 ** 12:
                raise Untranslatable("literal " + src(e))
            return f"(.lit {lint(fr.numerator)} {fr.denominator})"
        if isinstance(e, ast.Name):
            if e.id not in self.types and e.id in self.mod.fconsts:
                return self.fe(ast.Constant(value=self.mod.fconsts[e.id]))
            return f"(.var {lstr(self.v(e.id))})"
        if isinstance(e, ast.Attribute):
            s = src(e)
            if s in ("np.nan", "numpy.nan"):
                return ".nan"
            if s in ("np.inf", "numpy.inf", "math.inf"):
                return ".inf"
            raise Untranslatable("attribute " + s)
        if isinstance(e, ast.UnaryOp) and isinstance(e.op, ast.USub):
            return f"(.un .neg {self.fe(e.operand)})"
        if isinstance(e, ast.UnaryOp) and isinstance(e.op, ast.UAdd):
            return self.fe(e.operand)
        if isinstance(e, ast.BinOp):
            ops = {ast.Add: "add", ast.Sub: "sub", ast.Mult: "mul", ast.Div: "div"}
            if type(e.op) in ops:
                return f"(.bin .{ops[type(e.op)]} {self.fe(e.left)} {self.fe(e.right)})"
            if isinstance(e.op, ast.Pow):
                if isinstance(e.right, ast.Constant) and e.right.value == 2:
                    a = self.fe(e.left)
                    return f"(.bin .mul {a} {a})"
                if isinstance(e.right, ast.Constant) and e.right.value == 0.5:
                    return f"(.un .sqrt {self.fe(e.left)})"
            raise Untranslatable("numeric operator " + src(e))
        if isinstance(e, ast.Subscript):
            name, idx = self.subscript(e)
            if len(idx) == 1:
                return f"(.ld1 {lstr(name)} {self.ie(idx[0])})"
            return f"(.ld2 {lstr(name)} {self.ie(idx[0])} {self.ie(idx[1])})"
        if isinstance(e, ast.Call):
            fn = self.fname(e)
            if fn in ("np.sqrt", "sqrt", "math.sqrt"):
                return f"(.un .sqrt {self.fe(e.args[0])})"
            if fn in RED and len(e.args) == 1 and not e.keywords:
                return f"(.red .{RED[fn]} {lstr(self.red_operand(e.args[0]))})"
            if fn in ("abs", "np.abs"):
                return f"(.un .abs {self.fe(e.args[0])})"
            if fn == "np.arctan2" and len(e.args) == 2:
                return f"(.bin .atan2 {self.fe(e.args[0])} {self.fe(e.args[1])})"
            if fn in ("np.arctan", "np.sin", "np.cos", "np.exp", "np.arcsin") and len(e.args) == 1:
                op = {"np.arctan": "atan", "np.sin": "sin", "np.cos": "cos", "np.exp": "exp", "np.arcsin": "asin"}[fn]
                return f"(.un .{op} {self.fe(e.args[0])})"
            if fn in ("np.float32", "np.float64", "float"):
                self.report["casts"].append(src(e)[:60])
                return self.fe(e.args[0])
            if fn in ("min", "max") and len(e.args) >= 2 and not e.keywords:
                out = self.fe(e.args[0])
                for a in e.args[1:]:
                    out = f"(.bin .{fn} {out} {self.fe(a)})"
                return out
            if isinstance(e.func, ast.Name) and e.func.id in EXTERNAL and self.mod.rel in EXTERNAL_IN:
                nf, ni = EXTERNAL[e.func.id]
                if len(e.args) != nf + ni or e.keywords:
                    raise Untranslatable("arity of external " + src(e))
                fa = [self.fe(a) for a in e.args[:nf]] + ["(.lit 0 1)"] * (4 - nf)
                ia = self.ie(e.args[nf]) if ni else "(.lit 0)"
                return f"(.ext {lstr(e.func.id)} {' '.join(fa)} {ia})"
            if isinstance(e.func, ast.Name) and self.mod.jitted(e.func.id):
                return self.inline_value(e)[0]
        raise Untranslatable("numeric expression " + src(e))

    CMP = {ast.Lt: "lt", ast.LtE: "le", ast.Eq: "eq", ast.NotEq: "ne", ast.Gt: "gt", ast.GtE: "ge"}

    def be(self, e):
        """condition (Lean text)"""
        if isinstance(e, ast.Constant) and isinstance(e.value, bool):
            return ".tt" if e.value else ".ff"
        if isinstance(e, ast.BoolOp):
            op = "and" if isinstance(e.op, ast.And) else "or"
            for v in e.values[1:]:
                if contains_user_call(v, self.mod):
                    raise Untranslatable("call under a short-circuit operator: " + src(e))
            out = self.be(e.values[-1])
            for v in reversed(e.values[:-1]):
                out = f"(.{op} {self.be(v)} {out})"
            return out
        if isinstance(e, ast.UnaryOp) and isinstance(e.op, ast.Not):
            return f"(.not {self.be(e.operand)})"
        if isinstance(e, ast.Compare):
            parts = []
            left = e.left
            for op, right in zip(e.ops, e.comparators):
                parts.append(self.compare(left, op, right))
                left = right
            out = parts[-1]
            for p in reversed(parts[:-1]):
                out = f"(.and {p} {out})"
            return out
        if isinstance(e, ast.Call) and src(e.func) in ("np.isnan", "np.isfinite"):
            k = "isnan" if src(e.func) == "np.isnan" else "isfinite"
            return f"(.{k} {self.fe(e.args[0])})"
        if isinstance(e, ast.Call) and src(e.func) == "abs" and len(e.args) == 1 and self.sort(e.args[0]) == "bool":
            return self.be(e.args[0])          # abs(True) = 1, abs(False) = 0: the same truth value
        t = self.need_sort(e)
        if t == "bool":
            if isinstance(e, ast.Name):
                return f"(.var {lstr(self.v(e.id))})"
            if isinstance(e, ast.Call) and isinstance(e.func, ast.Name) and self.mod.jitted(e.func.id):
                return self.inline_value(e)[0]
            raise Untranslatable("boolean expression " + src(e))
        if t == "int":
            return f"(.cmpI .ne {self.ie(e)} (.lit 0))"
        if t == "num":
            return f"(.cmpF .ne {self.fe(e)} (.lit 0 1))"
        raise Untranslatable("condition " + src(e))

    def red_operand(self, a):
        """the array a reduction runs over: a numeric array, or a 2-D slice `m[r0:r1, c0:c1]` (directly or through
        a name bound to it), which is first copied into a scratch array"""
        if isinstance(a, ast.Name) and a.id in getattr(self, "views", {}):
            if getattr(self, "view_fresh", None) != a.id:
                raise Untranslatable("slice view " + a.id + " used away from its binding")
            a = self.views[a.id]
        if isinstance(a, ast.Name) and self.types.get(a.id) in ("f1", "f2"):
            return self.arr_name(a.id)
        if isinstance(a, ast.Subscript) and isinstance(a.value, ast.Name) and self.types.get(a.value.id) == "f2" \
                and isinstance(a.slice, ast.Tuple) and len(a.slice.elts) == 2 \
                and all(isinstance(x, ast.Slice) and x.step is None and x.lower is not None and x.upper is not None
                        for x in a.slice.elts):
            base = self.arr_name(a.value.id)
            self.tmp += 1
            t = self.v(f"slice{self.tmp}$")
            (r, c) = a.slice.elts
            r0, r1, c0, c1 = self.ie(r.lower), self.ie(r.upper), self.ie(c.lower), self.ie(c.upper)
            # numpy clamps slice bounds to the array; the targets only use bounds that are already clamped, which
            # the bounds check of the copy loop enforces (an out-of-range bound stops the program)
            self.pre.append(f"(.setI {lstr(t + 'r0')} {r0})")
            self.pre.append(f"(.setI {lstr(t + 'c0')} {c0})")
            self.pre.append(f"(.allocF {lstr(t + 'a')} [(.bin .max (.bin .sub {r1} (.var {lstr(t + 'r0')})) (.lit 0)), "
                            f"(.bin .max (.bin .sub {c1} (.var {lstr(t + 'c0')})) (.lit 0))] .nan)")
            self.pre.append(
                f"(.forRange {lstr(t + 'i')} (.lit 0) (.dim {lstr(t + 'a')} 0) (.lit 1)\n"
                f"  (.forRange {lstr(t + 'j')} (.lit 0) (.dim {lstr(t + 'a')} 1) (.lit 1)\n"
                f"    (.stF2 {lstr(t + 'a')} (.var {lstr(t + 'i')}) (.var {lstr(t + 'j')}) "
                f"(.ld2 {lstr(base)} (.bin .add (.var {lstr(t + 'r0')}) (.var {lstr(t + 'i')})) "
                f"(.bin .add (.var {lstr(t + 'c0')}) (.var {lstr(t + 'j')}))))))")
            return t + "a"
        raise Untranslatable("reduction over " + src(a))

    def compare(self, a, op, b):
        if isinstance(op, (ast.Is, ast.IsNot)):
            if isinstance(a, ast.Name) and a.id in self.optional and isinstance(b, ast.Constant) and b.value is None:
                some = f"(.var {lstr(self.v(a.id + '$some'))})"
                return some if isinstance(op, ast.IsNot) else f"(.not {some})"
            raise Untranslatable("identity test " + src(a) + " " + src(b))
        if type(op) not in self.CMP:
            raise Untranslatable("comparison " + src(op))
        o = self.CMP[type(op)]
        if isinstance(a, ast.Tuple) and isinstance(b, ast.Tuple) and len(a.elts) == len(b.elts) and o in ("eq", "ne"):
            parts = [self.compare(x, ast.Eq(), y) for x, y in zip(a.elts, b.elts)]
            out = parts[-1]
            for p in reversed(parts[:-1]):
                out = f"(.and {p} {out})"
            return out if o == "eq" else f"(.not {out})"
        ta, tb = self.need_sort(a), self.need_sort(b)
        if ta == "bool" or tb == "bool":
            # is_open[..] == True style comparisons are not used in the targets
            raise Untranslatable("comparison of booleans " + src(a) + " " + src(b))
        if ta == "int" and tb == "int":
            return f"(.cmpI .{o} {self.ie(a)} {self.ie(b)})"
        return f"(.cmpF .{o} {self.fe(a)} {self.fe(b)})"

    # ---------------------------------------------------------------- inlining
    def inline_value(self, call):
        """inline a call whose value is used: returns the list of result expressions; the callee's body is
        appended to `self.pre` (executed before the statement that uses the value)"""
        Fn.counter[0] += 1
        name = call.func.id
        sub = self.callee(call, prefix=f"{self.prefix}{name}{Fn.counter[0]}$")
        stmts = []
        for p, a in zip(sub.params, self.call_args(call)):
            ty = sub.types[p]
            if ty in ARR:
                view = sub.amap.get(p)
                if isinstance(view, tuple) and view[3] is not None:
                    stmts.append(f"(.setI {lstr(view[2])} {self.ie(view[3])})")
                continue
            stmts.append(self.assign_text(sub.v(p), ty, a))
        body = sub.block(body_of(sub.func))
        self.pre.extend(stmts)
        self.pre.append(f"(.scope {body})")
        self.report["inlined"].append(name)
        self.last_ret_types = list(sub.ret_types or [])
        if sub.ret_types is None:
            return []
        out = []
        for k, ty in enumerate(sub.ret_types):
            r = lstr(sub.v(f"ret{k}"))
            out.append(f"(.var {r})")
        return out

    def assign_text(self, name, ty, e):
        if ty == "int":
            return f"(.setI {lstr(name)} {self.ie(e)})"
        if ty == "num":
            return f"(.setF {lstr(name)} {self.fe(e)})"
        if ty == "bool":
            return f"(.setB {lstr(name)} {self.be(e)})"
        raise Untranslatable("assignment of sort " + str(ty))

    # ---------------------------------------------------------------- statements
    def block(self, stmts):
        out = []
        saved = getattr(self, "view_fresh", None)
        self.view_fresh = None
        for s in stmts:
            out.extend(self.stmt(s))
            # a slice view may only be used by the statement that directly follows its binding
            if isinstance(s, ast.Assign) and len(s.targets) == 1 and isinstance(s.targets[0], ast.Name) \
                    and s.targets[0].id in getattr(self, "views", {}):
                self.view_fresh = s.targets[0].id
            else:
                self.view_fresh = None
        self.view_fresh = saved
        return seq(out)

    def with_pre(self, fn):
        """run fn() collecting hoisted callee bodies; returns pre-statements + result statements"""
        saved = getattr(self, "pre", None)
        self.pre = []
        try:
            res = fn()
            return self.pre + res
        finally:
            self.pre = saved

    def stmt(self, s):
        if isinstance(s, ast.Assign):
            return self.with_pre(lambda: self.assign(s))
        if isinstance(s, ast.AugAssign):
            new = ast.Assign(targets=[s.target], value=ast.BinOp(left=load(s.target), op=s.op, right=s.value))
            return self.with_pre(lambda: self.assign(new))
        if isinstance(s, ast.If):
            def go():
                c = self.be(s.test)
                return [f"(.ite {c}\n{ind(self.block(s.body))}\n{ind(self.block(s.orelse))})"]
            return self.with_pre(go)
        if isinstance(s, ast.While):
            if s.orelse:
                raise Untranslatable("while-else")
            if contains_user_call(s.test, self.mod):
                # `while A1 and A2 ...: body` with calls in the conjuncts is `while True:` + one
                # `if not Ai: break` per conjunct, each preceded by its own (hoisted) callee bodies --
                # the same evaluation order and short-circuiting as the source
                conj = s.test.values if isinstance(s.test, ast.BoolOp) and isinstance(s.test.op, ast.And) else [s.test]
                parts = []
                for c in conj:
                    parts += self.with_pre(lambda c=c: [f"(.ite {self.be(c)}\n  .skip\n  .brk)"])
                body = seq(parts + [self.block(s.body)])
                return [f"(.while .tt\n{ind(body)})"]
            self.pre = []
            return [f"(.while {self.be(s.test)}\n{ind(self.block(s.body))})"]
        if isinstance(s, ast.For):
            return self.with_pre(lambda: self.for_(s))
        if isinstance(s, ast.Break):
            return [".brk"]
        if isinstance(s, ast.Continue):
            return [".cont"]
        if isinstance(s, ast.Return):
            return self.with_pre(lambda: self.ret(s))
        if isinstance(s, ast.Expr):
            if isinstance(s.value, ast.Constant):
                return []
            if isinstance(s.value, ast.Call) and isinstance(s.value.func, ast.Name) and self.mod.jitted(s.value.func.id):
                def go():
                    self.inline_value(s.value)
                    return []
                return self.with_pre(go)
            if isinstance(s.value, ast.Call) and isinstance(s.value.func, ast.Attribute) and s.value.func.attr == "fill" \
                    and isinstance(s.value.func.value, ast.Name) and self.types.get(s.value.func.value.id) in ARR \
                    and len(s.value.args) == 1:
                fill = ast.Assign(targets=[ast.Subscript(value=s.value.func.value, slice=ast.Slice(lower=None, upper=None, step=None),
                                                         ctx=ast.Store())], value=s.value.args[0])
                return self.with_pre(lambda: self.assign(fill))
            if isinstance(s.value, ast.Call) and src(s.value.func) == "print":
                self.report.setdefault("dropped", []).append("print")
                return []
            raise Untranslatable("expression statement " + src(s))
        if isinstance(s, ast.Pass):
            return []
        if isinstance(s, ast.Assert):
            return self.with_pre(lambda: [f"(.ite {self.be(s.test)}\n  .skip\n  (.fail \"AssertionError\"))"])
        if isinstance(s, ast.Raise):
            what = src(s.exc.func) if isinstance(s.exc, ast.Call) else src(s.exc) if s.exc else "raise"
            return [f"(.fail {lstr(what)})"]
        raise Untranslatable("statement " + src(s).splitlines()[0])

    def ret(self, s):
        vals = []
        if s.value is not None:
            vals = list(s.value.elts) if isinstance(s.value, ast.Tuple) else [s.value]
        tys = [self.need_sort(v) for v in vals]
        if self.ret_types is None:
            self.ret_types = tys
        else:
            if len(self.ret_types) != len(tys):
                raise Untranslatable("returns of different arity")
            self.ret_types = [t if t in ARR else join(a, t) for a, t in zip(self.ret_types, tys)]
        out = []
        for k, (v, ty) in enumerate(zip(vals, tys)):
            if ty in ARR:
                if not isinstance(v, ast.Name):
                    raise Untranslatable("returned array expression " + src(v))
                self.ret_arrays = getattr(self, "ret_arrays", {})
                self.ret_arrays.setdefault(k, [])
                if self.arr_name(v.id) not in self.ret_arrays[k]:
                    self.ret_arrays[k].append(self.arr_name(v.id))
                continue
            # a variable declared numeric by another return keeps that sort
            rty = self.ret_types[k]
            out.append(self.assign_text(self.v(f"ret{k}"), rty, v))
        return out + [".ret"]

    def for_(self, s):
        if s.orelse:
            raise Untranslatable("for-else")
        it = s.iter
        if isinstance(it, ast.Call) and src(it.func) in ("range", "prange", "nb.prange", "numba.prange"):
            if not isinstance(s.target, ast.Name) or it.keywords:
                raise Untranslatable("for target " + src(s.target))
            a = it.args
            lo, hi, st = "(.lit 0)", None, "(.lit 1)"
            if len(a) == 1:
                hi = self.ie(a[0])
            elif len(a) == 2:
                lo, hi = self.ie(a[0]), self.ie(a[1])
            elif len(a) == 3:
                lo, hi, st = self.ie(a[0]), self.ie(a[1]), self.ie(a[2])
            else:
                raise Untranslatable("range arity")
            return [f"(.forRange {lstr(self.v(s.target.id))} {lo} {hi} {st}\n{ind(self.block(s.body))})"]
        if isinstance(it, ast.Name) and self.types.get(it.id) == "f1" and isinstance(s.target, ast.Name):
            return [f"(.forIn {lstr(self.v(s.target.id))} {lstr(self.arr_name(it.id))}\n{ind(self.block(s.body))})"]
        if isinstance(it, ast.Call) and src(it.func) == "zip" and isinstance(s.target, ast.Tuple) \
                and len(it.args) == len(s.target.elts) >= 1 \
                and all(isinstance(x, ast.Name) and self.types.get(x.id) == "i1" for x in it.args) \
                and all(isinstance(x, ast.Name) for x in s.target.elts):
            self.tmp += 1
            k = self.v(f"zip{self.tmp}$k")
            n = f"(.dim {lstr(self.arr_name(it.args[0].id))} 0)"
            for x in it.args[1:]:
                n = f"(.bin .min {n} (.dim {lstr(self.arr_name(x.id))} 0))"
            binds = [f"(.setI {lstr(self.v(t.id))} (.ld1 {lstr(self.arr_name(x.id))} (.var {lstr(k)})))"
                     for t, x in zip(s.target.elts, it.args)]
            body = seq(binds + [self.block(s.body)])
            return [f"(.forRange {lstr(k)} (.lit 0) {n} (.lit 1)\n{ind(body)})"]
        raise Untranslatable("for over " + src(it))

    def assign(self, s):
        if len(s.targets) != 1:
            raise Untranslatable("chained assignment")
        t, value = s.targets[0], s.value
        if isinstance(t, ast.Tuple) and any(isinstance(e, ast.Subscript) for e in t.elts) \
                and isinstance(value, ast.Call) and isinstance(value.func, ast.Name) and self.mod.jitted(value.func.id):
            # a[i], a[j] = f(...): the results go to temporaries first, then the stores in order
            vals = self.inline_value(value)
            tys = self.last_ret_types
            if len(vals) != len(t.elts):
                raise Untranslatable("tuple arity " + src(s))
            out = []
            for e, val, ty in zip(t.elts, vals, tys):
                self.tmp += 1
                tmpname = f"tup{self.tmp}$v"
                self.types[tmpname] = ty
                setter = {"int": "setI", "num": "setF", "bool": "setB"}[ty]
                out.append(f"(.{setter} {lstr(self.v(tmpname))} {val})")
                out += self.assign(ast.Assign(targets=[e], value=ast.Name(id=tmpname, ctx=ast.Load())))
            return out
        if isinstance(t, ast.Tuple):
            if not all(isinstance(e, ast.Name) for e in t.elts):
                raise Untranslatable("tuple target " + src(t))
            if isinstance(value, ast.Attribute) and value.attr == "shape" and isinstance(value.value, ast.Name):
                return [f"(.setI {lstr(self.v(e.id))} (.dim {lstr(self.arr_name(value.value.id))} {k}))"
                        for k, e in enumerate(t.elts)]
            if isinstance(value, ast.Call) and isinstance(value.func, ast.Name) and self.mod.jitted(value.func.id):
                vals = self.inline_value(value)
                if len(vals) != len(t.elts):
                    raise Untranslatable("tuple arity " + src(s))
                out = []
                for e, val in zip(t.elts, vals):
                    ty = self.types[e.id]
                    nm = lstr(self.v(e.id))
                    if ty == "int":
                        out.append(f"(.setI {nm} {val})")
                    elif ty == "num":
                        out.append(f"(.setF {nm} {val})")
                    else:
                        out.append(f"(.setB {nm} {val})")
                return out
            if isinstance(value, ast.Tuple) and len(value.elts) == len(t.elts):
                # simultaneous assignment: only when no target occurs on the right
                names = {e.id for e in t.elts}
                used = {n.id for v in value.elts for n in ast.walk(v) if isinstance(n, ast.Name)}
                if names & used:
                    raise Untranslatable("simultaneous assignment " + src(s))
                return [self.assign_text(self.v(e.id), self.types[e.id], v) for e, v in zip(t.elts, value.elts)]
            raise Untranslatable("tuple assignment " + src(s))
        if isinstance(t, ast.Name) and t.id in getattr(self, "views", {}):
            # a slice view is only a name for the slice: the reduction that uses it copies the cells; that is the
            # same thing because the only permitted use is in the statement that directly follows (see `block`)
            return []
        if isinstance(t, ast.Name):
            if isinstance(value, ast.Constant) and value.value is None and t.id in self.optional:
                return [f"(.setB {lstr(self.v(t.id + '$some'))} .ff)"]
            ty = self.types.get(t.id)
            if ty in ARR:
                return self.alloc(t.id, ty, value)
            if ty is None:
                raise Untranslatable("no sort for " + t.id)
            out = [self.assign_text(self.v(t.id), ty, value)]
            if t.id in self.optional:
                out.append(f"(.setB {lstr(self.v(t.id + '$some'))} .tt)")
            return out
        if isinstance(t, ast.Subscript):
            # whole-array fill  a[:] = e
            if isinstance(t.value, ast.Name) and isinstance(t.slice, ast.Slice) and t.slice.lower is None \
                    and t.slice.upper is None and t.slice.step is None:
                ty = self.types.get(t.value.id)
                if ty not in ARR:
                    raise Untranslatable("fill of " + src(t))
                nm = self.arr_name(t.value.id)
                dims = "[" + ", ".join(f"(.dim {lstr(nm)} {k})" for k in range(ARR[ty][1])) + "]"
                if ARR[ty][0] == "F":
                    return [f"(.allocF {lstr(nm)} {dims} {self.fe(value)})"]
                return [f"(.allocI {lstr(nm)} {dims} {self.ie(value)})"]
            if isinstance(t.value, ast.Name) and self.types.get(t.value.id) in ("f2", "i2") \
                    and not isinstance(t.slice, (ast.Tuple, ast.Slice)):
                return self.row_store(t, value)
            name, idx = self.subscript(t)
            kind = ARR[self.types[t.value.id if isinstance(t.value, ast.Name) else t.value.value.id]][0]
            ix = " ".join(self.ie(i) for i in idx)
            if kind == "F":
                return [f"(.stF{len(idx)} {lstr(name)} {ix} {self.fe(value)})"]
            tv = self.need_sort(value)
            if tv == "bool":
                val = f"(.lit {1 if isinstance(value, ast.Constant) and value.value else 0})" \
                    if isinstance(value, ast.Constant) else None
                if val is None:
                    raise Untranslatable("boolean store " + src(s))
                return [f"(.stI{len(idx)} {lstr(name)} {ix} {val})"]
            return [f"(.stI{len(idx)} {lstr(name)} {ix} {self.ie(value)})"]
        raise Untranslatable("assignment target " + src(t))

    def row_store(self, t, value):
        """`m[r] = <1-D array | row view | m2[r2]>`: the row is copied cell by cell (left to right)"""
        base = self.arr(t.value.id)
        if isinstance(base, tuple):
            raise Untranslatable("row of a row view")
        kind = ARR[self.types[t.value.id]][0]
        self.tmp += 1
        k, r = self.v(f"rowcp{self.tmp}$k"), self.v(f"rowcp{self.tmp}$r")
        out = [f"(.setI {lstr(r)} {self.ie(t.slice)})"]
        kk = ast.Name(id="$row:" + k, ctx=ast.Load())
        if isinstance(value, ast.Name) and self.types.get(value.id) in ("f1", "i1"):
            srcexpr = ast.Subscript(value=value, slice=kk, ctx=ast.Load())
        elif isinstance(value, ast.Subscript) and isinstance(value.value, ast.Name) \
                and self.types.get(value.value.id) in ("f2", "i2") and not isinstance(value.slice, (ast.Tuple, ast.Slice)):
            r2 = self.v(f"rowcp{self.tmp}$s")
            out.append(f"(.setI {lstr(r2)} {self.ie(value.slice)})")
            srcexpr = ast.Subscript(value=value.value, slice=ast.Tuple(elts=[ast.Name(id="$row:" + r2, ctx=ast.Load()), kk],
                                                                       ctx=ast.Load()), ctx=ast.Load())
        else:
            raise Untranslatable("row assignment " + src(value))
        val = self.fe(srcexpr) if kind == "F" else self.ie(srcexpr)
        st = "stF2" if kind == "F" else "stI2"
        out.append(f"(.forRange {lstr(k)} (.lit 0) (.dim {lstr(base)} 1) (.lit 1)\n"
                   f"  (.{st} {lstr(base)} (.var {lstr(r)}) (.var {lstr(k)}) {val}))")
        return out

    def alloc(self, name, ty, value):
        kind, nd = ARR[ty]
        if isinstance(value, ast.Subscript) and isinstance(value.value, ast.Name) \
                and self.types.get(value.value.id) in ("f2", "i2") and not isinstance(value.slice, (ast.Tuple, ast.Slice)):
            nm = None
        else:
            nm = self.arr_name(name)
        factor = None
        if isinstance(value, ast.BinOp) and isinstance(value.op, ast.Mult):      # np.ones(...) * c
            value, factor = value.left, value.right
        if isinstance(value, ast.Subscript) and isinstance(value.value, ast.Name) \
                and self.types.get(value.value.id) in ("f2", "i2") and not isinstance(value.slice, (ast.Tuple, ast.Slice)):
            # name = m[r]: a row *view* (numpy semantics): later reads and writes through the name go to m[r, :]
            base = self.arr(value.value.id)
            if isinstance(base, tuple):
                raise Untranslatable("row of a row view")
            rowvar = self.v("row$" + name)
            self.amap[name] = ("row", base, rowvar, None)
            return [f"(.setI {lstr(rowvar)} {self.ie(value.slice)})"]
        if self.is_where0(value):
            # nm = np.where(mask)[0]: the positions of the non-zero entries of a 0/1 mask, in order
            mask = self.arr_name(value.value.args[0].id)
            self.tmp += 1
            k, c = self.v(f"where{self.tmp}$k"), self.v(f"where{self.tmp}$n")
            return [f"(.allocI {lstr(nm)} [(.sum {lstr(mask)})] (.lit 0))",
                    f"(.setI {lstr(c)} (.lit 0))",
                    f"(.forRange {lstr(k)} (.lit 0) (.dim {lstr(mask)} 0) (.lit 1)\n"
                    f"  (.ite (.cmpI .ne (.ld1 {lstr(mask)} (.var {lstr(k)})) (.lit 0))\n"
                    f"    (.seq (.stI1 {lstr(nm)} (.var {lstr(c)}) (.var {lstr(k)}))\n"
                    f"    (.setI {lstr(c)} (.bin .add (.var {lstr(c)}) (.lit 1))))\n    .skip))"]
        bare = self.bare_arrays(value) if not isinstance(value, ast.Call) else []
        if bare:
            # elementwise expression over 1-D arrays of one length (broadcast against scalars): an explicit loop
            self.tmp += 1
            k = f"elem{self.tmp}$k"
            first = self.arr_name(bare[0])

            class Sub(ast.NodeTransformer):
                def visit_Subscript(self_, n):
                    return n
                def visit_Name(self_, n):
                    if n.id in bare:
                        return ast.Subscript(value=ast.Name(id=n.id, ctx=ast.Load()), slice=ast.Name(id="$row:" + self.v(k), ctx=ast.Load()), ctx=ast.Load())
                    return n
            import copy
            elem = Sub().visit(copy.deepcopy(value))
            same = [f"(.cmpI .eq (.dim {lstr(self.arr_name(b))} 0) (.dim {lstr(first)} 0))" for b in bare[1:]]
            guard = []
            for g in same:
                guard.append(f"(.ite {g}\n  .skip\n  (.fail \"broadcast\"))")
            if kind == "I":
                body = f"(.ite {self.be(elem)}\n    (.stI1 {lstr(nm)} (.var {lstr(self.v(k))}) (.lit 1))\n    (.stI1 {lstr(nm)} (.var {lstr(self.v(k))}) (.lit 0)))"
                al = f"(.allocI {lstr(nm)} [(.dim {lstr(first)} 0)] (.lit 0))"
            else:
                body = f"(.stF1 {lstr(nm)} (.var {lstr(self.v(k))}) {self.fe(elem)})"
                al = f"(.allocF {lstr(nm)} [(.dim {lstr(first)} 0)] (.lit 0 1))"
            return guard + [al, f"(.forRange {lstr(self.v(k))} (.lit 0) (.dim {lstr(first)} 0) (.lit 1)\n  {body})"]
        if isinstance(value, ast.Call) and isinstance(value.func, ast.Attribute) and value.func.attr == "astype" \
                and isinstance(value.func.value, ast.Name) and value.func.value.id == name:
            self.report["casts"].append(src(value)[:60])
            return []            # data = data.astype(np.float32): a cast of the same array, dropped
        if not isinstance(value, ast.Call):
            raise Untranslatable("array binding " + src(value))
        fn = src(value.func)
        if fn == "np.array" and len(value.args) == 1 and isinstance(value.args[0], ast.List) and factor is None:
            elts = value.args[0].elts
            zero = "(.lit 0 1)" if kind == "F" else "(.lit 0)"
            out = [f"(.alloc{kind} {lstr(nm)} [(.lit {len(elts)})] {zero})"]
            for k, x in enumerate(elts):
                val = self.fe(x) if kind == "F" else self.ie(x)
                out.append(f"(.st{kind}1 {lstr(nm)} (.lit {k}) {val})")
            return out
        if fn in ("np.zeros", "np.ones", "np.empty", "np.full"):
            shape = value.args[0] if value.args else next(k.value for k in value.keywords if k.arg == "shape")
            dims = self.alloc_dims(shape)
            if isinstance(dims, tuple):
                d = "[" + ", ".join(f"(.dim {lstr(self.arr_name(dims[1]))} {k})" for k in range(nd)) + "]"
            else:
                d = "[" + ", ".join(self.ie(x) for x in dims) + "]"
            base = {"np.zeros": 0, "np.ones": 1, "np.empty": 0}.get(fn)
            if fn == "np.full":
                fillnode = value.args[1]
                fill = self.fe(fillnode) if kind == "F" else self.ie(fillnode)
            elif factor is not None:
                if base != 1:
                    raise Untranslatable("scaled allocation " + src(value))
                fill = self.fe(factor) if kind == "F" else self.ie(factor)
            else:
                fill = f"(.lit {base} 1)" if kind == "F" else f"(.lit {base})"
        elif fn in ("np.zeros_like", "np.empty_like", "np.ones_like"):
            other = self.arr_name(value.args[0].id)
            d = "[" + ", ".join(f"(.dim {lstr(other)} {k})" for k in range(nd)) + "]"
            base = 1 if fn == "np.ones_like" else 0
            fill = f"(.lit {base} 1)" if kind == "F" else f"(.lit {base})"
        else:
            raise Untranslatable("array binding " + src(value))
        return [f"(.alloc{kind} {lstr(nm)} {d} {fill})"]


def load(t):
    import copy
    t2 = copy.deepcopy(t)
    for n in ast.walk(t2):
        if hasattr(n, "ctx"):
            n.ctx = ast.Load()
    return t2


def contains_user_call(e, mod):
    for n in ast.walk(e):
        if isinstance(n, ast.Call) and isinstance(n.func, ast.Name) and mod.jitted(n.func.id):
            return True
    return False


def ind(text, by="  "):
    return "\n".join(by + ln for ln in text.splitlines())


def seq(stmts):
    stmts = [s for s in stmts if s]
    if not stmts:
        return ".skip"
    if len(stmts) == 1:
        return stmts[0]
    return "(.seq " + stmts[0] + "\n" + seq(stmts[1:]) + ")"


TY_LEAN = {"int": ".int", "num": ".num", "bool": ".bool", "f1": "(.arrF 1)", "f2": "(.arrF 2)",
           "i1": "(.arrI 1)", "i2": "(.arrI 2)"}


def bind_functions(func, fbinds):
    """a copy of `func` in which the function-valued parameters are replaced by the module functions they are
    bound to (`func(kernel_values)` -> `_calc_mean(kernel_values)`) and dropped from the signature"""
    import copy
    f = copy.deepcopy(func)

    class T(ast.NodeTransformer):
        def visit_Call(self, n):
            self.generic_visit(n)
            if isinstance(n.func, ast.Name) and n.func.id in fbinds:
                n.func = ast.Name(id=fbinds[n.func.id], ctx=ast.Load())
            return n
    T().visit(f)
    for n in ast.walk(f):
        if isinstance(n, ast.Name) and n.id in fbinds:
            raise Untranslatable("function-valued parameter used other than in a call: " + n.id)
    f.args.args = [a for a in f.args.args if a.arg not in fbinds]
    return f


def translate(mods, repo, lean_name, rel, fname, ptypes):
    rep = dict(ok=False, qual=f"{rel}:{fname}")
    Fn.counter[0] = 0          # inlined callees are numbered per program
    try:
        if rel not in mods:
            mods[rel] = Module(repo, rel)
        mod = mods[rel]
        func = mod.find(fname)
        if func is None:
            raise Untranslatable("function not found")
        real_params = [a.arg for a in func.args.args]
        if real_params != list(ptypes)[:len(real_params)]:
            raise Untranslatable(f"parameters are {real_params}, declared {list(ptypes)}")
        fbinds = {k: v[3:] for k, v in ptypes.items() if str(v).startswith("fn:")}
        if fbinds:
            for k, target in fbinds.items():
                if not mod.jitted(target):
                    raise Untranslatable(f"{k} is bound to {target}, which is not a jitted function of the module")
            func = bind_functions(func, fbinds)
            ptypes = {k: v for k, v in ptypes.items() if k not in fbinds}
        fn = Fn(mod, func, ptypes)
        body = fn.block(body_of(func))
        rets = []
        for k, ty in enumerate(fn.ret_types or []):
            if ty in ARR:
                # different `return` statements may return different arrays: all of them are results
                for nm in fn.ret_arrays[k]:
                    rets.append((nm, ty))
            else:
                rets.append((f"ret{k}", ty))
        params = ", ".join(f"({lstr(p)}, {TY_LEAN[t]})" for p, t in ptypes.items())
        rep["fbinds"] = fbinds
        retl = ", ".join(f"({lstr(n)}, {TY_LEAN[t]})" for n, t in rets)
        text = (f"/-- `{fname}` ({rel}:{func.lineno}) -/\n"
                f"def {lean_name} : Prog :=\n  {{ name := {lstr(fname)}\n    params := [{params}]\n"
                f"    rets := [{retl}]\n    ok := true\n    body :=\n{ind(body, '      ')} }}\n")
        rep.update(ok=True, line=func.lineno, casts=sorted(set(fn.report["casts"])),
                   inlined=sorted(set(fn.report["inlined"])),
                   locals={k: v for k, v in sorted(fn.types.items()) if k not in ptypes},
                   rets=[list(r) for r in rets])
        return text, rep
    except (Untranslatable, OSError, SyntaxError, KeyError, StopIteration, RecursionError) as ex:
        why = f"{type(ex).__name__}: {ex}"
        rep.update(why=why[:300])
        text = (f"/-- `{fname}` ({rel}) -- NOT TRANSLATED: {why[:200].replace('-/', '- /')} -/\n"
                f"def {lean_name} : Prog :=\n  {{ name := {lstr(fname)}, params := [], rets := [], ok := false\n"
                f"    body := .fail {lstr('untranslatable: ' + why[:200])} }}\n")
        return text, rep


def generate(repo):
    mods, report, out = {}, {}, []
    out.append("import XrsVerif.Core.ILang")
    out.append("/-! GENERATED by harness/facts_il.py from /repo's source (layer T3) -- do not edit. -/")
    out.append("namespace XrsVerif.Gen.IL")
    out.append("open XrsVerif XrsVerif.IL\n")
    names = []
    for lean_name, rel, fname, ptypes in TARGETS:
        text, rep = translate(mods, repo, lean_name, rel, fname, ptypes)
        out.append(text)
        report[lean_name] = rep
        names.append(lean_name)
    out.append("def all : List (String × Prog) := [")
    out.append(",\n".join(f"  ({lstr(n)}, {n})" for n in names))
    out.append("]\n")
    out.append("end XrsVerif.Gen.IL")
    yield "IL.lean", "\n".join(out) + "\n", report


if __name__ == "__main__":
    import json
    import sys
    repo = sys.argv[1] if len(sys.argv) > 1 else "/repo"
    for fname, text, rep in generate(repo):
        print(text)
        print(json.dumps(rep, indent=1), file=sys.stderr)
