"""
Layer T2 facts for C19 (distance strings, unit table, circle / annulus kernels, calc_cellsize).

generate(repo) -> ("MetricFacts.lean", text, report).  Everything is read from the `ast` of
xrspatial/convolution.py; nothing is imported or executed.  When an expected shape is not found the
fact is emitted as a sentinel that cannot satisfy the theorems of Props/C19.lean (and the report
carries ok=False so the run is flagged `untranslatable`), never as a default.

What is extracted
  * `_get_distance`: the regex handed to re.split, the filter of empty pieces, the accepted numbers of
    pieces, which piece is the number / the unit, the rejection test `distance <= 0`, the unit
    normalisation steps, DEFAULT_UNIT, UNITS (names resolved to constants), `_to_meters`' operator;
  * `_ellipse_kernel`: the predicate (as a KLang kernel over scalars x, y, half_w, half_h -- T1 machinery
    of translate.py), the np.linspace arguments of x and y as integer functions of (half_w, half_h)
    and the axis each one runs along (`[:, None]`);
  * `circle_kernel`: the expressions bound to `_ellipse_kernel`'s parameters half_w / half_h as
    functions of (r, cellsize_x, cellsize_y), and the expression `r` is computed from;
  * `annulus_kernel`: the arguments of the two circle_kernel calls, np.pad's target / widths (as
    integer functions of the two shapes) / mode / constant, and the final combination operator;
  * `calc_cellsize`: which components are wrapped in abs, the conversion function used.
"""
import ast
import os
from fractions import Fraction

from pynorm import Refuse, assign_name, bind, func_params, normalize, rename, replace_subtree, same
from translate import KernelTranslator, Untranslatable, call_name, emit_kernel, find_func, lean_str, str_list

REL = "xrspatial/convolution.py"


class Missing(Exception):
    pass


def lean_int(n):
    return str(n) if n >= 0 else f"({n})"


# ------------------------------------------------------------------ small symbolic evaluators
def int_expr(n, env):
    """python int expression over names in env -> Lean `Int` expression text.
    env maps a name to Lean text or to a list (a small vector of Lean texts)."""
    if isinstance(n, ast.Constant) and isinstance(n.value, int) and not isinstance(n.value, bool):
        return lean_int(n.value)
    if isinstance(n, ast.Name):
        if n.id in env:
            return env[n.id]
        raise Missing(f"free name {n.id}")
    if isinstance(n, ast.UnaryOp) and isinstance(n.op, ast.USub):
        v = int_expr(n.operand, env)
        return [f"(-{x})" for x in v] if isinstance(v, list) else f"(-{v})"
    if isinstance(n, ast.BinOp) and type(n.op) in (ast.Add, ast.Sub, ast.Mult, ast.FloorDiv):
        l, r = n.left, n.right
        # integer + and * commute: one spelling (`x + 1`, `2 * x`)
        if isinstance(n.op, ast.Add) and isinstance(l, ast.Constant) and not isinstance(r, ast.Constant):
            l, r = r, l
        if isinstance(n.op, ast.Mult) and isinstance(r, ast.Constant) and not isinstance(l, ast.Constant):
            l, r = r, l
        a, b = int_expr(l, env), int_expr(r, env)

        def one(x, y):
            if isinstance(n.op, ast.FloorDiv):
                return f"(pyFloorDiv {x} {y})"
            return f"({x} {({ast.Add: '+', ast.Sub: '-', ast.Mult: '*'})[type(n.op)]} {y})"
        if isinstance(a, list) or isinstance(b, list):
            la = a if isinstance(a, list) else [a] * len(b)
            lb = b if isinstance(b, list) else [b] * len(a)
            if len(la) != len(lb):
                raise Missing("vector length mismatch")
            return [one(x, y) for x, y in zip(la, lb)]
        return one(a, b)
    if isinstance(n, ast.Call) and call_name(n.func) in ("array", "asarray") and len(n.args) == 1 and not n.keywords:
        return int_expr(n.args[0], env)
    if isinstance(n, ast.Attribute) and n.attr == "shape":
        key = "shape:" + ast.dump(n.value)
        if key in env:
            return env[key]
        raise Missing(f"shape of {ast.unparse(n.value)}")
    if isinstance(n, ast.Subscript) and isinstance(n.slice, ast.Constant) and isinstance(n.slice.value, int):
        v = int_expr(n.value, env)
        if isinstance(v, list) and 0 <= n.slice.value < len(v):
            return v[n.slice.value]
        raise Missing(f"subscript {ast.unparse(n)}")
    raise Missing(f"int expression {ast.unparse(n)}")


def rat_to_int_expr(n, env):
    """`int(a / b)` style expression over Rat-valued names -> Lean `Int` expression text"""
    if isinstance(n, ast.Call) and call_name(n.func) == "int" and len(n.args) == 1:
        return f"(pyInt {rat_expr(n.args[0], env)})"
    raise Missing(f"half width is not int(...): {ast.unparse(n)}")


def rat_expr(n, env):
    if isinstance(n, ast.Name):
        if n.id in env:
            return env[n.id]
        raise Missing(f"free name {n.id}")
    if isinstance(n, ast.Constant) and isinstance(n.value, (int, float)) and not isinstance(n.value, bool):
        fr = Fraction(repr(n.value))
        return f"(ratOf {lean_int(fr.numerator)} {fr.denominator})"
    if isinstance(n, ast.BinOp) and type(n.op) in (ast.Add, ast.Sub, ast.Mult, ast.Div):
        op = {ast.Add: "+", ast.Sub: "-", ast.Mult: "*", ast.Div: "/"}[type(n.op)]
        return f"(rnd ({rat_expr(n.left, env)} {op} {rat_expr(n.right, env)}))"     # one float operation
    raise Missing(f"rational expression {ast.unparse(n)}")


def assignments(func):
    """name -> list of values assigned to it (top level of the function only)"""
    out = {}
    for st in func.body:
        if isinstance(st, ast.Assign) and len(st.targets) == 1 and isinstance(st.targets[0], ast.Name):
            out.setdefault(st.targets[0].id, []).append(st.value)
    return out


def single(assign, name):
    v = assign.get(name, [])
    if len(v) != 1:
        raise Missing(f"{name} assigned {len(v)} times")
    return v[0]


def module_consts(mod):
    c = {}
    for st in mod.body:
        if isinstance(st, ast.Assign) and len(st.targets) == 1 and isinstance(st.targets[0], ast.Name):
            c[st.targets[0].id] = st.value
    return c


def const_value(n, consts, depth=0):
    if isinstance(n, ast.Constant):
        return n.value
    if isinstance(n, ast.Name) and n.id in consts and depth < 5:
        return const_value(consts[n.id], consts, depth + 1)
    raise Missing(f"constant {ast.unparse(n)}")


def kwarg(call, name):
    for k in call.keywords:
        if k.arg == name:
            return k.value
    return None


# ------------------------------------------------------------------ distance strings
CMP = {ast.LtE: "le", ast.Lt: "lt", ast.GtE: "ge", ast.Gt: "gt", ast.Eq: "eq", ast.NotEq: "ne"}
MIRROR = {"le": "ge", "lt": "gt", "ge": "le", "gt": "lt", "eq": "eq", "ne": "ne"}


def raises(st):
    return isinstance(st, ast.If) and not st.orelse and any(isinstance(b, ast.Raise) for b in st.body)


def contains(node, pred):
    return any(pred(n) for n in ast.walk(node))


def distance_facts(mod):
    """works on the normal form of `_get_distance` (pynorm): single-use names are gone, so the pieces are
    recognised by what they are, not by what they are called:
      SPLITS  the list comprehension over re.split(<pattern>, <parameter>)
      NUMBER  SPLITS[i] wherever it is not the unit;  DISTANCE  the expression compared in the rejection test
      UNIT    the variable set by  `if len(SPLITS) == g: UNIT = SPLITS[j]  else: UNIT = <default>`"""
    consts = module_consts(mod)
    f0 = find_func(mod, "_get_distance")
    if f0 is None:
        raise Missing("_get_distance not found")
    f = normalize(f0)
    if len(f.args.args) != 1:
        raise Missing("_get_distance parameters")
    param = f.args.args[0].arg
    facts = {}
    comps = [n for n in ast.walk(f) if isinstance(n, ast.ListComp)]
    if not comps or any(not same(c, comps[0]) for c in comps):
        raise Missing("the list comprehension over re.split")
    sp = comps[0]
    if len(sp.generators) != 1:
        raise Missing("splits is not a simple list comprehension")
    g = sp.generators[0]
    it = g.iter
    if not (isinstance(it, ast.Call) and ast.unparse(it.func) == "re.split"):
        raise Missing("re.split(<pattern>, <arg>) not found")
    try:
        ra = bind(it, ["pattern", "string", "maxsplit", "flags"])
    except Refuse as ex:
        raise Missing(str(ex))
    if set(ra) != {"pattern", "string"} or not (isinstance(ra["string"], ast.Name) and ra["string"].id == param):
        raise Missing("re.split(<pattern>, <arg>) not found")
    facts["regex"] = const_value(ra["pattern"], consts)
    if not isinstance(facts["regex"], str):
        raise Missing("re.split pattern")
    elt_ok = isinstance(sp.elt, ast.Name) and isinstance(g.target, ast.Name) and sp.elt.id == g.target.id and not g.is_async
    facts["drop_empty"] = bool(elt_ok and len(g.ifs) == 1 and ast.unparse(g.ifs[0]) == f"{g.target.id} != ''")

    def is_splits(n):
        return same(n, sp)

    def is_len_splits(n):
        return isinstance(n, ast.Call) and isinstance(n.func, ast.Name) and n.func.id == "len" and len(n.args) == 1 \
            and not n.keywords and is_splits(n.args[0])

    def piece(n):
        """SPLITS[<const>] -> index"""
        if isinstance(n, ast.Subscript) and is_splits(n.value):
            return const_value(n.slice, consts)
        return None
    # any other use of SPLITS than len(SPLITS) / SPLITS[const] is not understood
    class Uses(ast.NodeVisitor):
        bad = False

        def generic_visit(self, n):
            if is_len_splits(n) or (isinstance(n, ast.Subscript) and is_splits(n.value)):
                return
            if is_splits(n):
                Uses.bad = True
                return
            super().generic_visit(n)
    Uses.bad = False
    Uses().visit(f)
    if Uses.bad:
        raise Missing("a use of the pieces other than len(...) / [...]")

    lens = reject = None
    unit_known = False
    unit_var = unit_guard = unit_index = default_node = None
    dist_expr = None
    norm = []
    ret = None
    body = list(f.body)
    for k_, st in enumerate(body):
        if raises(st):
            t = st.test
            if isinstance(t, ast.Compare) and len(t.ops) == 1 and isinstance(t.ops[0], ast.NotIn) and is_len_splits(t.left) \
                    and isinstance(t.comparators[0], (ast.List, ast.Tuple, ast.Set)):
                if lens is not None:
                    raise Missing("two piece-count tests")
                lens = [const_value(e, consts) for e in t.comparators[0].elts]
            elif isinstance(t, ast.Compare) and len(t.ops) == 1 and type(t.ops[0]) in CMP \
                    and (isinstance(t.comparators[0], ast.Constant) != isinstance(t.left, ast.Constant)) \
                    and contains(t, lambda n: piece(n) is not None):
                if reject is not None:
                    raise Missing("two rejection tests")
                opn = CMP[type(t.ops[0])]
                e, c = t.left, t.comparators[0]
                if isinstance(e, ast.Constant):
                    e, c, opn = c, e, MIRROR[opn]
                if not isinstance(c.value, (int, float)) or isinstance(c.value, bool):
                    raise Missing("rejection bound")
                reject = (opn, Fraction(repr(c.value)))
                dist_expr = e
            elif isinstance(t, ast.Compare) and len(t.ops) == 1 and isinstance(t.ops[0], ast.NotIn) \
                    and isinstance(t.left, ast.Name) and ast.unparse(t.comparators[0]) == "UNITS":
                unit_known = t.left.id
            continue
        if isinstance(st, ast.If) and st.orelse and len(st.body) == 1 and len(st.orelse) == 1 \
                and assign_name(st.body[0]) and assign_name(st.orelse[0]) \
                and assign_name(st.body[0])[0] == assign_name(st.orelse[0])[0]:
            (x, a), (_, d) = assign_name(st.body[0]), assign_name(st.orelse[0])
            t = st.test
            if isinstance(t, ast.Compare) and len(t.ops) == 1 and isinstance(t.ops[0], ast.Eq) and is_len_splits(t.left) \
                    and piece(a) is not None and unit_var is None:
                unit_var, unit_guard, unit_index, default_node = x, const_value(t.comparators[0], consts), piece(a), d
                continue
        if isinstance(st, ast.If) and not st.orelse and len(st.body) == 1 and assign_name(st.body[0]) and unit_var is None:
            # the un-merged spelling:  UNIT = <default>  (earlier)  ...  if len(SPLITS) == g: UNIT = SPLITS[j]
            x, a = assign_name(st.body[0])
            t = st.test
            earlier = [assign_name(b) for b in body[:k_] if assign_name(b) and assign_name(b)[0] == x]
            if isinstance(t, ast.Compare) and len(t.ops) == 1 and isinstance(t.ops[0], ast.Eq) and is_len_splits(t.left) \
                    and piece(a) is not None and len(earlier) == 1:
                unit_var, unit_guard, unit_index, default_node = x, const_value(t.comparators[0], consts), piece(a), earlier[0][1]
                continue
        an = assign_name(st)
        if an and unit_var is not None and an[0] == unit_var:
            v = an[1]
            if isinstance(v, ast.Call) and isinstance(v.func, ast.Attribute) and isinstance(v.func.value, ast.Name) \
                    and v.func.value.id == unit_var and not v.keywords:
                args = [const_value(x_, consts) for x_ in v.args]
                norm.append(v.func.attr + "".join(":" + repr(x_) for x_ in args))
                continue
            raise Missing("assignment to the unit: " + ast.unparse(st))
        if an and unit_var is None and isinstance(an[1], (ast.Name, ast.Constant)):
            continue                       # the default of the un-merged spelling, picked up above
        if isinstance(st, ast.Return) and st.value is not None and ret is None:
            ret = st.value
            continue
        raise Missing("statement of _get_distance: " + ast.unparse(st).splitlines()[0])
    if lens is None or reject is None or unit_var is None or ret is None:
        raise Missing("shape of _get_distance (lens / reject / unit / return)")
    if unit_known is not False and unit_known != unit_var:
        unit_known = False
    # the number: every piece that is read, other than the unit's
    idx = set()
    skip = []
    for st in body:
        if isinstance(st, ast.If) and st.body and assign_name(st.body[0]) and assign_name(st.body[0])[0] == unit_var:
            skip.append(assign_name(st.body[0])[1])
    for n in ast.walk(f):
        if piece(n) is not None and not any(n is s_ for s_ in skip):
            idx.add(piece(n))
    if len(idx) != 1:
        raise Missing(f"number piece: indices {sorted(idx)}")
    number_index = idx.pop()

    def is_number(n):
        return piece(n) == number_index and not any(n is s_ for s_ in skip)
    dist_named = replace_subtree(dist_expr, is_number, lambda: ast.Name(id="number", ctx=ast.Load()))
    facts["distance_src"] = ast.unparse(dist_named)
    ret_named = replace_subtree(ret, lambda n: same(n, dist_expr), lambda: ast.Name(id="distance", ctx=ast.Load()))
    ret_named = replace_subtree(ret_named, is_number, lambda: ast.Name(id="number", ctx=ast.Load()))
    ret_named = rename(ret_named, {unit_var: "unit"})
    # _to_meters(d=..., unit=...) -> positional
    tm = find_func(mod, "_to_meters")
    if tm is None:
        raise Missing("_to_meters")
    tmn = normalize(tm)
    if isinstance(ret_named, ast.Call) and call_name(ret_named.func) == "_to_meters":
        try:
            ba = bind(ret_named, func_params(tmn))
            ret_named = ast.Call(func=ret_named.func, args=[ba[p_] for p_ in func_params(tmn)], keywords=[])
        except (Refuse, KeyError) as ex:
            raise Missing("_to_meters call: " + str(ex))
    facts["meters_src"] = ast.unparse(ret_named)
    facts.update(lens=lens, reject=reject, unit_known=bool(unit_known), norm=norm, number_index=number_index,
                 unit_index=unit_index, unit_guard=unit_guard)
    isn = find_func(mod, "_is_numeric")
    facts["is_numeric_src"] = ast.unparse(isn.body[0]).replace("\n", "; ") if isn else "?"
    facts["default_unit"] = const_value(default_node, consts)
    if not isinstance(facts["default_unit"], str):
        raise Missing("default unit")
    # UNITS
    units_node = consts.get("UNITS")
    if not isinstance(units_node, ast.Dict):
        raise Missing("UNITS is not a dict literal")
    units = []
    for k, v in zip(units_node.keys, units_node.values):
        units.append((const_value(k, consts), Fraction(repr(const_value(v, consts)))))
    facts["units"] = units
    # _to_meters: `return <first parameter> * UNITS[<second parameter>]` (float multiplication commutes exactly)
    if len(tmn.body) != 1 or not isinstance(tmn.body[0], ast.Return) or len(func_params(tmn)) != 2:
        raise Missing("_to_meters")
    e = rename(tmn.body[0].value, dict(zip(func_params(tmn), ["d", "unit"])))
    if isinstance(e, ast.BinOp) and isinstance(e.op, ast.Mult) and isinstance(e.right, ast.Name) and e.right.id == "d" \
            and not (isinstance(e.left, ast.Name) and e.left.id == "d"):
        e = ast.BinOp(left=e.right, op=e.op, right=e.left)
    facts["to_meters_src"] = ast.unparse(e)
    return facts


# ------------------------------------------------------------------ _ellipse_kernel
def is_none_axis(n):
    return (isinstance(n, ast.Constant) and n.value is None) or \
        (isinstance(n, ast.Attribute) and n.attr == "newaxis" and isinstance(n.value, ast.Name) and n.value.id in ("np", "numpy"))


def linspace_of(node):
    """np.linspace(a, b, n)  or  np.linspace(a, b, n)[:, None]  -> (a, b, n, axis); None when node is neither"""
    axis = 1
    if isinstance(node, ast.Subscript):
        sl = node.slice
        if isinstance(sl, ast.Tuple) and len(sl.elts) == 2 and isinstance(sl.elts[0], ast.Slice) \
                and sl.elts[0].lower is None and sl.elts[0].upper is None and sl.elts[0].step is None \
                and is_none_axis(sl.elts[1]):
            axis = 0
            node = node.value
        else:
            return None
    if isinstance(node, ast.Call) and call_name(node.func) == "linspace" and isinstance(node.func, ast.Attribute) \
            and isinstance(node.func.value, ast.Name) and node.func.value.id in ("np", "numpy"):
        try:
            a = bind(node, ["start", "stop", "num"])
        except Refuse:
            return None
        if set(a) == {"start", "stop", "num"}:
            return a["start"], a["stop"], a["num"], axis
    return None


def is_float_dtype(n):
    return ast.unparse(n) in ("float", "np.float64", "numpy.float64", "'float64'", "'float'", "'f8'")


def ellipse_facts(mod):
    f0 = find_func(mod, "_ellipse_kernel")
    if f0 is None:
        raise Missing("_ellipse_kernel not found")
    f = normalize(f0)
    params = [a.arg for a in f.args.args]
    if len(params) != 2:
        raise Missing("_ellipse_kernel parameters")
    env = {p: p for p in params}
    out = {"params": params}
    if len(f.body) != 1 or not isinstance(f.body[0], ast.Return):
        raise Missing("_ellipse_kernel is not `return <mask>.astype(float)` after inlining its temporaries: "
                      + "; ".join(ast.unparse(s).splitlines()[0] for s in f.body[:-1]))
    rv = f.body[0].value
    if not (isinstance(rv, ast.Call) and call_name(rv.func) == "astype" and isinstance(rv.func, ast.Attribute)):
        raise Missing("return <mask>.astype(float)")
    try:
        aa = bind(rv, ["dtype"])
    except Refuse as ex:
        raise Missing(str(ex))
    if set(aa) != {"dtype"} or not is_float_dtype(aa["dtype"]):
        raise Missing("return <mask>.astype(float)")
    pred = rv.func.value
    # the sample vectors: maximal linspace sub-expressions, told apart by the axis they run along
    found = {0: [], 1: []}

    class Find(ast.NodeVisitor):
        def visit(self, n):
            ls = linspace_of(n)
            if ls is not None:
                found[ls[3]].append((n, ls))
                return
            self.generic_visit(n)
    Find().visit(pred)
    for axis, v in ((1, "x"), (0, "y")):
        if not found[axis] or any(not same(n, found[axis][0][0]) for n, _ in found[axis]):
            raise Missing(f"the {v} samples (np.linspace along axis {axis})")
        a, b, n, _ = found[axis][0][1]
        out[v] = dict(start=int_expr(a, env), stop=int_expr(b, env), num=int_expr(n, env), axis=axis)
    for v in ("x", "y"):
        if v in params:
            raise Missing("parameter named like a sample vector")
    pred = replace_subtree(pred, lambda n: same(n, found[1][0][0]), lambda: ast.Name(id="x", ctx=ast.Load()))
    pred = replace_subtree(pred, lambda n: same(n, found[0][0][0]), lambda: ast.Name(id="y", ctx=ast.Load()))
    tr = KernelTranslator(mod, f)
    tr.args = ["x", "y"] + params
    tr.yvar = tr.xvar = None
    try:
        c = tr.cond(pred)
    except Untranslatable as ex:
        raise Missing("ellipse predicate: " + str(ex))
    k = dict(arrays=[], scalars=tr.args, vectors=[], fill="nan", top=0, bottom=0, left=0, right=0,
             pre="S.skip", guard="C.tt", body=f"(S.ite {c}\n (S.store (E.lit 1 1))\n (S.store (E.lit 0 1)))")
    out["pred_src"] = ast.unparse(pred)
    out["kernel"] = emit_kernel("ellipse_pred", "convolution._ellipse_kernel", k)
    return out


# ------------------------------------------------------------------ circle_kernel
def circle_facts(mod, ellipse_params):
    f0 = find_func(mod, "circle_kernel")
    if f0 is None:
        raise Missing("circle_kernel not found")
    f = normalize(f0)
    params = [a.arg for a in f.args.args]
    if len(f.body) != 1 or not isinstance(f.body[0], ast.Return):
        raise Missing("circle_kernel is not `return _ellipse_kernel(...)` after inlining its temporaries")
    call = f.body[0].value
    if not (isinstance(call, ast.Call) and isinstance(call.func, ast.Name) and call.func.id == "_ellipse_kernel"):
        raise Missing("_ellipse_kernel(...) call in circle_kernel")
    try:
        ca = bind(call, ellipse_params)
    except Refuse as ex:
        raise Missing(str(ex))
    if set(ca) != set(ellipse_params):
        raise Missing("_ellipse_kernel(...) arguments")
    rs = [n for n in ast.walk(call) if isinstance(n, ast.Call) and isinstance(n.func, ast.Name) and n.func.id == "_get_distance"]
    if not rs or any(not same(r_, rs[0]) for r_ in rs):
        raise Missing("the radius in metres (_get_distance(...))")
    if "r" in params[:2]:
        raise Missing("parameter named r")
    env = {"r": "r"}
    for p in params[:2]:
        env[p] = p
    out = {"params": params, "r_src": ast.unparse(rs[0])}
    for pname in ellipse_params:
        e = replace_subtree(ca[pname], lambda n: same(n, rs[0]), lambda: ast.Name(id="r", ctx=ast.Load()))
        out[pname] = rat_to_int_expr(e, env)
    return out


# ------------------------------------------------------------------ annulus_kernel
def annulus_facts(mod):
    f0 = find_func(mod, "annulus_kernel")
    ck = find_func(mod, "circle_kernel")
    if f0 is None or ck is None:
        raise Missing("annulus_kernel not found")
    f = normalize(f0)
    out = {}
    if len(f.body) != 1 or not isinstance(f.body[0], ast.Return):
        raise Missing("annulus_kernel is not a single expression after inlining its temporaries")
    fin = f.body[0].value
    if not (isinstance(fin, ast.BinOp) and type(fin.op) in (ast.Add, ast.Sub, ast.Mult)):
        raise Missing("annulus combination")
    op = {ast.Add: "add", ast.Sub: "sub", ast.Mult: "mul"}[type(fin.op)]

    def is_circle(n):
        return isinstance(n, ast.Call) and isinstance(n.func, ast.Name) and n.func.id == "circle_kernel"

    def is_pad(n):
        return isinstance(n, ast.Call) and ast.unparse(n.func) in ("np.pad", "numpy.pad")
    if is_pad(fin.right) and is_circle(fin.left):
        pad, outer, outer_first = fin.right, fin.left, True
    elif is_pad(fin.left) and is_circle(fin.right):
        pad, outer, outer_first = fin.left, fin.right, False
    else:
        raise Missing("combination operands are not a circle kernel and a padded one")
    try:
        pa = bind(pad, ["array", "pad_width", "mode", "constant_values"] if len(pad.args) <= 3 else ["array", "pad_width", "mode"])
        cparams = func_params(ck)
        if not is_circle(pa.get("array")):
            raise Missing("np.pad(<inner circle kernel>, ...)")
        inner = pa["array"]
        oa, ia = bind(outer, cparams), bind(inner, cparams)
    except Refuse as ex:
        raise Missing(str(ex))
    if set(oa) != set(cparams) or set(ia) != set(cparams) or same(outer, inner):
        raise Missing("arguments of the two circle kernels")
    out["outer_args"] = [ast.unparse(oa[p]) for p in cparams]
    out["inner_args"] = [ast.unparse(ia[p]) for p in cparams]
    out["outer_first"] = outer_first
    out["op"] = op
    env = {"shape:" + ast.dump(outer): ["orows", "ocols"], "shape:" + ast.dump(inner): ["irows", "icols"]}
    pw = pa.get("pad_width")
    if not (isinstance(pw, (ast.Tuple, ast.List)) and len(pw.elts) == 2
            and all(isinstance(e, (ast.Tuple, ast.List)) and len(e.elts) == 2 for e in pw.elts)):
        raise Missing("pad_width is not ((a, b), (c, d))")
    out["pad"] = [[int_expr(e, env) for e in row.elts] for row in pw.elts]
    if any(isinstance(x, list) for row in out["pad"] for x in row):
        raise Missing("pad width is a vector")
    mode = pa.get("mode")
    cv = pa.get("constant_values")
    out["mode"] = "constant" if mode is None else (mode.value if isinstance(mode, ast.Constant) else "?")     # numpy's default
    if cv is None:
        out["constant"] = 0                                                                                    # numpy's default
    else:
        out["constant"] = cv.value if isinstance(cv, ast.Constant) and isinstance(cv.value, int) \
            and not isinstance(cv.value, bool) else None
    if out["constant"] is None:
        raise Missing("constant_values")
    return out


# ------------------------------------------------------------------ calc_cellsize
def cellsize_facts(mod):
    f0 = find_func(mod, "calc_cellsize")
    if f0 is None:
        raise Missing("calc_cellsize not found")
    f = normalize(f0)
    ret = [s for s in f.body if isinstance(s, ast.Return)]
    if len(ret) != 1 or not (isinstance(ret[0].value, ast.Tuple) and len(ret[0].value.elts) == 2):
        raise Missing("calc_cellsize return")
    absf, names = [], []
    for e in ret[0].value.elts:
        if isinstance(e, ast.Call) and call_name(e.func) in ("abs", "absolute", "fabs") and len(e.args) == 1 and not e.keywords:
            absf.append(True)
            e = e.args[0]
        else:
            absf.append(False)
        names.append(ast.unparse(e))
    asg = assignments(f)
    conv = []
    for nm in names:
        vals = asg.get(nm, [])
        conv.append(ast.unparse(vals[-1]) if vals else "?")
    res_src = "?"
    for st in f.body:
        if isinstance(st, ast.Assign) and isinstance(st.targets[0], ast.Tuple):
            res_src = ast.unparse(st)
    unit_src = [ast.unparse(s).replace("\n", "; ") for s in f.body if isinstance(s, ast.If)]
    return dict(abs=absf, names=names, conv=conv, res_src=res_src, unit_src=unit_src)


# ------------------------------------------------------------------ emission
def rat_lit(fr):
    return f"({lean_int(fr.numerator)}, {fr.denominator})"


def generate(repo):
    mod = ast.parse(open(os.path.join(repo, REL)).read())
    rep = {"ok": True, "why": []}
    out = ["import XrsVerif.Core.KLang", "import XrsVerif.Model.PyNum",
           "/-! GENERATED by harness/facts_metrics.py from xrspatial/convolution.py -- do not edit. -/",
           "set_option linter.unusedVariables false",
           "namespace XrsVerif.Gen", "open XrsVerif", ""]

    def broken(what, ex):
        rep["ok"] = False
        rep["why"].append(f"{what}: {ex}")

    # --- distance strings
    try:
        d = distance_facts(mod)
    except (Missing, KeyError, IndexError, AttributeError) as ex:
        broken("_get_distance", ex)
        d = dict(regex="?", drop_empty=False, lens=[], reject=("eq", Fraction(0)), unit_known=False, norm=[],
                 number_index=99, unit_index=99, unit_guard=99, distance_src="?", is_numeric_src="?",
                 default_unit="?", meters_src="?", units=[], to_meters_src="?")
    rep["distance"] = {k: (str(v) if not isinstance(v, (str, int, bool, list)) else v) for k, v in d.items() if k != "units"}
    rep["units"] = [[k, str(v)] for k, v in d["units"]]
    out += [
        "/-- the pattern handed to `re.split` in `_get_distance` -/",
        f"def distance_regex : String := {lean_str(d['regex'])}",
        "/-- empty pieces of the split are dropped (`if x != ''`) -/",
        f"def distance_drop_empty : Bool := {'true' if d['drop_empty'] else 'false'}",
        "/-- accepted numbers of pieces (`len(splits) not in [...]` raises) -/",
        f"def distance_allowed_lens : List Nat := [{', '.join(str(x) for x in d['lens'])}]",
        f"def distance_number_index : Nat := {d['number_index']}",
        "/-- `if len(splits) == unit_guard: unit = splits[unit_index]` -/",
        f"def distance_unit_guard : Nat := {d['unit_guard'] if d['unit_guard'] is not None else 99}",
        f"def distance_unit_index : Nat := {d['unit_index']}",
        "/-- `if distance <op> <bound>: raise` as (op, numerator, denominator) -/",
        f"def distance_reject : CmpOp × Int × Nat := (.{d['reject'][0]}, {lean_int(d['reject'][1].numerator)}, {d['reject'][1].denominator})",
        "/-- `if unit not in UNITS: raise` is present -/",
        f"def distance_unit_checked : Bool := {'true' if d['unit_known'] else 'false'}",
        "/-- string methods applied to the unit, in order -/",
        f"def distance_unit_normalise : List String := {str_list(d['norm'])}",
        f"def distance_value_src : String := {lean_str(d['distance_src'])}",
        f"def distance_is_numeric_src : String := {lean_str(d['is_numeric_src'])}",
        f"def distance_meters_src : String := {lean_str(d['meters_src'])}",
        f"def to_meters_src : String := {lean_str(d['to_meters_src'])}",
        f"def default_unit : String := {lean_str(d['default_unit'])}",
        "/-- `UNITS` with the constants resolved: (name, numerator, denominator) of the factor to metres -/",
        "def units : List (String × Int × Nat) := [",
        ",\n".join(f"  ({lean_str(k)}, {lean_int(v.numerator)}, {v.denominator})" for k, v in d["units"]),
        "]", ""]

    # --- ellipse
    try:
        e = ellipse_facts(mod)
    except (Missing, KeyError, IndexError, AttributeError) as ex:
        broken("_ellipse_kernel", ex)
        bad = dict(start="0", stop="0", num="(-1)", axis=9)
        e = dict(params=["half_w", "half_h"], x=bad, y=bad, pred_src="?",
                 kernel=emit_kernel("ellipse_pred", "convolution._ellipse_kernel",
                                    dict(arrays=[], scalars=[], vectors=[], fill="nan", top=0, bottom=0, left=0, right=0,
                                         pre="S.skip", guard="C.tt", body='S.fail "untranslatable: _ellipse_kernel"')))
    p0, p1 = e["params"]
    rep["ellipse"] = dict(params=e["params"], x=e["x"], y=e["y"], pred=e["pred_src"])
    out.append(f"/-- the mask predicate of `_ellipse_kernel`: `({e['pred_src']}).astype(float)`, x / y one sample each -/")
    out.append(e["kernel"])
    out.append(f"def ellipse_params : List String := {str_list(e['params'])}")
    for v in ("x", "y"):
        for part in ("start", "stop", "num"):
            out.append(f"def ellipse_{v}_{part} ({p0} {p1} : Int) : Int := {e[v][part]}")
        out.append(f"/-- axis the `{v}` samples run along (1 = columns, 0 = rows via `[:, None]`) -/")
        out.append(f"def ellipse_{v}_axis : Nat := {e[v]['axis']}")
    out.append("")

    # --- circle
    try:
        c = circle_facts(mod, e["params"])
    except (Missing, KeyError, IndexError, AttributeError) as ex:
        broken("circle_kernel", ex)
        c = dict(params=["cellsize_x", "cellsize_y", "radius"], r_src="?", **{p0: "(-1)", p1: "(-1)"})
    cp = c["params"]
    rep["circle"] = dict(params=cp, r=c["r_src"], half_w=c[p0], half_h=c[p1])
    out.append(f"def circle_params : List String := {str_list(cp)}")
    out.append(f"def circle_r_src : String := {lean_str(c['r_src'])}")
    out.append(f"/-- what `circle_kernel` passes as `{p0}` / `{p1}` of `_ellipse_kernel` (`rnd` = rounding of one float operation) -/")
    out.append(f"def circle_{p0} (rnd : Rat → Rat) (r {cp[0]} {cp[1]} : Rat) : Int := {c[p0]}")
    out.append(f"def circle_{p1} (rnd : Rat → Rat) (r {cp[0]} {cp[1]} : Rat) : Int := {c[p1]}")
    out.append("")

    # --- annulus
    try:
        a = annulus_facts(mod)
    except (Missing, KeyError, IndexError, AttributeError) as ex:
        broken("annulus_kernel", ex)
        a = dict(outer_args=[], inner_args=[], outer_first=False, op="add", pad=[["(-1)", "(-1)"], ["(-1)", "(-1)"]],
                 mode="?", constant=-1)
    rep["annulus"] = a
    out += [
        f"def annulus_outer_args : List String := {str_list(a['outer_args'])}",
        f"def annulus_inner_args : List String := {str_list(a['inner_args'])}",
        "/-- np.pad widths ((before_rows, after_rows), (before_cols, after_cols)) of the inner kernel -/",
        f"def annulus_pad_before_rows (orows ocols irows icols : Int) : Int := {a['pad'][0][0]}",
        f"def annulus_pad_after_rows (orows ocols irows icols : Int) : Int := {a['pad'][0][1]}",
        f"def annulus_pad_before_cols (orows ocols irows icols : Int) : Int := {a['pad'][1][0]}",
        f"def annulus_pad_after_cols (orows ocols irows icols : Int) : Int := {a['pad'][1][1]}",
        f"def annulus_pad_mode : String := {lean_str(a['mode'])}",
        f"def annulus_pad_constant : Int := {lean_int(a['constant'])}",
        "/-- the final combination `<outer> op <padded inner>` (outer_first) or `<padded inner> op <outer>` -/",
        f"def annulus_combine_op : BinOp := .{a['op']}",
        f"def annulus_outer_first : Bool := {'true' if a['outer_first'] else 'false'}",
        ""]

    # --- calc_cellsize
    try:
        cs = cellsize_facts(mod)
    except (Missing, KeyError, IndexError, AttributeError) as ex:
        broken("calc_cellsize", ex)
        cs = dict(abs=[], names=[], conv=[], res_src="?", unit_src=[])
    rep["cellsize"] = cs
    out += [
        "/-- which components of the returned (x, y) pair are wrapped in abs -/",
        f"def cellsize_abs : List Bool := [{', '.join('true' if b else 'false' for b in cs['abs'])}]",
        f"def cellsize_conv : List String := {str_list(cs['conv'])}",
        f"def cellsize_res_src : String := {lean_str(cs['res_src'])}",
        f"def cellsize_unit_src : List String := {str_list(cs['unit_src'])}",
        "", "end XrsVerif.Gen"]
    yield "MetricFacts.lean", "\n".join(out) + "\n", rep
