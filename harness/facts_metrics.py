"""
Layer T2 facts for C19 (distance strings, unit table, circle / annulus kernels, calc_cellsize).

generate(repo) -> ("MetricFacts.lean", text, report).  Everything is read from the `ast` of
xrspatial/convolution.py; nothing is imported or executed.  When an expected shape is not found the
fact is emitted as a sentinel that cannot satisfy the theorems of Props/C19.lean (and the report
carries ok=False so the run is flagged `untranslatable`), never as a default.

What is extracted
  * `_get_distance`: the regex handed to re.split, the filter of empty pieces, the accepted numbers of
    pieces, which piece is the number / the unit, the rejection test `distance <= 0`, the unit
    normalisation steps, DEFAULT_UNIT, UNITS (names resolved to constants), `_to_meters`' operator;
  * `_ellipse_kernel`: the predicate (as a KLang kernel over scalars x, y, half_w, half_h -- T1 machinery
    of translate.py), the np.linspace arguments of x and y as integer functions of (half_w, half_h)
    and the axis each one runs along (`[:, None]`);
  * `circle_kernel`: the expressions bound to `_ellipse_kernel`'s parameters half_w / half_h as
    functions of (r, cellsize_x, cellsize_y), and the expression `r` is computed from;
  * `annulus_kernel`: the arguments of the two circle_kernel calls, np.pad's target / widths (as
    integer functions of the two shapes) / mode / constant, and the final combination operator;
  * `calc_cellsize`: which components are wrapped in abs, the conversion function used.
"""
import ast
import os
from fractions import Fraction

from translate import KernelTranslator, Untranslatable, call_name, emit_kernel, find_func, lean_str, str_list

REL = "xrspatial/convolution.py"


class Missing(Exception):
    pass


def lean_int(n):
    return str(n) if n >= 0 else f"({n})"


# ------------------------------------------------------------------ small symbolic evaluators
def int_expr(n, env):
    """python int expression over names in env -> Lean `Int` expression text.
    env maps a name to Lean text or to a list (a small vector of Lean texts)."""
    if isinstance(n, ast.Constant) and isinstance(n.value, int) and not isinstance(n.value, bool):
        return lean_int(n.value)
    if isinstance(n, ast.Name):
        if n.id in env:
            return env[n.id]
        raise Missing(f"free name {n.id}")
    if isinstance(n, ast.UnaryOp) and isinstance(n.op, ast.USub):
        v = int_expr(n.operand, env)
        return [f"(-{x})" for x in v] if isinstance(v, list) else f"(-{v})"
    if isinstance(n, ast.BinOp) and type(n.op) in (ast.Add, ast.Sub, ast.Mult, ast.FloorDiv):
        a, b = int_expr(n.left, env), int_expr(n.right, env)

        def one(x, y):
            if isinstance(n.op, ast.FloorDiv):
                return f"(pyFloorDiv {x} {y})"
            return f"({x} {({ast.Add: '+', ast.Sub: '-', ast.Mult: '*'})[type(n.op)]} {y})"
        if isinstance(a, list) or isinstance(b, list):
            la = a if isinstance(a, list) else [a] * len(b)
            lb = b if isinstance(b, list) else [b] * len(a)
            if len(la) != len(lb):
                raise Missing("vector length mismatch")
            return [one(x, y) for x, y in zip(la, lb)]
        return one(a, b)
    if isinstance(n, ast.Call) and call_name(n.func) == "array" and len(n.args) == 1:
        return int_expr(n.args[0], env)
    if isinstance(n, ast.Attribute) and n.attr == "shape" and isinstance(n.value, ast.Name):
        key = n.value.id + ".shape"
        if key in env:
            return env[key]
        raise Missing(f"shape of {n.value.id}")
    if isinstance(n, ast.Subscript) and isinstance(n.slice, ast.Constant) and isinstance(n.slice.value, int):
        v = int_expr(n.value, env)
        if isinstance(v, list) and 0 <= n.slice.value < len(v):
            return v[n.slice.value]
        raise Missing(f"subscript {ast.unparse(n)}")
    raise Missing(f"int expression {ast.unparse(n)}")


def rat_to_int_expr(n, env):
    """`int(a / b)` style expression over Rat-valued names -> Lean `Int` expression text"""
    if isinstance(n, ast.Call) and call_name(n.func) == "int" and len(n.args) == 1:
        return f"(pyInt {rat_expr(n.args[0], env)})"
    raise Missing(f"half width is not int(...): {ast.unparse(n)}")


def rat_expr(n, env):
    if isinstance(n, ast.Name):
        if n.id in env:
            return env[n.id]
        raise Missing(f"free name {n.id}")
    if isinstance(n, ast.Constant) and isinstance(n.value, (int, float)) and not isinstance(n.value, bool):
        fr = Fraction(repr(n.value))
        return f"(ratOf {lean_int(fr.numerator)} {fr.denominator})"
    if isinstance(n, ast.BinOp) and type(n.op) in (ast.Add, ast.Sub, ast.Mult, ast.Div):
        op = {ast.Add: "+", ast.Sub: "-", ast.Mult: "*", ast.Div: "/"}[type(n.op)]
        return f"(rnd ({rat_expr(n.left, env)} {op} {rat_expr(n.right, env)}))"     # one float operation
    raise Missing(f"rational expression {ast.unparse(n)}")


def assignments(func):
    """name -> list of values assigned to it (top level of the function only)"""
    out = {}
    for st in func.body:
        if isinstance(st, ast.Assign) and len(st.targets) == 1 and isinstance(st.targets[0], ast.Name):
            out.setdefault(st.targets[0].id, []).append(st.value)
    return out


def single(assign, name):
    v = assign.get(name, [])
    if len(v) != 1:
        raise Missing(f"{name} assigned {len(v)} times")
    return v[0]


def module_consts(mod):
    c = {}
    for st in mod.body:
        if isinstance(st, ast.Assign) and len(st.targets) == 1 and isinstance(st.targets[0], ast.Name):
            c[st.targets[0].id] = st.value
    return c


def const_value(n, consts, depth=0):
    if isinstance(n, ast.Constant):
        return n.value
    if isinstance(n, ast.Name) and n.id in consts and depth < 5:
        return const_value(consts[n.id], consts, depth + 1)
    raise Missing(f"constant {ast.unparse(n)}")


def kwarg(call, name):
    for k in call.keywords:
        if k.arg == name:
            return k.value
    return None


# ------------------------------------------------------------------ distance strings
def distance_facts(mod):
    consts = module_consts(mod)
    f = find_func(mod, "_get_distance")
    if f is None:
        raise Missing("_get_distance not found")
    param = f.args.args[0].arg
    facts = {}
    # splits = [x for x in re.split(REGEX, distance_str) if x != '']
    asg = assignments(f)
    sp = single(asg, "splits")
    if not (isinstance(sp, ast.ListComp) and len(sp.generators) == 1):
        raise Missing("splits is not a list comprehension")
    g = sp.generators[0]
    it = g.iter
    if not (isinstance(it, ast.Call) and ast.unparse(it.func) == "re.split" and len(it.args) == 2
            and isinstance(it.args[0], ast.Constant) and isinstance(it.args[0].value, str)
            and isinstance(it.args[1], ast.Name) and it.args[1].id == param and not it.keywords):
        raise Missing("re.split(<pattern>, <arg>) not found")
    facts["regex"] = it.args[0].value
    elt_ok = isinstance(sp.elt, ast.Name) and isinstance(g.target, ast.Name) and sp.elt.id == g.target.id
    facts["drop_empty"] = bool(elt_ok and len(g.ifs) == 1 and ast.unparse(g.ifs[0]) == f"{g.target.id} != ''")
    # if len(splits) not in [..]: raise
    lens = None
    reject = None
    unit_known = False
    norm = []
    number_index = unit_index = None
    unit_guard = None
    for st in f.body:
        if isinstance(st, ast.If) and any(isinstance(b, ast.Raise) for b in st.body):
            t = st.test
            if isinstance(t, ast.Compare) and len(t.ops) == 1 and isinstance(t.ops[0], ast.NotIn) \
                    and ast.unparse(t.left) == "len(splits)" and isinstance(t.comparators[0], (ast.List, ast.Tuple)):
                lens = [const_value(e, consts) for e in t.comparators[0].elts]
            elif isinstance(t, ast.Compare) and len(t.ops) == 1 and isinstance(t.left, ast.Name) \
                    and t.left.id == "distance" and isinstance(t.comparators[0], ast.Constant):
                opn = {ast.LtE: "le", ast.Lt: "lt", ast.GtE: "ge", ast.Gt: "gt", ast.Eq: "eq", ast.NotEq: "ne"}.get(type(t.ops[0]))
                if opn is None:
                    raise Missing("rejection comparison")
                reject = (opn, Fraction(repr(t.comparators[0].value)))
            elif isinstance(t, ast.Compare) and len(t.ops) == 1 and isinstance(t.ops[0], ast.NotIn) \
                    and ast.unparse(t.left) == "unit" and ast.unparse(t.comparators[0]) == "UNITS":
                unit_known = True
        if isinstance(st, ast.If) and not any(isinstance(b, ast.Raise) for b in st.body):
            # if len(splits) == 2: unit = splits[1]
            if ast.unparse(st.test).startswith("len(splits) == ") and len(st.body) == 1 and not st.orelse:
                b = st.body[0]
                if isinstance(b, ast.Assign) and ast.unparse(b.targets[0]) == "unit" \
                        and isinstance(b.value, ast.Subscript) and ast.unparse(b.value.value) == "splits":
                    unit_guard = const_value(st.test.comparators[0], consts)
                    unit_index = const_value(b.value.slice, consts)
        if isinstance(st, ast.Assign) and ast.unparse(st.targets[0]) == "number" \
                and isinstance(st.value, ast.Subscript) and ast.unparse(st.value.value) == "splits":
            number_index = const_value(st.value.slice, consts)
        if isinstance(st, ast.Assign) and ast.unparse(st.targets[0]) == "unit" and isinstance(st.value, ast.Call) \
                and isinstance(st.value.func, ast.Attribute) and ast.unparse(st.value.func.value) == "unit":
            m = st.value.func.attr
            args = [const_value(a, consts) for a in st.value.args]
            norm.append(m + "".join(":" + repr(a) for a in args))
    if lens is None or reject is None or number_index is None or unit_index is None:
        raise Missing("shape of _get_distance (lens / reject / number / unit)")
    facts.update(lens=lens, reject=reject, unit_known=unit_known, norm=norm, number_index=number_index,
                 unit_index=unit_index, unit_guard=unit_guard)
    # distance = float(number); _is_numeric = try float(s)
    facts["distance_src"] = ast.unparse(single(asg, "distance"))
    isn = find_func(mod, "_is_numeric")
    facts["is_numeric_src"] = ast.unparse(isn.body[0]).replace("\n", "; ") if isn else "?"
    facts["default_unit"] = const_value(single(asg, "unit") if len(asg.get("unit", [])) == 1 else asg["unit"][0], consts)
    facts["meters_src"] = ast.unparse(single(asg, "meters"))
    # UNITS
    units_node = consts.get("UNITS")
    if not isinstance(units_node, ast.Dict):
        raise Missing("UNITS is not a dict literal")
    units = []
    for k, v in zip(units_node.keys, units_node.values):
        units.append((const_value(k, consts), Fraction(repr(const_value(v, consts)))))
    facts["units"] = units
    tm = find_func(mod, "_to_meters")
    if tm is None or len(tm.body) != 1 or not isinstance(tm.body[0], ast.Return):
        raise Missing("_to_meters")
    facts["to_meters_src"] = ast.unparse(tm.body[0].value)
    return facts


# ------------------------------------------------------------------ _ellipse_kernel
def linspace_of(node):
    """np.linspace(a, b, n)  or  np.linspace(a, b, n)[:, None]  -> (a, b, n, axis)"""
    axis = 1
    if isinstance(node, ast.Subscript):
        sl = node.slice
        if isinstance(sl, ast.Tuple) and len(sl.elts) == 2 and isinstance(sl.elts[0], ast.Slice) \
                and sl.elts[0].lower is None and sl.elts[0].upper is None and sl.elts[0].step is None \
                and isinstance(sl.elts[1], ast.Constant) and sl.elts[1].value is None:
            axis = 0
            node = node.value
        else:
            raise Missing(f"linspace subscript {ast.unparse(node)}")
    if isinstance(node, ast.Call) and call_name(node.func) == "linspace" and len(node.args) == 3 and not node.keywords:
        return node.args[0], node.args[1], node.args[2], axis
    raise Missing(f"not a linspace: {ast.unparse(node)}")


def ellipse_facts(mod):
    f = find_func(mod, "_ellipse_kernel")
    if f is None:
        raise Missing("_ellipse_kernel not found")
    params = [a.arg for a in f.args.args]
    if len(params) != 2:
        raise Missing("_ellipse_kernel parameters")
    asg = assignments(f)
    env = {p: p for p in params}
    out = {"params": params}
    for v in ("x", "y"):
        a, b, n, axis = linspace_of(single(asg, v))
        out[v] = dict(start=int_expr(a, env), stop=int_expr(b, env), num=int_expr(n, env), axis=axis)
    ret = [s for s in f.body if isinstance(s, ast.Return)]
    if len(ret) != 1 or not (isinstance(ret[0].value, ast.Call) and call_name(ret[0].value.func) == "astype"
                             and isinstance(ret[0].value.func.value, ast.Name)
                             and len(ret[0].value.args) == 1 and ast.unparse(ret[0].value.args[0]) == "float"):
        raise Missing("return <mask>.astype(float)")
    mask_name = ret[0].value.func.value.id
    pred = single(asg, mask_name)
    tr = KernelTranslator(mod, f)
    tr.args = ["x", "y"] + params
    tr.yvar = tr.xvar = None
    try:
        c = tr.cond(pred)
    except Untranslatable as ex:
        raise Missing("ellipse predicate: " + str(ex))
    k = dict(arrays=[], scalars=tr.args, vectors=[], fill="nan", top=0, bottom=0, left=0, right=0,
             pre="S.skip", guard="C.tt", body=f"(S.ite {c}\n (S.store (E.lit 1 1))\n (S.store (E.lit 0 1)))")
    out["pred_src"] = ast.unparse(pred)
    out["kernel"] = emit_kernel("ellipse_pred", "convolution._ellipse_kernel", k)
    return out


# ------------------------------------------------------------------ circle_kernel
def circle_facts(mod, ellipse_params):
    f = find_func(mod, "circle_kernel")
    if f is None:
        raise Missing("circle_kernel not found")
    params = [a.arg for a in f.args.args]
    asg = assignments(f)
    call = None
    for n in ast.walk(f):
        if isinstance(n, ast.Call) and call_name(n.func) == "_ellipse_kernel":
            call = n
    if call is None or call.keywords or len(call.args) != len(ellipse_params):
        raise Missing("_ellipse_kernel(...) call in circle_kernel")
    r_src = ast.unparse(single(asg, "r"))
    env = {"r": "r"}
    for p in params[:2]:
        env[p] = p
    out = {"params": params, "r_src": r_src}
    for pname, arg in zip(ellipse_params, call.args):
        e = arg
        if isinstance(e, ast.Name) and e.id in asg:
            e = single(asg, e.id)
        out[pname] = rat_to_int_expr(e, env)
    return out


# ------------------------------------------------------------------ annulus_kernel
def annulus_facts(mod):
    f = find_func(mod, "annulus_kernel")
    if f is None:
        raise Missing("annulus_kernel not found")
    asg = assignments(f)
    out = {}
    circles = {}
    for name, vals in asg.items():
        for v in vals:
            if isinstance(v, ast.Call) and call_name(v.func) == "circle_kernel" and not v.keywords:
                circles[name] = [ast.unparse(a) for a in v.args]
    pad = None
    pad_name = None
    for name, vals in asg.items():
        for v in vals:
            if isinstance(v, ast.Call) and ast.unparse(v.func) in ("np.pad", "numpy.pad"):
                pad, pad_name = v, name
    if pad is None or len(pad.args) != 1 or not isinstance(pad.args[0], ast.Name):
        raise Missing("np.pad(<array>, pad_width=...) not found")
    target = pad.args[0].id
    ret = [s for s in f.body if isinstance(s, ast.Return)]
    if len(ret) != 1 or not isinstance(ret[0].value, ast.Name):
        raise Missing("annulus return")
    fin = single(asg, ret[0].value.id)
    if not (isinstance(fin, ast.BinOp) and isinstance(fin.left, ast.Name) and isinstance(fin.right, ast.Name)
            and type(fin.op) in (ast.Add, ast.Sub, ast.Mult)):
        raise Missing("annulus combination")
    op = {ast.Add: "add", ast.Sub: "sub", ast.Mult: "mul"}[type(fin.op)]
    names = (fin.left.id, fin.right.id)
    if pad_name not in names:
        raise Missing("combination does not use the padded kernel")
    other = names[0] if names[1] == pad_name else names[1]
    if other not in circles or target not in circles or other == target:
        raise Missing("combination operands are not the two circle kernels")
    out["outer_args"] = circles[other]
    out["inner_args"] = circles[target]
    out["outer_first"] = names[0] == other
    out["op"] = op
    env = {other + ".shape": ["orows", "ocols"], target + ".shape": ["irows", "icols"]}
    # local vectors such as pad_vals
    for name, vals in asg.items():
        if name in circles or name == pad_name or name == ret[0].value.id:
            continue
        if len(vals) == 1:
            try:
                env[name] = int_expr(vals[0], env)
            except Missing:
                pass
    pw = kwarg(pad, "pad_width")
    if not (isinstance(pw, ast.Tuple) and len(pw.elts) == 2 and all(isinstance(e, ast.Tuple) and len(e.elts) == 2 for e in pw.elts)):
        raise Missing("pad_width is not ((a, b), (c, d))")
    out["pad"] = [[int_expr(e, env) for e in row.elts] for row in pw.elts]
    mode = kwarg(pad, "mode")
    cv = kwarg(pad, "constant_values")
    out["mode"] = mode.value if isinstance(mode, ast.Constant) else "?"
    out["constant"] = cv.value if isinstance(cv, ast.Constant) and isinstance(cv.value, int) else None
    if out["constant"] is None:
        raise Missing("constant_values")
    return out


# ------------------------------------------------------------------ calc_cellsize
def cellsize_facts(mod):
    f = find_func(mod, "calc_cellsize")
    if f is None:
        raise Missing("calc_cellsize not found")
    ret = [s for s in f.body if isinstance(s, ast.Return)]
    if len(ret) != 1 or not (isinstance(ret[0].value, ast.Tuple) and len(ret[0].value.elts) == 2):
        raise Missing("calc_cellsize return")
    absf, names = [], []
    for e in ret[0].value.elts:
        if isinstance(e, ast.Call) and call_name(e.func) in ("abs", "absolute", "fabs") and len(e.args) == 1:
            absf.append(True)
            e = e.args[0]
        else:
            absf.append(False)
        names.append(ast.unparse(e))
    asg = assignments(f)
    conv = []
    for nm in names:
        vals = asg.get(nm, [])
        conv.append(ast.unparse(vals[-1]) if vals else "?")
    res_src = "?"
    for st in f.body:
        if isinstance(st, ast.Assign) and isinstance(st.targets[0], ast.Tuple):
            res_src = ast.unparse(st)
    unit_src = [ast.unparse(s).replace("\n", "; ") for s in f.body if isinstance(s, ast.If)]
    return dict(abs=absf, names=names, conv=conv, res_src=res_src, unit_src=unit_src)


# ------------------------------------------------------------------ emission
def rat_lit(fr):
    return f"({lean_int(fr.numerator)}, {fr.denominator})"


def generate(repo):
    mod = ast.parse(open(os.path.join(repo, REL)).read())
    rep = {"ok": True, "why": []}
    out = ["import XrsVerif.Core.KLang", "import XrsVerif.Model.PyNum",
           "/-! GENERATED by harness/facts_metrics.py from xrspatial/convolution.py -- do not edit. -/",
           "set_option linter.unusedVariables false",
           "namespace XrsVerif.Gen", "open XrsVerif", ""]

    def broken(what, ex):
        rep["ok"] = False
        rep["why"].append(f"{what}: {ex}")

    # --- distance strings
    try:
        d = distance_facts(mod)
    except (Missing, KeyError, IndexError, AttributeError) as ex:
        broken("_get_distance", ex)
        d = dict(regex="?", drop_empty=False, lens=[], reject=("eq", Fraction(0)), unit_known=False, norm=[],
                 number_index=99, unit_index=99, unit_guard=99, distance_src="?", is_numeric_src="?",
                 default_unit="?", meters_src="?", units=[], to_meters_src="?")
    rep["distance"] = {k: (str(v) if not isinstance(v, (str, int, bool, list)) else v) for k, v in d.items() if k != "units"}
    rep["units"] = [[k, str(v)] for k, v in d["units"]]
    out += [
        "/-- the pattern handed to `re.split` in `_get_distance` -/",
        f"def distance_regex : String := {lean_str(d['regex'])}",
        "/-- empty pieces of the split are dropped (`if x != ''`) -/",
        f"def distance_drop_empty : Bool := {'true' if d['drop_empty'] else 'false'}",
        "/-- accepted numbers of pieces (`len(splits) not in [...]` raises) -/",
        f"def distance_allowed_lens : List Nat := [{', '.join(str(x) for x in d['lens'])}]",
        f"def distance_number_index : Nat := {d['number_index']}",
        "/-- `if len(splits) == unit_guard: unit = splits[unit_index]` -/",
        f"def distance_unit_guard : Nat := {d['unit_guard'] if d['unit_guard'] is not None else 99}",
        f"def distance_unit_index : Nat := {d['unit_index']}",
        "/-- `if distance <op> <bound>: raise` as (op, numerator, denominator) -/",
        f"def distance_reject : CmpOp × Int × Nat := (.{d['reject'][0]}, {lean_int(d['reject'][1].numerator)}, {d['reject'][1].denominator})",
        "/-- `if unit not in UNITS: raise` is present -/",
        f"def distance_unit_checked : Bool := {'true' if d['unit_known'] else 'false'}",
        "/-- string methods applied to the unit, in order -/",
        f"def distance_unit_normalise : List String := {str_list(d['norm'])}",
        f"def distance_value_src : String := {lean_str(d['distance_src'])}",
        f"def distance_is_numeric_src : String := {lean_str(d['is_numeric_src'])}",
        f"def distance_meters_src : String := {lean_str(d['meters_src'])}",
        f"def to_meters_src : String := {lean_str(d['to_meters_src'])}",
        f"def default_unit : String := {lean_str(d['default_unit'])}",
        "/-- `UNITS` with the constants resolved: (name, numerator, denominator) of the factor to metres -/",
        "def units : List (String × Int × Nat) := [",
        ",\n".join(f"  ({lean_str(k)}, {lean_int(v.numerator)}, {v.denominator})" for k, v in d["units"]),
        "]", ""]

    # --- ellipse
    try:
        e = ellipse_facts(mod)
    except (Missing, KeyError, IndexError, AttributeError) as ex:
        broken("_ellipse_kernel", ex)
        bad = dict(start="0", stop="0", num="(-1)", axis=9)
        e = dict(params=["half_w", "half_h"], x=bad, y=bad, pred_src="?",
                 kernel=emit_kernel("ellipse_pred", "convolution._ellipse_kernel",
                                    dict(arrays=[], scalars=[], vectors=[], fill="nan", top=0, bottom=0, left=0, right=0,
                                         pre="S.skip", guard="C.tt", body='S.fail "untranslatable: _ellipse_kernel"')))
    p0, p1 = e["params"]
    rep["ellipse"] = dict(params=e["params"], x=e["x"], y=e["y"], pred=e["pred_src"])
    out.append(f"/-- the mask predicate of `_ellipse_kernel`: `({e['pred_src']}).astype(float)`, x / y one sample each -/")
    out.append(e["kernel"])
    out.append(f"def ellipse_params : List String := {str_list(e['params'])}")
    for v in ("x", "y"):
        for part in ("start", "stop", "num"):
            out.append(f"def ellipse_{v}_{part} ({p0} {p1} : Int) : Int := {e[v][part]}")
        out.append(f"/-- axis the `{v}` samples run along (1 = columns, 0 = rows via `[:, None]`) -/")
        out.append(f"def ellipse_{v}_axis : Nat := {e[v]['axis']}")
    out.append("")

    # --- circle
    try:
        c = circle_facts(mod, e["params"])
    except (Missing, KeyError, IndexError, AttributeError) as ex:
        broken("circle_kernel", ex)
        c = dict(params=["cellsize_x", "cellsize_y", "radius"], r_src="?", **{p0: "(-1)", p1: "(-1)"})
    cp = c["params"]
    rep["circle"] = dict(params=cp, r=c["r_src"], half_w=c[p0], half_h=c[p1])
    out.append(f"def circle_params : List String := {str_list(cp)}")
    out.append(f"def circle_r_src : String := {lean_str(c['r_src'])}")
    out.append(f"/-- what `circle_kernel` passes as `{p0}` / `{p1}` of `_ellipse_kernel` (`rnd` = rounding of one float operation) -/")
    out.append(f"def circle_{p0} (rnd : Rat → Rat) (r {cp[0]} {cp[1]} : Rat) : Int := {c[p0]}")
    out.append(f"def circle_{p1} (rnd : Rat → Rat) (r {cp[0]} {cp[1]} : Rat) : Int := {c[p1]}")
    out.append("")

    # --- annulus
    try:
        a = annulus_facts(mod)
    except (Missing, KeyError, IndexError, AttributeError) as ex:
        broken("annulus_kernel", ex)
        a = dict(outer_args=[], inner_args=[], outer_first=False, op="add", pad=[["(-1)", "(-1)"], ["(-1)", "(-1)"]],
                 mode="?", constant=-1)
    rep["annulus"] = a
    out += [
        f"def annulus_outer_args : List String := {str_list(a['outer_args'])}",
        f"def annulus_inner_args : List String := {str_list(a['inner_args'])}",
        "/-- np.pad widths ((before_rows, after_rows), (before_cols, after_cols)) of the inner kernel -/",
        f"def annulus_pad_before_rows (orows ocols irows icols : Int) : Int := {a['pad'][0][0]}",
        f"def annulus_pad_after_rows (orows ocols irows icols : Int) : Int := {a['pad'][0][1]}",
        f"def annulus_pad_before_cols (orows ocols irows icols : Int) : Int := {a['pad'][1][0]}",
        f"def annulus_pad_after_cols (orows ocols irows icols : Int) : Int := {a['pad'][1][1]}",
        f"def annulus_pad_mode : String := {lean_str(a['mode'])}",
        f"def annulus_pad_constant : Int := {lean_int(a['constant'])}",
        "/-- the final combination `<outer> op <padded inner>` (outer_first) or `<padded inner> op <outer>` -/",
        f"def annulus_combine_op : BinOp := .{a['op']}",
        f"def annulus_outer_first : Bool := {'true' if a['outer_first'] else 'false'}",
        ""]

    # --- calc_cellsize
    try:
        cs = cellsize_facts(mod)
    except (Missing, KeyError, IndexError, AttributeError) as ex:
        broken("calc_cellsize", ex)
        cs = dict(abs=[], names=[], conv=[], res_src="?", unit_src=[])
    rep["cellsize"] = cs
    out += [
        "/-- which components of the returned (x, y) pair are wrapped in abs -/",
        f"def cellsize_abs : List Bool := [{', '.join('true' if b else 'false' for b in cs['abs'])}]",
        f"def cellsize_conv : List String := {str_list(cs['conv'])}",
        f"def cellsize_res_src : String := {lean_str(cs['res_src'])}",
        f"def cellsize_unit_src : List String := {str_list(cs['unit_src'])}",
        "", "end XrsVerif.Gen"]
    yield "MetricFacts.lean", "\n".join(out) + "\n", rep
