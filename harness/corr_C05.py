"""
C05 -- viewshed marks a cell visible exactly when the line-of-sight model says so.

Tie (H, three seams, no source hooks; the numba internals of xrspatial/viewshed.py are called directly):

  seam 1  tree level.  Random and sweep-derived operation sequences are applied to the *real*
          `_insert_into_tree / _delete_from_tree / _max_grad_in_status_struct` on arrays owned by the
          harness.  Every operation is run twice: compiled (numba) and interpreted (`.py_func`, same
          source) with `_rb_*_fixup`, `_left_rotate`, `_right_rotate` wrapped so that the tree is
          snapshotted before the colour fixup and around every rotation.  The Lean driver must
          reproduce: the pre-fixup tree (`leafInsert` / `delCore`), every single rotation (`rotL` /
          `rotR` at that path), and between snapshots only colours may change.  After every operation
          the driver checks BST, AugLe and the node set on the real tree and evaluates the model
          `query` on that very tree against the real query result (exact doubles).
  seam 2  sweep level.  The real `_init_event_list` + lexsort produce the event arrays, the real
          helper functions produce every status node; the real tree operations (a transliteration of
          the sweep loop), the real `_viewshed_cpu_sweep`, the L1 list model and the L2 tree model of
          the driver consume the same operation list; visible sets are compared exactly.
  seam 3  end to end.  Public `viewshed()` against seam 2, plus the output rule.

  wrapper seam   the public function with the two kernels it calls wrapped: observer cell, signed cell sizes, eye
          elevation, target offset, the event arrays it sorted and split, `data` -- against Model/ViewshedWrapper.lean
          (`vs_wrap`) and Model/ViewshedEvents.lean exactly, over coordinate / attribute kinds of the DataArray.

Oracle / search: the O(n^2) list reference (for every centre event scan all active cells) against the
public function; a numba-compiled version of it runs ~10^4 terrains per second in `search`.
"""
import importlib
import json
import math
import os
import random
import sys
import time

import numpy as np

import il_corr
from common import REPO, Driver, grid_tok, tok, untok, untok_exact

PROP = "C05"
PI = math.pi
_V = None


def V():
    """the viewshed *module* (the package attribute `xrspatial.viewshed` is the function)"""
    global _V
    if _V is None:
        if REPO not in sys.path and os.environ.get("XRS_REPO"):
            sys.path.insert(0, REPO)
        _V = importlib.import_module("xrspatial.viewshed")
    return _V


# ---------------------------------------------------------------- trees on harness-owned arrays
class RealTree:
    def __init__(self, n):
        v = V()
        self.n = n
        self.tv = np.zeros((n, 8), dtype=np.float64)
        self.tn = np.zeros((n, 4), dtype=np.int64)
        self.root = int(v._create_status_struct(self.tv, self.tn))
        self.free = list(range(n - 2, 0, -1))

    def copy(self):
        c = object.__new__(RealTree)
        c.n, c.tv, c.tn, c.root, c.free = self.n, self.tv.copy(), self.tn.copy(), self.root, list(self.free)
        return c

    def ser(self, root=None):
        return ser(self.tv, self.tn, self.root if root is None else root)


def ser(tv, tn, root):
    out = []

    def rec(i, depth):
        if i == -1:
            out.append("_")
            return
        if depth > 4000:
            raise RuntimeError("cycle in tree arrays")
        out.extend(tok(x) for x in tv[i][:8].tolist())
        out.append("0" if tn[i][0] == 0 else "1")
        rec(int(tn[i][1]), depth + 1)
        rec(int(tn[i][2]), depth + 1)
    sys.setrecursionlimit(10000)
    rec(int(root), 0)
    return ",".join(out)


def canon(s):
    """tree string -> canonical form (numbers by value, not by spelling)"""
    return ",".join(t if t == "_" else repr(untok(t)) for t in s.split(","))


def strip_colours(s):
    t = s.split(",")
    out, i = [], 0
    while i < len(t):
        if t[i] == "_":
            out.append("_")
            i += 1
        else:
            out.extend(t[i:i + 8])
            i += 9
    return ",".join(out)


def path_of(tn, root, x):
    p = []
    guard = 0
    while x != root:
        par = int(tn[x][3])
        p.append("L" if int(tn[par][1]) == x else "R")
        x = par
        guard += 1
        if guard > 4000:
            raise RuntimeError("parent chain does not reach the root")
    return "".join(reversed(p))


def node_tok(val):
    return ",".join(tok(x) for x in np.asarray(val)[:7].tolist())


class Instrument:
    """run the interpreted source of an operation with the fixups / rotations wrapped"""

    def __init__(self):
        self.v = V()
        self.snaps = []

    def __enter__(self):
        v = self.v
        self.orig = (v._rb_insert_fixup, v._rb_delete_fixup, v._left_rotate, v._right_rotate)
        of_i, of_d, ol, orr = self.orig
        snaps = self.snaps

        def fix_i(tv, tn, root, z):
            snaps.append(("core", ser(tv, tn, root)))
            return of_i.py_func(tv, tn, root, z)

        def fix_d(tv, tn, root, x):
            snaps.append(("core", ser(tv, tn, root)))
            return of_d.py_func(tv, tn, root, x)

        def rot(which, f):
            def w(tv, tn, root, x):
                before = ser(tv, tn, root)
                p = path_of(tn, root, int(x))
                new_root = f(tv, tn, root, x)
                snaps.append((which, p, before, ser(tv, tn, new_root)))
                return new_root
            return w
        v._rb_insert_fixup, v._rb_delete_fixup = fix_i, fix_d
        v._left_rotate, v._right_rotate = rot("L", ol), rot("R", orr)
        return self

    def __exit__(self, *a):
        v = self.v
        v._rb_insert_fixup, v._rb_delete_fixup, v._left_rotate, v._right_rotate = self.orig


def apply_op(rt, op, requests, expect, case):
    """apply one tree operation to the real tree `rt` (compiled), and in parallel the interpreted,
    instrumented run on a copy; append the driver requests that must reproduce every step"""
    v = V()
    before = rt.ser()
    shadow = rt.copy()
    if op[0] == "ins":
        val = np.asarray(op[1], dtype=np.float64)
        nid = rt.free.pop()
        shadow.free.pop()
        rt.root = int(v._insert_into_tree(rt.tv, rt.tn, rt.root, nid, val))
        with Instrument() as ins:
            shadow.root = int(v._insert_into_tree.py_func(shadow.tv, shadow.tn, shadow.root, nid, val))
        core_req = f"vs_ins tree={before} node={node_tok(val)}"
    else:
        key = float(op[1])
        root, d = v._delete_from_tree(rt.tv, rt.tn, rt.root, key)
        rt.root = int(root)
        rt.free.append(int(d))
        with Instrument() as ins:
            root2, d2 = v._delete_from_tree.py_func(shadow.tv, shadow.tn, shadow.root, key)
        shadow.root = int(root2)
        core_req = f"vs_del tree={before} key={tok(key)}"
    after = rt.ser()
    after_py = shadow.ser()
    if after != after_py:
        expect.append(("static", "compiled == interpreted", after, after_py, case))
    snaps = ins.snaps
    core = [s for s in snaps if s[0] == "core"]
    rots = [s for s in snaps if s[0] != "core"]
    # the tree right before the fixup (no fixup call: the tree after the operation is the core result)
    core_tree = core[0][1] if core else after_py
    requests.append(core_req)
    expect.append(("reply", "core-op", core_tree, None, case))
    cur = core_tree
    for which, p, b, a in rots:
        if strip_colours(b) != strip_colours(cur):
            expect.append(("static", "only colours change between snapshots", strip_colours(cur), strip_colours(b), case))
        requests.append(f"vs_rot tree={b} path={p} dir={which}")
        expect.append(("reply", f"rot{which}@{p or 'root'}", a, None, case))
        cur = a
    if strip_colours(cur) != strip_colours(after_py):
        expect.append(("static", "only colours change after the last rotation", strip_colours(cur), strip_colours(after_py), case))
    return len(rots), bool(core)


def check_state(rt, keys, q, requests, expect, case):
    """driver checks BST / AugLe / node set of the real tree and (optionally) the model query on it"""
    v = V()
    req = f"vs_check tree={rt.ser()}"
    real_q = None
    if q is not None:
        k, ang, g = q
        real_q = float(v._max_grad_in_status_struct(rt.tv, rt.tn, rt.root, float(k), float(ang), float(g)))
        req += f" qk={tok(k)} qa={tok(ang)} qg={tok(g)}"
    requests.append(req)
    expect.append(("check", sorted(keys), real_q, q, case))


def settle(r, requests, expect, stream):
    """send the requests, compare with the expectations; returns number of disagreements"""
    replies = iter(Driver().ask(requests))
    bad = 0
    stats = dict(under=0, checks=0)
    for e in expect:
        if e[0] == "static":
            _, what, a, b, case = e
            if a != b:
                bad += 1
                r.disagree(stream, case, f"{what}: {a[:300]}", b[:300])
            continue
        rep = next(replies)
        if e[0] == "check-known":
            _, keys, real_q, q, case = e
            f = dict(p.split("=", 1) for p in rep.split(" ") if "=" in p)
            if f.get("q") is None or untok(f["q"]) != real_q:
                bad += 1
                r.disagree(stream, case, f"real query {q} -> {real_q!r}", f"model query -> {f.get('q')}")
            elif f.get("vis") != f.get("visL"):
                r.tag("corpus:tree-level-wrong-answer-reproduced (real == model != list; not a sweep)")
            continue
        if e[0] == "reply":
            _, what, want, _, case = e
            if rep.startswith("err") or rep.startswith("bad") or canon(rep) != canon(want):
                bad += 1
                r.disagree(stream, case, f"{what}: real tree {want[:400]}", f"model {rep[:400]}")
        else:
            _, keys, real_q, q, case = e
            f = dict(p.split("=", 1) for p in rep.split(" ") if "=" in p)
            stats["checks"] += 1
            if f.get("exact") == "0":
                stats["under"] += 1
            got_keys = sorted(untok(t) for t in f.get("keys", "").split(";") if t)
            if f.get("bst") != "1" or got_keys != [0.0] + [float(k) for k in keys]:
                bad += 1
                r.disagree(stream, case, f"invariant on the real tree: bst={f.get('bst')} keys={got_keys[:12]}",
                           f"expected keys {[0.0] + keys[:12]} ({rep[:200]})")
            if f.get("augle") != "1":
                # The code's deletion does not always keep "no overestimate" when gradients tie (Props/C05.lean,
                # delete_can_overestimate).  While only the root overestimates (augleq=1) query_decides still
                # applies; otherwise this state is not covered by the theorem.  Monitored, not flagged: every
                # decision taken on such a tree is still compared with the list decision below and end to end
                # in seams 2 and 3.
                stats["over"] = stats.get("over", 0) + 1
                if f.get("augleq") != "1":
                    stats["over_nonroot"] = stats.get("over_nonroot", 0) + 1
                notes = r.extra.setdefault("notes", [])
                if len(notes) < 3:
                    notes.append("real tree overestimates (AugLe fails, decisions still compared): " + json.dumps(case, default=str)[:600])
            if q is not None:
                if f.get("q") is None or untok(f["q"]) != real_q:
                    bad += 1
                    r.disagree(stream, case, f"real query {q} -> {real_q!r}", f"model query -> {f.get('q')}")
                if f.get("vis") != f.get("visL") and f.get("spanok") == "1":
                    bad += 1
                    r.disagree(stream, case, f"query {q}: tree decision {f.get('vis')}", f"list decision {f.get('visL')}")
    return bad, stats


# ---------------------------------------------------------------- seam 1 generators
def gen_tree_sequence(rng, pool, nops, alphabet, kind):
    """operation list with distinct keys; gradients drawn from a small alphabet (many ties)"""
    ops, present = [], {}
    keys = list(range(1, 3 * pool))
    for _ in range(nops):
        if present and (len(present) >= pool or rng.random() < 0.45):
            k = rng.choice(sorted(present))
            del present[k]
            ops.append(("del", float(k)))
        else:
            k = rng.choice([x for x in keys if x not in present])
            if kind == "flat":
                g = [float(rng.randrange(alphabet))] * 3
            elif kind == "dyadic":
                g = [rng.randrange(-8, 9) / 4.0 for _ in range(3)]
            else:
                g = [float(rng.randrange(alphabet)) for _ in range(3)]
            a1 = rng.randrange(1, 8) / 8.0
            val = [float(k)] + g + [-rng.randrange(1, 9) / 8.0, a1, 1.0 + rng.randrange(0, 9) / 8.0]
            present[k] = val
            ops.append(("ins", val))
        if present and rng.random() < 0.5:
            # a query at a bearing every present node spans (as in the sweep), for a present key
            lo = max(v[4] for v in present.values())
            hi = min(v[6] for v in present.values())
            k = rng.choice(sorted(present))
            ang = rng.choice([lo, hi, present[k][5], rng.randrange(0, 9) / 8.0, rng.randrange(0, 65) / 64.0])
            ops.append(("qry", float(k), float(ang), float(rng.choice([present[k][2], float(rng.randrange(alphabet)), -3.0, 9.0]))))
    return ops


def run_tree_sequence(r, ops, case, stream, requests, expect, size=None):
    n = size or (len(ops) + 8)
    rt = RealTree(n)
    keys = []
    nrot = 0
    for idx, op in enumerate(ops):
        c = dict(case, at=idx)
        if op[0] == "qry":
            check_state(rt, list(keys), (op[1], op[2], op[3]), requests, expect, c)
            continue
        k, _ = apply_op(rt, op, requests, expect, c)
        nrot += k
        if op[0] == "ins":
            keys.append(float(op[1][0]))
        else:
            keys.remove(float(op[1]))
        keys.sort()
        check_state(rt, list(keys), None, requests, expect, c)
    return nrot


# ---------------------------------------------------------------- seam 2: the sweep
def events(raster, vr, vc):
    v = V()
    n_rows, n_cols = raster.shape
    data = np.zeros((3, n_cols))
    vis = np.full(raster.shape, -1.0)
    ev = np.zeros((3 * (n_rows * n_cols - 1), 7))
    v._init_event_list(ev, raster, vr, vc, data, vis)
    ev = ev[np.lexsort((ev[:, 2], ev[:, 3]))]
    return ev, data, vis


def status_node(row, col, e0, e1, e2, ang0, vr, vc, velev, ew, ns, initial):
    """the status node exactly as `_viewshed_cpu_sweep` builds it (real helper functions)"""
    v = V()
    sn = np.zeros(7)
    ay, ax = v._calc_event_pos(1, row, col, vr, vc)
    sn[4] = v._calculate_angle(ax, ay, vc, vr) if initial else ang0
    sn[1] = v._calc_event_grad(ay, ax, e0, vr, vc, velev, ew, ns)
    ay, ax = v._calc_event_pos(0, row, col, vr, vc)
    sn[5] = v._calculate_angle(ax, ay, vc, vr)
    sn[0], sn[2] = v._calc_dist_n_grad(row, col, e1, vr, vc, velev, ew, ns)
    ay, ax = v._calc_event_pos(-1, row, col, vr, vc)
    sn[6] = v._calculate_angle(ax, ay, vc, vr)
    sn[3] = v._calc_event_grad(ay, ax, e2, vr, vc, velev, ew, ns)
    if initial:
        if sn[4] > sn[5]:
            sn[4] -= 2 * PI
    elif ang0 < PI:
        if sn[4] > sn[5]:
            sn[4] -= 2 * PI
    else:
        if sn[4] > sn[5]:
            sn[5] += 2 * PI
            sn[6] += 2 * PI
    return sn


def sweep_ops(raster, vr, vc, velev, vtarget, ew, ns):
    """the operation list of the sweep: ('ins', node, row, col, initial) ('del', key, row, col)
    ('qry', key, ang, grad, row, col, elev)"""
    v = V()
    ev, data, vis = events(raster, vr, vc)
    ops = []
    n_rows, n_cols = raster.shape
    for i in range(vc + 1, n_cols):
        if not np.isnan(data[1][i]):
            ops.append(("ins", status_node(vr, i, data[0][i], data[1][i], data[2][i], None, vr, vc, velev, ew, ns, True),
                        vr, i, True))
    for e in ev:
        row, col, typ = int(e[0]), int(e[1]), int(e[2])
        key, g1 = v._calc_dist_n_grad(row, col, e[5] + vtarget, vr, vc, velev, ew, ns)
        if typ == 1:
            ops.append(("ins", status_node(row, col, e[4], e[5], e[6], e[3], vr, vc, velev, ew, ns, False), row, col, False))
        elif typ == -1:
            ops.append(("del", float(key), row, col))
        else:
            ops.append(("qry", float(key), float(e[3]), float(g1), row, col, float(e[5] + vtarget)))
    return ops, ev, data


def interp(n, ang):
    if ang < n[5]:
        return n[2] + (n[1] - n[2]) * (n[5] - ang) / (n[5] - n[4])
    if ang > n[5]:
        return n[2] + (n[3] - n[2]) * (ang - n[5]) / (n[6] - n[5])
    return n[2]


def reference_visible(ops):
    """the O(n^2) reference of the property: a cell is visible iff no active nearer cell spanning its
    bearing has a greater interpolated gradient.  Returns {(row, col): bool}."""
    S = V().SMALLEST_GRAD
    st, out = [], {}
    for op in ops:
        if op[0] == "ins":
            st.append(np.array(op[1]))
        elif op[0] == "del":
            for i, n in enumerate(st):
                if n[0] == op[1]:
                    st.pop(i)
                    break
            else:
                raise RuntimeError("reference: exit event for a cell that is not active")
        else:
            _, key, ang, g, row, col, elev = op
            mx = S
            for n in st:
                if n[0] < key and n[4] <= ang <= n[6]:
                    mx = max(mx, interp(n, ang))
            out[(row, col)] = bool(mx <= g)
    return out


def real_tree_sweep(ops, shape, vc):
    """transliteration of the sweep loop on the real tree functions -> {(row, col): bool}"""
    v = V()
    nn = shape[1] - vc + shape[0] * shape[1] + 10
    rt = RealTree(nn)
    out = {}
    for op in ops:
        if op[0] == "ins":
            rt.root = int(v._insert_into_tree(rt.tv, rt.tn, rt.root, rt.free.pop(), np.asarray(op[1])))
        elif op[0] == "del":
            root, d = v._delete_from_tree(rt.tv, rt.tn, rt.root, op[1])
            rt.root = int(root)
            rt.free.append(int(d))
        else:
            _, key, ang, g, row, col, elev = op
            mx = v._max_grad_in_status_struct(rt.tv, rt.tn, rt.root, key, ang, g)
            out[(row, col)] = bool(mx <= g)
    return out


def real_sweep(raster, vr, vc, velev, vtarget, ew, ns, ev, data):
    v = V()
    vis = np.full(raster.shape, -1.0)
    vis[vr, vc] = 180
    rcts = np.array(ev[:, :3], dtype=np.int64)
    aes = np.array(ev[:, 3:], dtype=np.float64)
    return v._viewshed_cpu_sweep(raster, vr, vc, float(velev), float(vtarget), float(ew), float(ns), rcts, aes,
                                 data.copy(), vis)


def ops_tok(ops):
    parts = []
    for op in ops:
        if op[0] == "ins":
            parts.append("i:" + ":".join(tok(x) for x in np.asarray(op[1]).tolist()))
        elif op[0] == "del":
            parts.append("d:" + tok(op[1]))
        else:
            parts.append(f"q:{tok(op[1])}:{tok(op[2])}:{tok(op[3])}")
    return ";".join(parts)


# ---------------------------------------------------------------- seam 0: the event geometry, exactly
def instrumented_sweep(raster, vr, vc, velev, vt, ew, ns, ev, data):
    """the INTERPRETED source of `_viewshed_cpu_sweep` (`.py_func`) with the three status-structure entry points
    wrapped: returns the sequence of operations the real sweep performs (initial fill included) and its output"""
    v = V()
    rec = []
    orig = (v._insert_into_tree, v._delete_from_tree, v._max_grad_in_status_struct)

    def w_ins(tv, tn, root, nid, val):
        rec.append(("ins", np.array(val[:7], dtype=np.float64)))
        return orig[0](tv, tn, root, nid, val)

    def w_del(tv, tn, root, key):
        rec.append(("del", float(key)))
        return orig[1](tv, tn, root, key)

    def w_qry(tv, tn, root, key, ang, grad):
        rec.append(("qry", float(key), float(ang), float(grad)))
        return orig[2](tv, tn, root, key, ang, grad)
    v._insert_into_tree, v._delete_from_tree, v._max_grad_in_status_struct = w_ins, w_del, w_qry
    try:
        vis = np.full(raster.shape, -1.0)
        vis[vr, vc] = 180
        rcts = np.array(ev[:, :3], dtype=np.int64)
        aes = np.array(ev[:, 3:], dtype=np.float64)
        out = v._viewshed_cpu_sweep.py_func(raster, vr, vc, float(velev), float(vt), float(ew), float(ns), rcts, aes,
                                            data.copy(), vis)
    finally:
        v._insert_into_tree, v._delete_from_tree, v._max_grad_in_status_struct = orig
    return rec, out


def events_request(a64, vr, vc, ew, ns):
    from fractions import Fraction
    return f"vs_events grid={grid_tok(a64)} vr={vr} vc={vc} ew={tok(Fraction(ew))} ns={tok(Fraction(ns))}"


def compare_events(c, ops, ev, data, rep, rec=None):
    """the exact event data of Model/ViewshedEvents.lean (driver reply `rep`) against the real `_init_event_list` output
    `ev` (sorted as `_viewshed_cpu` sorts it), `data`, the real keys and positions, the operation list `ops` of the
    harness's transliteration, and (if given) the operations `rec` recorded from the real interpreted sweep.
    Returns a list of differences (strings)."""
    from fractions import Fraction
    v = V()
    a, xs, ys, ew, ns, velev, vt = terrain_setup(c)
    vr, vc = c["vr"], c["vc"]
    if rep.startswith(("err", "bad")):
        return ["driver: " + rep[:200]]
    f = dict(p.split("=", 1) for p in rep.split(" ") if "=" in p)
    out = []
    mev = [t.split(":") for t in f.get("ev", "").split(";") if t]
    if len(mev) != len(ev):
        return [f"{len(ev)} real events, {len(mev)} model events"]
    for k, (m, e) in enumerate(zip(mev, ev)):
        row, col, ty, y2, x2 = (int(t) for t in m[:5])
        if (row, col, ty) != (int(e[0]), int(e[1]), int(e[2])):
            out.append(f"sorted position {k}: real event {(int(e[0]), int(e[1]), int(e[2]))}, model {(row, col, ty)}")
            break
        ry, rx = v._calc_event_pos(ty, row, col, vr, vc)
        if (Fraction(float(ry)) * 2, Fraction(float(rx)) * 2) != (y2, x2):
            out.append(f"event {(row, col, ty)}: real position {(float(ry), float(rx))}, model {(y2 / 2, x2 / 2)}")
            break
        want = tuple(untok_exact(t) for t in m[5:8])
        got = tuple(Fraction(float(x)) for x in e[4:7])
        if want != got:
            out.append(f"event {(row, col, ty)}: real elevations {tuple(float(x) for x in e[4:7])}, model "
                       f"{tuple(float(x) for x in want)} (exact rationals differ)")
            break
    # bearings: consecutive real events must have non-decreasing bearings, and equal bearings exactly when the model's
    # cross product vanishes (same half plane) -- the sequence equality above already pins the order; here the values
    mdata = [tuple(untok_exact(x) for x in t.split(":")) for t in f.get("data", "").split(";") if t]
    rdata = [tuple(Fraction(float(data[k][j])) for k in range(3)) for j in range(data.shape[1])]
    if mdata != rdata:
        j = next((j for j in range(min(len(mdata), len(rdata))) if mdata[j] != rdata[j]), -1)
        out.append(f"observer-row buffer `data`, column {j}: real {tuple(float(data[k][j]) for k in range(3)) if j >= 0 else len(rdata)}"
                   f", model {tuple(float(x) for x in mdata[j]) if j >= 0 else len(mdata)}")
    from common import parse_grid
    mkeys = parse_grid(f["keys"], untok_exact)
    for i in range(a.shape[0]):
        for j in range(a.shape[1]):
            rk = float(v._calc_dist_n_grad(i, j, 0.0, vr, vc, 0.0, ew, ns)[0])
            if Fraction(rk) != mkeys[i][j]:
                out.append(f"key of cell {(i, j)}: real {rk}, model {float(mkeys[i][j])}")
                break
        else:
            continue
        break
    mops = [t for t in f.get("ops", "").split(";") if t]
    hops = []
    for op in ops:
        if op[0] == "ins":
            hops.append(("*" if op[4] else "+") + f"{op[2]}:{op[3]}")
        elif op[0] == "del":
            hops.append(f"-{op[2]}:{op[3]}")
        else:
            hops.append(f"?{op[4]}:{op[5]}")
    if mops != hops:
        k = next((k for k in range(min(len(mops), len(hops))) if mops[k] != hops[k]), min(len(mops), len(hops)))
        out.append(f"operation {k} of the sweep: real {hops[k] if k < len(hops) else None}, model {mops[k] if k < len(mops) else None}"
                   f" ({len(hops)} / {len(mops)} operations)")
    if f.get("replay") != "1":
        out.append("the model's operation list violates the active-set discipline")
    if rec is not None:
        if len(rec) != len(ops):
            out.append(f"the real sweep performs {len(rec)} status-structure operations, the transliteration {len(ops)}")
        else:
            for k, (x, y) in enumerate(zip(rec, ops)):
                same = x[0] == y[0] and (np.array_equal(x[1], np.asarray(y[1])[:7]) if x[0] == "ins" else
                                          x[1] == y[1] if x[0] == "del" else x[1:4] == tuple(y[1:4]))
                if not same:
                    out.append(f"operation {k}: the real sweep does {x[0]} {np.asarray(x[1]).tolist() if x[0] == 'ins' else x[1:]}, "
                               f"the transliteration {y[0]} {np.asarray(y[1]).tolist() if y[0] == 'ins' else y[1:4]}")
                    break
    return out


# ---------------------------------------------------------------- terrains
def gen_terrain(rng, maxs):
    h, w = rng.randrange(2, maxs + 1), rng.randrange(2, maxs + 1)
    kind = rng.choice(["alphabet", "alphabet", "bumps", "plateau", "dyadic", "int", "flat", "rowrelief", "rowrelief"])
    vr, vc = rng.randrange(h), rng.randrange(w)
    if kind == "alphabet":
        k = rng.choice([2, 3, 4])
        a = [[float(rng.randrange(k)) for _ in range(w)] for _ in range(h)]
    elif kind == "bumps":
        base = float(rng.choice([0, 1, 5]))
        a = [[base] * w for _ in range(h)]
        for _ in range(rng.randrange(1, max(2, h * w // 3))):
            a[rng.randrange(h)][rng.randrange(w)] = base + rng.choice([1, 2, 3, -1, 0.5])
    elif kind == "plateau":
        base = float(rng.choice([0, 2]))
        a = [[base] * w for _ in range(h)]
        for _ in range(rng.randrange(1, 4)):
            r0, c0 = rng.randrange(h), rng.randrange(w)
            hv = base + rng.choice([1, 2, 3])
            for i in range(r0, min(h, r0 + rng.randrange(1, 4))):
                for j in range(c0, min(w, c0 + rng.randrange(1, 4))):
                    a[i][j] = hv
    elif kind == "dyadic":
        a = [[rng.randrange(0, 64) / 8 for _ in range(w)] for _ in range(h)]
    elif kind == "int":
        a = [[float(rng.randrange(-20, 100)) for _ in range(w)] for _ in range(h)]
    elif kind == "rowrelief":
        # relief next to one of the four axis rays of the observer (its row or column): a low, nearly flat terrain
        # with a few tall cells in the lines adjacent to that ray, so that the corner elevations of the cells ON the ray
        # differ from their centre elevations and decide what is seen in the narrow wedges beside the ray
        w = max(w, rng.randrange(4, maxs + 2))
        h = max(h, rng.choice([2, 3, 3, 4]))
        vr, vc = rng.randrange(h), rng.randrange(w)
        ray = rng.choice(["E", "E", "W", "N", "S"])
        if ray == "E":
            vc = rng.randrange(0, max(1, w // 2))
        elif ray == "W":
            vc = rng.randrange(w // 2, w)
        lowk = rng.choice([1, 1, 2])
        a = [[float(rng.randrange(lowk)) for _ in range(w)] for _ in range(h)]
        tall = rng.choice([3.0, 6.0, 12.0, 2.5])
        for _ in range(rng.randrange(1, 4)):
            if ray in "EW":
                rr = vr + rng.choice([-1, 1])
                cc = rng.randrange(vc, w) if ray == "E" else rng.randrange(0, vc + 1)
            else:
                cc = vc + rng.choice([-1, 1])
                rr = rng.randrange(0, vr + 1) if ray == "N" else rng.randrange(vr, h)
            if 0 <= rr < h and 0 <= cc < w and (rr, cc) != (vr, vc):
                a[rr][cc] = tall + rng.choice([0.0, 0.0, 1.0])
    else:
        a = [[float(rng.choice([0, 3]))] * w for _ in range(h)]
        a = [[a[0][0]] * w for _ in range(h)]
    dtype = rng.choice(DTYPES)
    if kind in ("dyadic", "rowrelief") and not dtype.startswith("float"):
        dtype = "float64"
    if kind == "bumps" and not dtype.startswith("float"):
        a = [[float(int(x)) for x in row] for row in a]
    if dtype.startswith("uint"):
        lo = min(min(row) for row in a)
        if lo < 0:
            a = [[x - lo for x in row] for row in a]
    if dtype in ("uint8", "int8") and rng.random() < 0.3 and kind in ("int", "alphabet", "plateau", "flat"):
        # elevations near the top of the dtype's range: terrain + observer_elev does not fit the raster's own dtype
        top = 253.0 if dtype == "uint8" else 125.0
        hi = max(max(row) for row in a)
        a = [[x + (top - hi) for x in row] for row in a]
        if dtype == "int8":
            a = [[max(x, -128.0) for x in row] for row in a]
    oe = rng.choice([0, 0, 1, -1, 5, 0.5, -0.5])
    if kind == "rowrelief":
        oe = rng.choice([0, 1, 1, 0.5, 2])
    c = dict(kind=kind, dtype=dtype, a=a, vr=vr, vc=vc, oe=oe, te=rng.choice([0, 0, 2, 1, 0.5]))
    # cell-size scale class: 2^k coordinate units per (unit) cell, k from -20 (~1e-6: arc-second lon / lat grids and finer)
    # to +20 (~1e6).  The heights are scaled along, so the model is the same up to an exact power of two: same gradients,
    # same verdicts, same vertical angles -- and everything stays dyadic for the exact seams.
    k = rng.choice(SCALES)
    if k != 0:
        sc = 2.0 ** k
        if not c["dtype"].startswith("float"):
            c["dtype"] = rng.choice(["float64", "float64", "float32"])
        c["a"] = [[x * sc for x in row] for row in a]
        c["oe"], c["te"] = c["oe"] * sc, c["te"] * sc
    c["scale"] = k
    c.update(gen_coords(rng, 2.0 ** k))
    return c


SCALES = [0, 0, 0, 0, -20, -12, -10, -10, 10, 20]


DTYPES = ["float64", "float64", "float32", "int32", "int64", "int16", "uint8", "uint16", "int8"]

# Coordinate / attribute kinds of the DataArray handed to the public function.  Steps and origins are dyadic, so that
# `c0 + j * step` and `(c[-1] - c[0]) / (n - 1)` are exact in float64 (the exact seam 0 and the exact wrapper seam need that).
STEPS = [1.0, 1.0, 2.0, 0.5, 0.25, 1.5, 0.75, 30.0]
X0S = [0.0, 10.0, -3.0, 500000.0, -0.75]
Y0S = [0.0, 5.0, 4100000.0, -7.5]
OFFS = [0.0, 0.0, 0.0, 0.25, -0.25, 0.375, -0.4375]


def gen_coords(rng, scale=1.0):
    """the coordinate arrays (ascending / descending, fractional steps, non-square cells, offsets), where the observer is
    given (at a centre, off-centre -- the nearest centre rule --, beyond the edge cell's centre: clamped to the raster's
    edge), and the `res` attribute (none / consistent with the coordinates / STALE: disagreeing with them, scalar or
    per-axis; what xarray leaves behind after a strided selection, a coarsen with keep_attrs, rescaled coordinates)"""
    dx = rng.choice(STEPS) * rng.choice([1, 1, -1]) * scale
    dy = rng.choice(STEPS) * rng.choice([1, -1, -1]) * scale
    if rng.random() < 0.4:
        dy = math.copysign(abs(dx), dy)                     # square cells
    c = dict(dx=dx, dy=dy, x0=rng.choice(X0S), y0=rng.choice(Y0S), off=0.0,
             offx=rng.choice(OFFS), offy=rng.choice(OFFS))
    k = rng.choice(["none", "ok", "ok", "stale", "stale", "stale"])
    form = rng.choice(["tuple", "tuple", "list", "scalar", "array"])
    if k == "none":
        c.update(res_kind="none", res_form="none", res_val=None)
    elif k == "ok":
        # consistent with the coordinates: the magnitudes (what rioxarray / the generators of xrspatial write) or the signed steps
        sgn = rng.choice([True, False])
        val = [dx if sgn else abs(dx), dy if sgn else abs(dy)]
        if form == "scalar":
            if abs(dx) == abs(dy):
                val = abs(dx)
            else:
                form = "tuple"
        c.update(res_kind="ok", res_form=form, res_val=val)
    else:
        fx, fy = rng.choice([(2, 1), (1, 2), (0.5, 1), (2, 2), (1, 3), (4, 0.5), (3, 3)])
        if form == "scalar":
            val = rng.choice([abs(dx) * 2, abs(dy) * 3, 1.0 if (abs(dx), abs(dy)) != (1.0, 1.0) else 7.0, 1 if abs(dx) != 1.0 else 2])
            if val in (abs(dx), abs(dy)) and abs(dx) == abs(dy):
                val = abs(dx) * 2
        else:
            val = [abs(dx) * fx, abs(dy) * fy]
        c.update(res_kind="stale", res_form=form, res_val=val)
    return c


def coord_tags(c):
    offx, offy = c.get("offx", c.get("off", 0.0)), c.get("offy", c.get("off", 0.0))
    frac = any(abs(v) != int(abs(v)) for v in (c["dx"], c["dy"]))
    return ["coords:y-" + ("descending" if c["dy"] < 0 else "ascending"), "coords:x-" + ("descending" if c["dx"] < 0 else "ascending"),
            "step:" + ("fractional" if frac else "integral"),
            "origin:" + ("large" if max(abs(c["x0"]), abs(c["y0"])) > 1000 else "small"),
            "cell-size:2^" + str(c.get("scale", 0)),
            "observer-given:" + ("at-centre" if offx == 0 and offy == 0 else "off-centre"),
            "attrs:res-" + c.get("res_kind", "ok") + ("" if c.get("res_kind", "ok") == "none" else "-" + c.get("res_form", "tuple"))]


def terrain_setup(c):
    """what `_viewshed_cpu` derives from the public arguments"""
    a = np.array(c["a"], dtype=np.float64).astype(c["dtype"])
    h, w = a.shape
    xs = c["x0"] + c["dx"] * np.arange(w, dtype=np.float64)
    ys = c["y0"] + c["dy"] * np.arange(h, dtype=np.float64)
    ew = (xs[-1] - xs[0]) / (w - 1)
    ns = (ys[-1] - ys[0]) / (h - 1)
    # the eye: terrain at the observer's cell + observer height, as numbers (NOT in the raster's dtype: a narrow or unsigned
    # integer dtype would wrap around, or refuse a negative height)
    velev = float(a[c["vr"], c["vc"]]) + c["oe"]
    vt = float(c["te"]) if c["te"] > 0 else 0.0
    return a, xs, ys, float(ew), float(ns), float(velev), vt


def res_attrs(c):
    """the attributes of the DataArray: cases recorded before the attrs dimension existed carry the consistent tuple"""
    form = c.get("res_form")
    if form is None:
        return {"res": (c["dx"], c["dy"])}
    if form == "none":
        return {}
    v = c["res_val"]
    if form == "scalar":
        return {"res": v}
    if form == "tuple":
        return {"res": tuple(v)}
    if form == "list":
        return {"res": list(v)}
    return {"res": np.array(v, dtype=np.float64)}


def observer_xy(c, xs, ys):
    """the observer in data space: at / off the centre of cell (vr, vc), never nearer to another centre; a position beyond
    the centre of an edge cell is clamped to the raster's edge (outside, the function raises ValueError)"""
    x = xs[c["vc"]] + c.get("offx", c.get("off", 0.0)) * c["dx"]
    y = ys[c["vr"]] + c.get("offy", c.get("off", 0.0)) * c["dy"]
    x = min(max(x, xs.min()), xs.max())
    y = min(max(y, ys.min()), ys.max())
    return float(x), float(y)


def public_viewshed(c):
    import xarray as xr
    a, xs, ys, ew, ns, velev, vt = terrain_setup(c)
    da = xr.DataArray(a.copy(), dims=["y", "x"], coords={"y": ys, "x": xs}, attrs=res_attrs(c))
    x, y = observer_xy(c, xs, ys)
    out = V().viewshed(da, x=x, y=y, observer_elev=c["oe"], target_elev=c["te"])
    return np.asarray(out.values), out


def expected_output(c, visible):
    """the property's output rule, from the statement: observer 180; visible -> vertical angle from the
    elevation difference and horizontal distance (0..180, 90 = level); every other cell -1"""
    a, xs, ys, ew, ns, velev, vt = terrain_setup(c)
    a = a.astype(np.float64)
    h, w = a.shape
    out = np.full((h, w), -1.0)
    out[c["vr"], c["vc"]] = 180.0
    for (row, col), vis in visible.items():
        if vis:
            dist = math.hypot((col - c["vc"]) * ew, (row - c["vr"]) * ns)
            dz = (a[row, col] + vt) - velev
            out[row, col] = 90.0 + math.degrees(math.atan2(dz, dist))
    return out


def corner_of(row, col, vr, vc, which):
    """the entering (which=+1) / exiting (which=-1) corner of a cell, from geometry alone: among the four
    corners the one with the smallest / largest bearing (counter-clockwise, rows grow downwards) as seen
    from the observer's cell centre.  Exact integer arithmetic on doubled coordinates."""
    cs = [(2 * (row + dr) - 1, 2 * (col + dc) - 1) for dr in (0, 1) for dc in (0, 1)]   # doubled corner coords
    vs = [(x - 2 * vc, -(y - 2 * vr)) for (y, x) in cs]                                   # (dx, dy up)
    best = None
    for i, v in enumerate(vs):
        ok = True
        for j, u in enumerate(vs):
            if i == j:
                continue
            cross = v[0] * u[1] - v[1] * u[0]      # > 0: u is counter-clockwise of v
            if which == 1 and cross < 0:
                ok = False
            if which == -1 and cross > 0:
                ok = False
        if ok:
            best = cs[i]
    return best[0] / 2.0, best[1] / 2.0            # (y, x) of the corner


def corner_elev(a, cy, cx, row, col):
    """mean of the four cells meeting at the corner; the cell's own elevation when one of them is outside
    the raster (or NaN)"""
    h, w = a.shape
    rows = (int(math.floor(cy)), int(math.ceil(cy)))
    cols = (int(math.floor(cx)), int(math.ceil(cx)))
    vals = []
    for r_ in rows:
        for c_ in cols:
            if not (0 <= r_ < h and 0 <= c_ < w) or a[r_, c_] != a[r_, c_]:
                return float(a[row, col])
            vals.append(float(a[r_, c_]))
    return sum(vals) / 4.0


def bearing(y, x, vr, vc):
    t = math.atan2(-(y - vr), x - vc)
    return t + 2 * PI if t < 0 else t


# ---------------------------------------------------------------- L0: the line-of-sight model from geometry alone
# Written from the property statement; uses nothing of xrspatial.  Per cell: the entering / exiting corner is the
# corner of smallest / largest bearing (exact integer cross products on doubled index coordinates, y up); a corner's
# elevation is the mean of the four cells meeting there (the cell's own elevation at the raster border); the gradient of
# a point is atan(height above the observer's eye / horizontal map distance); between corner, centre and corner the
# gradient is linear in the bearing.  A target is visible iff no cell with a smaller squared map distance whose span
# contains the target's bearing has a greater interpolated gradient there than the target's own (with target_elev).
# EVERY cell is evaluated against EVERY other cell (O(n^2)); there is no sweep, no event order and no initial fill.
GEO_TOL = 1e-9      # gradients closer than this are "tied": the verdict then depends on float rounding -> not compared
_GEO_CACHE = {}


class GeoModel:
    """everything that does not depend on the elevations, for one (h, w, vr, vc, ew, ns)"""

    def __init__(self, h, w, vr, vc, ew, ns, pairs=True):
        """`pairs=False`: no n x n tables (large rasters; `visible_big` evaluates the pairs on the fly, compiled)"""
        from fractions import Fraction
        self.h, self.w, self.vr, self.vc, self.ew, self.ns = h, w, vr, vc, ew, ns
        cells = [(r_, c_) for r_ in range(h) for c_ in range(w) if (r_, c_) != (vr, vc)]
        n = len(cells)
        self.cells = cells
        self.n = n
        self.index = {rc: i for i, rc in enumerate(cells)}
        self.rows = np.array([rc[0] for rc in cells], dtype=np.int64)
        self.cols = np.array([rc[1] for rc in cells], dtype=np.int64)
        # doubled coordinates relative to the observer, x to the east, y to the north
        cx = 2 * (self.cols - vc)
        cy = -2 * (self.rows - vr)
        ent = np.zeros((n, 2), dtype=np.int64)      # (x, y) doubled, relative
        ext = np.zeros((n, 2), dtype=np.int64)
        self.ent_yx = np.zeros((n, 2))              # absolute index coordinates (y, x) of the corner
        self.ext_yx = np.zeros((n, 2))
        self.ent_nb = np.full((n, 4), -1, dtype=np.int64)   # flat indices (r*w+c) of the four cells at the corner; -1: border
        self.ext_nb = np.full((n, 4), -1, dtype=np.int64)
        for i, (r_, c_) in enumerate(cells):
            for which, store, yx, nb in ((1, ent, self.ent_yx, self.ent_nb), (-1, ext, self.ext_yx, self.ext_nb)):
                y, x = corner_of(r_, c_, vr, vc, which)
                yx[i] = (y, x)
                store[i] = (int(round(2 * (x - vc))), int(round(-2 * (y - vr))))
                rr = (int(math.floor(y)), int(math.ceil(y)))
                cc = (int(math.floor(x)), int(math.ceil(x)))
                four = [(a_, b_) for a_ in rr for b_ in cc]
                if all(0 <= a_ < h and 0 <= b_ < w for a_, b_ in four):
                    nb[i] = [a_ * w + b_ for a_, b_ in four]
        fe, fn = Fraction(ew), Fraction(ns)
        keys = [(Fraction(int(c_ - vc)) * fe) ** 2 + (Fraction(int(r_ - vr)) * fn) ** 2 for r_, c_ in cells]
        self.keys = np.array([float(k) for k in keys])
        rank = {k: j for j, k in enumerate(sorted(set(keys)))}
        kr = np.array([rank[k] for k in keys], dtype=np.int64)          # exact order of the squared distances
        self.dist_c = np.sqrt(self.keys)
        self.dist_e = np.hypot((self.ent_yx[:, 1] - vc) * ew, (self.ent_yx[:, 0] - vr) * ns)
        self.dist_x = np.hypot((self.ext_yx[:, 1] - vc) * ew, (self.ext_yx[:, 0] - vr) * ns)
        # bearings (index space): the centre's, and the corners' relative to the centre (signed, exact sign)
        self.a1 = np.mod(np.arctan2(cy, cx), 2 * PI)
        self.dlo = np.arctan2(cx * ent[:, 1] - cy * ent[:, 0], cx * ent[:, 0] + cy * ent[:, 1])   # < 0
        self.dhi = np.arctan2(cx * ext[:, 1] - cy * ext[:, 0], cx * ext[:, 0] + cy * ext[:, 1])   # > 0
        assert (self.dlo < 0).all() and (self.dhi > 0).all()
        self.cx, self.cy, self.ent, self.ext, self.kr, self.pairs = cx, cy, ent, ext, kr, pairs
        if not pairs:
            return
        # pair tables, [target, blocker]
        tx, ty = cx[:, None], cy[:, None]
        ce = ent[None, :, 0] * ty - ent[None, :, 1] * tx          # cross(enter_b, t)
        cxx = tx * ext[None, :, 1] - ty * ext[None, :, 0]         # cross(t, exit_b)
        de = ent[None, :, 0] * tx + ent[None, :, 1] * ty
        dx_ = ext[None, :, 0] * tx + ext[None, :, 1] * ty
        nearer = kr[None, :] < kr[:, None]
        self.strict = nearer & (ce > 0) & (cxx > 0)
        self.on_enter = nearer & (ce == 0) & (de > 0)
        self.on_exit = nearer & (cxx == 0) & (dx_ > 0)
        bx, by = cx[None, :], cy[None, :]
        self.D = np.arctan2(bx * ty - by * tx, bx * tx + by * ty)  # signed angle from the blocker's centre to the target's
        self.mask = (self.strict.astype(np.int8) + 2 * self.on_enter.astype(np.int8) + 3 * self.on_exit.astype(np.int8))

    def corner_elevs(self, a):
        """(enter, centre, exit) elevation of every cell of the float64 terrain `a`"""
        flat = a.ravel()
        own = flat[self.rows * self.w + self.cols]

        def mean4(nb):
            ok = nb[:, 0] >= 0
            m = flat[np.where(ok[:, None], nb, 0)].sum(axis=1) / 4.0
            return np.where(ok, m, own)
        return mean4(self.ent_nb), own, mean4(self.ext_nb)

    def nodes(self, a, velev):
        """the status node of every cell from geometry: key, g0 g1 g2, a0 a1 a2 (bearings in [0, 2pi))"""
        e0, e1, e2 = self.corner_elevs(a)
        g0 = np.arctan2(e0 - velev, self.dist_e)
        g1 = np.arctan2(e1 - velev, self.dist_c)
        g2 = np.arctan2(e2 - velev, self.dist_x)
        return e0, e1, e2, g0, g1, g2

    def visible(self, a, velev, vt):
        """per cell: 1 visible, 0 hidden, -1 undetermined (a decisive comparison is tied within GEO_TOL, or hinges
        on a blocker whose span only touches the bearing)"""
        e0, e1, e2, g0, g1, g2 = self.nodes(a, velev)
        gt = np.arctan2(e1 + vt - velev, self.dist_c)
        if not self.pairs:
            return geo_visible_big(self, a, velev, vt), gt
        D = self.D
        with np.errstate(invalid="ignore", divide="ignore"):
            cg = np.where(D < 0, g1[None, :] + (g0 - g1)[None, :] * D / self.dlo[None, :],
                          g1[None, :] + (g2 - g1)[None, :] * D / self.dhi[None, :])
        diff = cg - gt[:, None]
        blocked = (self.strict & (diff > GEO_TOL)).any(axis=1)
        tied = (self.strict & (np.abs(diff) <= GEO_TOL)).any(axis=1)
        touch = (self.on_enter & ((g0[None, :] - gt[:, None]) > -GEO_TOL)).any(axis=1) | \
                (self.on_exit & ((g2[None, :] - gt[:, None]) > -GEO_TOL)).any(axis=1)
        out = np.where(blocked, 0, np.where(tied | touch, -1, 1))
        return out, gt


_GEO_BIG = None


def geo_big():
    """numba-compiled `GeoModel.visible` without the n x n tables: every target against every other cell, the pair
    quantities (exact integer cross products, the signed angle between the two centres) computed on the fly"""
    global _GEO_BIG
    if _GEO_BIG is not None:
        return _GEO_BIG
    import numba as nb
    TOL = GEO_TOL

    @nb.njit
    def kernel(a, rows, cols, ent_nb, ext_nb, dist_e, dist_c, dist_x, dlo, dhi, cx, cy, ent, ext, kr, velev, vt, out):
        n = rows.shape[0]
        w = a.shape[1]
        flat = a.ravel()
        g0 = np.empty(n)
        g1 = np.empty(n)
        g2 = np.empty(n)
        gt = np.empty(n)
        for i in range(n):
            own = flat[rows[i] * w + cols[i]]
            e0 = own
            if ent_nb[i, 0] >= 0:
                e0 = (flat[ent_nb[i, 0]] + flat[ent_nb[i, 1]] + flat[ent_nb[i, 2]] + flat[ent_nb[i, 3]]) / 4.0
            e2 = own
            if ext_nb[i, 0] >= 0:
                e2 = (flat[ext_nb[i, 0]] + flat[ext_nb[i, 1]] + flat[ext_nb[i, 2]] + flat[ext_nb[i, 3]]) / 4.0
            g0[i] = np.arctan2(e0 - velev, dist_e[i])
            g1[i] = np.arctan2(own - velev, dist_c[i])
            g2[i] = np.arctan2(e2 - velev, dist_x[i])
            gt[i] = np.arctan2(own + vt - velev, dist_c[i])
        for t in range(n):
            tx = cx[t]
            ty = cy[t]
            verdict = 1
            for b in range(n):
                if kr[b] >= kr[t]:
                    continue
                ce = ent[b, 0] * ty - ent[b, 1] * tx
                cxx = tx * ext[b, 1] - ty * ext[b, 0]
                if ce > 0 and cxx > 0:
                    d = np.arctan2(float(cx[b] * ty - cy[b] * tx), float(cx[b] * tx + cy[b] * ty))
                    if d < 0:
                        cg = g1[b] + (g0[b] - g1[b]) * d / dlo[b]
                    else:
                        cg = g1[b] + (g2[b] - g1[b]) * d / dhi[b]
                    if cg - gt[t] > TOL:
                        verdict = 0
                        break
                    if cg - gt[t] >= -TOL:
                        verdict = -1
                elif ce == 0 and ent[b, 0] * tx + ent[b, 1] * ty > 0:
                    if g0[b] - gt[t] > -TOL:
                        verdict = -1
                elif cxx == 0 and ext[b, 0] * tx + ext[b, 1] * ty > 0:
                    if g2[b] - gt[t] > -TOL:
                        verdict = -1
            out[t] = verdict

    _GEO_BIG = kernel
    return kernel


def geo_visible_big(g, a, velev, vt):
    out = np.empty(g.n, dtype=np.int64)
    geo_big()(np.ascontiguousarray(a, dtype=np.float64), g.rows, g.cols, g.ent_nb, g.ext_nb, g.dist_e, g.dist_c, g.dist_x,
              g.dlo, g.dhi, g.cx.astype(np.int64), g.cy.astype(np.int64), g.ent, g.ext, g.kr, float(velev), float(vt), out)
    return out


def geo_model(h, w, vr, vc, ew, ns):
    k = (h, w, vr, vc, ew, ns)
    g = _GEO_CACHE.get(k)
    if g is None:
        if len(_GEO_CACHE) > 64:
            _GEO_CACHE.clear()
        g = _GEO_CACHE[k] = GeoModel(*k, pairs=h * w <= BIG)
    return g


BIG = 900        # cells; above, the n x n pair tables are not built (`geo_visible_big` evaluates the pairs on the fly)


def geo_reference(c):
    """{(row, col): True | False | None} from the terrain geometry alone (None = undetermined, not compared)"""
    a, xs, ys, ew, ns, velev, vt = terrain_setup(c)
    a = a.astype(np.float64)
    g = geo_model(a.shape[0], a.shape[1], c["vr"], c["vc"], ew, ns)
    v, _ = g.visible(a, velev, vt)
    return {rc: (None if v[i] < 0 else bool(v[i])) for i, rc in enumerate(g.cells)}


def oracle_nodes(c, ops):
    """every status node the sweep inserts -- the initial east row and one per entering event -- against the node
    of that cell computed from geometry alone.  Returns None or a description."""
    a, xs, ys, ew, ns, velev, vt = terrain_setup(c)
    a = a.astype(np.float64)
    vr, vc = c["vr"], c["vc"]
    g = geo_model(a.shape[0], a.shape[1], vr, vc, ew, ns)
    e0, e1, e2, g0, g1, g2 = g.nodes(a, velev)
    seen_initial = set()
    for op in ops:
        if op[0] != "ins":
            continue
        node, row, col, initial = op[1], op[2], op[3], op[4]
        i = g.index.get((row, col))
        if i is None:
            return f"a status node is inserted for the observer's own cell {(row, col)}"
        if initial:
            seen_initial.add((row, col))
        what = "initial status node" if initial else "status node"
        if abs(node[0] - g.keys[i]) > 1e-9 * max(1.0, g.keys[i]):
            return f"{what} of cell {(row, col)}: key {node[0]}, squared distance is {g.keys[i]}"
        for j, want in enumerate((g0[i], g1[i], g2[i])):
            if abs(node[1 + j] - want) > 1e-9:
                return (f"{what} of cell {(row, col)}: gradient {j} is {node[1 + j]}, geometry (corner elevations "
                        f"{(float(e0[i]), float(e1[i]), float(e2[i]))}) gives {float(want)}")
        for j, want in enumerate((g.a1[i] + g.dlo[i], g.a1[i], g.a1[i] + g.dhi[i])):
            dlt = (node[4 + j] - want) % (2 * PI)
            if min(dlt, 2 * PI - dlt) > 1e-9:
                return f"{what} of cell {(row, col)}: bearing {j} is {node[4 + j]}, geometry gives {float(want)}"
        if not (node[4] < node[5] < node[6]):
            return f"{what} of cell {(row, col)}: bearings not increasing {tuple(node[4:7])}"
    want_initial = {(vr, j) for j in range(vc + 1, a.shape[1])}
    if seen_initial != want_initial:
        return (f"initially active cells {sorted(seen_initial)}; the cells whose span contains bearing 0 are "
                f"{sorted(want_initial)}")
    return None


def oracle_events(c, ops, ev):
    """L0, independent of the code: every event's corner, bearing and corner elevation, every status node's
    key and gradients, recomputed from the geometry of the statement"""
    a, xs, ys, ew, ns, velev, vt = terrain_setup(c)
    a = a.astype(np.float64)
    vr, vc = c["vr"], c["vc"]
    if len(ev) != 3 * (a.size - 1):
        return f"{len(ev)} events for {a.size} cells"
    for e in ev:
        row, col, typ = int(e[0]), int(e[1]), int(e[2])
        if typ == 0:
            y, x = float(row), float(col)
        else:
            y, x = corner_of(row, col, vr, vc, typ)
        want = bearing(y, x, vr, vc)
        if abs(want - e[3]) > 1e-9 and abs(abs(want - e[3]) - 2 * PI) > 1e-9:
            return f"event {(row, col, typ)}: bearing {e[3]}, geometry gives {want} (corner {(y, x)})"
        exp = (corner_elev(a, *corner_of(row, col, vr, vc, 1), row, col), float(a[row, col]),
               corner_elev(a, *corner_of(row, col, vr, vc, -1), row, col))
        for i in range(3):
            if abs(exp[i] - e[4 + i]) > 1e-9 * max(1.0, abs(exp[i])):
                return f"event {(row, col, typ)}: elevations {tuple(e[4:7])}, the 4-cell corner means give {exp}"
    # status nodes: key = squared distance in map units, gradients = atan(height difference / distance)
    cells = {}
    for e in ev:
        cells[(int(e[0]), int(e[1]))] = e
    for op in ops:
        if op[0] != "ins":
            continue
        n = op[1]
        # identify the cell by its key and centre bearing is fragile; recompute for every cell and match
    for (row, col), e in cells.items():
        key = ((col - vc) * ew) ** 2 + ((row - vr) * ns) ** 2
        node = status_node(row, col, e[4], e[5], e[6], bearing(*corner_of(row, col, vr, vc, 1), vr, vc), vr, vc, velev,
                           ew, ns, False)
        if abs(node[0] - key) > 1e-9 * max(1.0, key):
            return f"cell {(row, col)}: key {node[0]}, squared distance is {key}"
        for i, (y, x) in enumerate([corner_of(row, col, vr, vc, 1), (float(row), float(col)), corner_of(row, col, vr, vc, -1)]):
            d = math.hypot((x - vc) * ew, (y - vr) * ns)
            g = math.atan2(e[4 + i] - velev, d)
            if abs(g - node[1 + i]) > 1e-9:
                return f"cell {(row, col)}: gradient {i} is {node[1 + i]}, atan(dz/dist) gives {g}"
    return None


def oracle_terrain(c):
    """returns (None | description of a PROPERTY failure of the public function, details).
    details = (ops, ev, data, ref, pub, notes): `notes` lists internal quantities of the real code (events, status
    nodes) that differ from the geometry of the statement -- correspondence disagreements, not property failures."""
    a, xs, ys, ew, ns, velev, vt = terrain_setup(c)
    ops, ev, data = sweep_ops(a.astype(np.float64), c["vr"], c["vc"], velev, vt, ew, ns)
    notes = []
    bad = oracle_events(c, ops, ev)
    if bad:
        notes.append("event generation: " + bad)
    bad = oracle_nodes(c, ops)
    if bad:
        notes.append("status nodes: " + bad)
    pub, _ = public_viewshed(c)
    # (1) the public function against the O(n^2) evaluation of the line-of-sight model on the terrain geometry
    geo = geo_reference(c)
    if pub.shape != a.shape:
        return f"output shape {pub.shape}", None
    if float(pub[c["vr"], c["vc"]]) != 180.0:
        return f"the observer's cell holds {float(pub[c['vr'], c['vc']])}, not 180", None
    for (i, j), vis in geo.items():
        p = float(pub[i, j])
        if vis is not None and (p != -1.0) != vis:
            return (f"cell ({i},{j}) is {'invisible' if p == -1.0 else 'visible'} in viewshed() but "
                    f"{'visible' if vis else 'invisible'} in the line-of-sight model evaluated on the terrain geometry "
                    f"(every cell against every nearer cell spanning its bearing)"), None
    # (2) ... and, bit-exact also where gradients tie, against the O(n^2) list evaluation on the nodes the real helpers built
    ref = reference_visible(ops)
    for (i, j), vis in ref.items():
        if geo[(i, j)] is None:
            geo[(i, j)] = vis
    exp = expected_output(c, geo)
    for i in range(exp.shape[0]):
        for j in range(exp.shape[1]):
            p, e = float(pub[i, j]), float(exp[i, j])
            if (p == -1.0) != (e == -1.0):
                if notes:
                    # the real helpers' nodes differ from geometry: this is a disagreement of the tie, the verdict on the
                    # tied cell is not decidable from the statement
                    notes.append(f"cell ({i},{j}): viewshed() and the list evaluation on the real nodes differ")
                    continue
                return (f"cell ({i},{j}) is {'invisible' if p == -1.0 else 'visible'} in viewshed() but "
                        f"{'invisible' if e == -1.0 else 'visible'} in the line-of-sight model"), None
            if abs(p - e) > 1e-9 * 180:
                return f"cell ({i},{j}) holds {p}, the output rule gives {e}", None
            if p != -1.0 and not (0.0 <= p <= 180.0):
                return f"cell ({i},{j}) holds {p} outside [0,180]", None
    return None, (ops, ev, data, ref, pub, notes)


# ---------------------------------------------------------------- the wrapper seam: what `_viewshed_cpu` feeds the kernels
def record_wrapper(c, x=None, y=None):
    """the public function with the two kernels it calls -- module globals of viewshed.py -- wrapped (no source hook):
    returns (output array, what `_init_event_list` and `_viewshed_cpu_sweep` were called with, the DataArray)"""
    import inspect
    import xarray as xr
    v = V()
    a, xs, ys, ew, ns, velev, vt = terrain_setup(c)
    da = xr.DataArray(a.copy(), dims=["y", "x"], coords={"y": ys, "x": xs}, attrs=res_attrs(c))
    if x is None:
        x, y = observer_xy(c, xs, ys)
    rec = {}
    o_init, o_sweep = v._init_event_list, v._viewshed_cpu_sweep
    sig_i, sig_s = inspect.signature(o_init.py_func), inspect.signature(o_sweep.py_func)

    def w_init(*ar, **kw):
        b = sig_i.bind(*ar, **kw).arguments
        rec["init"] = dict(raster_dtype=str(b["raster"].dtype), raster=np.array(b["raster"]), vp_row=int(b["vp_row"]),
                           vp_col=int(b["vp_col"]), event_list_shape=tuple(b["event_list"].shape),
                           event_list_zero=not b["event_list"].any(), data_shape=tuple(b["data"].shape),
                           data_zero=not b["data"].any(), grid_shape=tuple(b["visibility_grid"].shape),
                           grid_filled=bool((b["visibility_grid"] == -1.0).all()))
        return o_init(*ar, **kw)

    def w_sweep(*ar, **kw):
        b = sig_s.bind(*ar, **kw).arguments
        rec["sweep"] = dict(raster_dtype=str(b["raster"].dtype), vr=int(b["vp_row"]), vc=int(b["vp_col"]),
                            velev=float(b["vp_elev"]), vt=float(b["vp_target"]), ew=float(b["ew_res"]), ns=float(b["ns_res"]),
                            rcts=np.array(b["event_rcts"]), aes=np.array(b["event_aes"]), data=np.array(b["data"]),
                            rcts_dtype=str(b["event_rcts"].dtype), aes_dtype=str(b["event_aes"].dtype))
        return o_sweep(*ar, **kw)
    v._init_event_list, v._viewshed_cpu_sweep = w_init, w_sweep
    try:
        out = v.viewshed(da, x=x, y=y, observer_elev=c["oe"], target_elev=c["te"])
    finally:
        v._init_event_list, v._viewshed_cpu_sweep = o_init, o_sweep
    return np.asarray(out.values), rec, da


def wrap_request(c, x, y):
    from fractions import Fraction
    a, xs, ys, ew, ns, velev, vt = terrain_setup(c)
    F = lambda q: tok(Fraction(float(q)))
    return (f"vs_wrap grid={grid_tok(a.astype(np.float64))} xs={','.join(F(t) for t in xs)} ys={','.join(F(t) for t in ys)} "
            f"x={F(x)} y={F(y)} oe={F(c['oe'])} te={F(c['te'])}")


def compare_wrapper(c, rec, rep, rep_ev):
    """what the real wrapper handed to the kernels against Model/ViewshedWrapper.lean (`vs_wrap`: observer cell, cell sizes,
    eye elevation, target offset -- exact rationals) and, for the event arrays it sorted and split itself, against
    Model/ViewshedEvents.lean at the model's observer cell (`vs_events`)"""
    from fractions import Fraction
    out = []
    if "sweep" not in rec or "init" not in rec:
        return ["the wrapper did not call `_init_event_list` and `_viewshed_cpu_sweep`"]
    sw, ini = rec["sweep"], rec["init"]
    if rep.startswith(("err", "bad")):
        return [f"model: {rep[:120]}; real wrapper passes observer {(sw['vr'], sw['vc'])}, cell sizes {(sw['ew'], sw['ns'])}"]
    f = dict(p.split("=", 1) for p in rep.split(" ") if "=" in p)
    for name, real, model in (("observer row", sw["vr"], int(f["vr"])), ("observer column", sw["vc"], int(f["vc"])),
                              ("ew_res", Fraction(sw["ew"]), untok_exact(f["ew"])), ("ns_res", Fraction(sw["ns"]), untok_exact(f["ns"])),
                              ("viewpoint elevation", Fraction(sw["velev"]), untok_exact(f["velev"])),
                              ("viewpoint target", Fraction(sw["vt"]), untok_exact(f["vt"]))):
        if real != model:
            out.append(f"{name}: the wrapper passes {float(real) if not isinstance(real, int) else real}, model {float(model) if not isinstance(model, int) else model}")
    if (ini["vp_row"], ini["vp_col"]) != (sw["vr"], sw["vc"]):
        out.append(f"`_init_event_list` gets observer {(ini['vp_row'], ini['vp_col'])}, the sweep {(sw['vr'], sw['vc'])}")
    h, w = len(c["a"]), len(c["a"][0])
    want = dict(raster_dtype="float64", event_list_shape=(3 * (h * w - 1), 7), event_list_zero=True, data_shape=(3, w),
                data_zero=True, grid_shape=(h, w), grid_filled=True)
    for k, v_ in want.items():
        if ini[k] != v_:
            out.append(f"`_init_event_list` argument property {k}: {ini[k]}, expected {v_}")
    a64 = np.array(c["a"], dtype=np.float64).astype(c["dtype"]).astype(np.float64)
    if not np.array_equal(ini["raster"], a64):
        out.append("`_init_event_list` does not get the terrain cast to float64")
    if (sw["raster_dtype"], sw["rcts_dtype"], sw["aes_dtype"]) != ("float64", "int64", "float64"):
        out.append(f"dtypes passed to the sweep (raster, event_rcts, event_aes): {(sw['raster_dtype'], sw['rcts_dtype'], sw['aes_dtype'])}")
    if out or rep_ev is None:
        return out
    if rep_ev.startswith(("err", "bad")):
        return ["driver (vs_events): " + rep_ev[:200]]
    g = dict(p.split("=", 1) for p in rep_ev.split(" ") if "=" in p)
    mev = [t.split(":") for t in g.get("ev", "").split(";") if t]
    if len(mev) != len(sw["rcts"]) or len(mev) != len(sw["aes"]):
        return [f"{len(sw['rcts'])} events passed to the sweep, {len(mev)} model events"]
    for k, m in enumerate(mev):
        real = tuple(int(t) for t in sw["rcts"][k])
        if real != tuple(int(t) for t in m[:3]):
            out.append(f"sorted position {k}: the wrapper passes event {real}, model {tuple(int(t) for t in m[:3])}")
            break
        if tuple(Fraction(float(t)) for t in sw["aes"][k][1:4]) != tuple(untok_exact(t) for t in m[5:8]):
            out.append(f"event {real}: elevations passed {tuple(float(t) for t in sw['aes'][k][1:4])} differ from the model's")
            break
    if k_nondecreasing(sw["aes"][:, 0]) is False:
        out.append("the bearings of the events passed to the sweep are not sorted")
    mdata = [tuple(untok_exact(t) for t in d.split(":")) for d in g.get("data", "").split(";") if d]
    rdata = [tuple(Fraction(float(sw["data"][k][j])) for k in range(3)) for j in range(sw["data"].shape[1])]
    if mdata != rdata:
        out.append("the observer-row buffer `data` passed to the sweep differs from the model's")
    return out


def k_nondecreasing(v):
    return bool(np.all(v[1:] >= v[:-1]))


def oracle_public(c, pub):
    """the public function's output against the line-of-sight model evaluated on the terrain geometry alone -- cell sizes
    from the COORDINATES, observer = the cell whose centre is nearest to the given position (checked here, not taken from the
    generator) -- and the output rule.  Light version of `oracle_terrain` (no event / node comparison, no list reference:
    a cell whose verdict hinges on a tie is only checked for the output rule when reported visible)."""
    a, xs, ys, ew, ns, velev, vt = terrain_setup(c)
    x, y = observer_xy(c, xs, ys)
    vr, vc = c["vr"], c["vc"]
    dy_, dx_ = np.abs(ys - y), np.abs(xs - x)
    if int(np.argmin(dy_)) != vr or int(np.argmin(dx_)) != vc or (dy_ == dy_[vr]).sum() != 1 or (dx_ == dx_[vc]).sum() != 1:
        return None       # the nearest centre is not unique / not the intended cell: outside this oracle
    if pub.shape != a.shape:
        return f"output shape {pub.shape}"
    if float(pub[vr, vc]) != 180.0:
        where = [tuple(int(t) for t in q) for q in np.argwhere(pub == 180.0)]
        return (f"the observer's cell ({vr},{vc}) -- the cell whose centre is nearest to the observer (x={x}, y={y}) -- holds "
                f"{float(pub[vr, vc])}, not 180 (180 is at {where})")
    a64 = a.astype(np.float64)
    geo = geo_reference(c)
    for (i, j), vis in geo.items():
        p = float(pub[i, j])
        if vis is not None and (p != -1.0) != vis:
            return (f"cell ({i},{j}) is {'invisible' if p == -1.0 else 'visible'} in viewshed() but "
                    f"{'visible' if vis else 'invisible'} in the line-of-sight model evaluated on the terrain geometry "
                    f"(cell sizes = coordinate spacing {(ew, ns)})")
        if p != -1.0:
            dist = math.hypot((j - vc) * ew, (i - vr) * ns)
            e = 90.0 + math.degrees(math.atan2((a64[i, j] + vt) - velev, dist))
            if abs(p - e) > 1e-9 * 180:
                return (f"cell ({i},{j}) holds {p}, the output rule gives {e} (horizontal distance {dist} from the coordinate "
                        f"spacing {(ew, ns)}, attrs {res_attrs(c)})")
            if not (0.0 <= p <= 180.0):
                return f"cell ({i},{j}) holds {p} outside [0,180]"
    return None


def gen_long_thin(rng):
    """a long thin raster (3..5 rows, 1200..1700 columns), flat but for a few low bumps 500..1400 cells from the observer,
    who stands in a corner: there the bearings of distinct events (the centre of a far cell, a corner of a nearer one) come
    within a microradian of each other without being equal, and the model is decided by their exact order.  The bumps
    GRAZE: a bump `dr` rows off the observer's row has the height that puts its entering / exiting corner (a quarter of
    it: the mean of the four cells meeting there) on the sight line to the cells `k` times as far whose bearing passes
    closest to that corner -- so that the bump, and nothing else, decides whether those cells are seen."""
    h, w = rng.choice([3, 4, 4, 5]), rng.randrange(1200, 1701)
    west = rng.random() < 0.65
    vr = rng.choice([0, h - 1])
    vc = rng.randrange(0, 3) if west else w - 1 - rng.randrange(0, 3)
    base = float(rng.choice([0, 0, 1]))
    a = [[base] * w for _ in range(h)]
    oe = rng.choice([1, 1, 2, 0.5])
    for _ in range(rng.randrange(5, 9)):
        dr = min(rng.choice([1, 1, 2, 2, 3, 4]), h - 1)
        side = "enter" if (rng.random() < 0.15 and dr + 1 <= h - 1) else "exit"
        k = dr / (dr - 0.5) if side == "exit" else (dr + 1) / (dr + 0.5)
        d = int(rng.uniform(0.85, 0.99) * (w - 8) / k) - rng.randrange(0, 40)
        row = vr + dr if vr == 0 else vr - dr
        col = vc + d if west else vc - d
        a[row][col] = base + 4.0 * oe * (1.0 - 1.0 / k)
    c = dict(kind="long-thin", dtype=rng.choice(["float64", "float64", "float32"]), a=a, vr=vr, vc=vc, oe=oe,
             te=0, scale=0)
    c.update(gen_coords(rng))
    return c


def long_thin(r, n):
    for s_ in range(n):
        c = gen_long_thin(r.rng)
        h, w = len(c["a"]), len(c["a"][0])
        r.case(case_key(c), desc=dict(c, a=f"{h}x{w}, flat + far bumps") if s_ == 0 else None, nontrivial=True,
               tags=["terrain:long-thin", "dtype:" + c["dtype"], "size:>700-long"] + coord_tags(c))
        try:
            pub, _ = public_viewshed(c)
        except Exception as ex:
            r.fail("raises", f"viewshed raised {type(ex).__name__}: {ex}", c)
            continue
        why = oracle_public(c, pub)
        if why:
            r.fail("visibility", why, c)
        r.tag("long-thin:cells-judged-by-the-O(n^2)-reference", h * w - 1)


def gen_wrapper_case(rng, maxs):
    c = gen_terrain(rng, maxs)
    c["kind"] = "wrap-" + c["kind"]
    return c


def wrapper_seam(r, n, maxs):
    """many small terrains x coordinate / attrs kinds through the public function: (1) the light geometric oracle;
    (2) what the wrapper passes to the kernels against Model/ViewshedWrapper.lean + Model/ViewshedEvents.lean, exactly;
    (3) observers exactly half way between two centres and outside the raster: model vs real only (the tie rule, ValueError);
    (4) the DataArray afterwards: cast to float64 in place (the documented exception), coordinates and attrs untouched"""
    reqs, meta = [], []
    for s_ in range(n):
        c = gen_wrapper_case(r.rng, maxs)
        a, xs, ys, ew, ns, velev, vt = terrain_setup(c)
        h, w = a.shape
        mode = r.rng.choice(["in", "in", "in", "in", "in", "in", "tie", "outside"])
        x, y = observer_xy(c, xs, ys)
        if mode == "tie":
            # exactly half way between two centres in one or both axes
            if r.rng.random() < 0.7 and c["vc"] + 1 < w:
                x = float(xs[c["vc"]] + 0.5 * c["dx"])
            if r.rng.random() < 0.7 and c["vr"] + 1 < h:
                y = float(ys[c["vr"]] + 0.5 * c["dy"])
        elif mode == "outside":
            if r.rng.random() < 0.5:
                x = float(r.rng.choice([xs.min() - abs(c["dx"]) * r.rng.choice([0.25, 1, 3]), xs.max() + abs(c["dx"]) * r.rng.choice([0.25, 1])]))
            else:
                y = float(r.rng.choice([ys.min() - abs(c["dy"]) * r.rng.choice([0.25, 1]), ys.max() + abs(c["dy"]) * r.rng.choice([0.25, 1, 3])]))
        key = dict(c, mode=mode, x=x, y=y)
        r.case(case_key(key), desc=dict(key, a="..") if s_ == 0 else None, nontrivial=True,
               tags=["wrapper:" + mode, "dtype:" + c["dtype"], f"oe:{c['oe']}", f"te:{c['te']}",
                     "cells:square" if abs(c["dx"]) == abs(c["dy"]) else "cells:non-square"] + coord_tags(c))
        try:
            pub, rec, da = record_wrapper(c, x, y)
            err = None
        except Exception as ex:
            pub, rec, da, err = None, {}, None, type(ex).__name__
        reqs.append(wrap_request(c, x, y))
        meta.append((c, mode, x, y, pub, rec, err))
        if err is not None and mode != "outside":
            r.fail("raises", f"viewshed raised {err} for an observer inside the raster", c)
            continue
        if err is None:
            # (4) the input object afterwards
            if not (np.array_equal(da["x"].values, xs) and np.array_equal(da["y"].values, ys)) or set(da.attrs) != set(res_attrs(c)):
                r.disagree("wrapper-glue", dict(stream="wrapper", terrain=c), "coordinates / attrs of the input DataArray changed", "untouched")
            if str(da.dtype) != "float64" or not np.array_equal(da.values, a.astype(np.float64)):
                r.disagree("wrapper-glue", dict(stream="wrapper", terrain=c), f"input DataArray afterwards: dtype {da.dtype}",
                           "the same values cast to float64 (in place, the documented exception)")
        if mode == "in":
            why = oracle_public(c, pub)
            if why:
                r.fail("visibility", why, c)
    replies = Driver().ask(reqs)
    # second round: the model's events at the model's observer cell
    ev_reqs, ev_idx = [], []
    for k, ((c, mode, x, y, pub, rec, err), rep) in enumerate(zip(meta, replies)):
        if err is None and not rep.startswith(("err", "bad")):
            f = dict(p.split("=", 1) for p in rep.split(" ") if "=" in p)
            a, xs, ys, ew, ns, velev, vt = terrain_setup(c)
            ev_reqs.append(f"vs_events grid={grid_tok(a.astype(np.float64))} vr={f['vr']} vc={f['vc']} ew={f['ew']} ns={f['ns']}")
            ev_idx.append(k)
    ev_rep = dict(zip(ev_idx, Driver().ask(ev_reqs))) if ev_reqs else {}
    for k, ((c, mode, x, y, pub, rec, err), rep) in enumerate(zip(meta, replies)):
        case = dict(stream="wrapper", terrain=c, mode=mode, x=x, y=y)
        if err is not None:
            if rep != "err:" + err:
                r.disagree("wrapper-glue", case, f"viewshed raised {err}", f"model: {rep[:100]}")
            r.tag("wrapper:rejected-" + err)
            continue
        if rep == "err:ValueError":
            r.disagree("wrapper-glue", case, "viewshed returned a result", "model: err:ValueError")
            continue
        for d in compare_wrapper(c, rec, rep, ev_rep.get(k))[:3]:
            r.disagree("wrapper-glue", case, "real " + d, "Model/ViewshedWrapper.lean (exact)")
        r.tag("wrapper:kernel-arguments-compared-exactly")


# ---------------------------------------------------------------- fast search (numba)
_FAST = None


def fast():
    """numba-compiled: random terrains of one geometry, real tree sweep vs list reference"""
    global _FAST
    if _FAST is not None:
        return _FAST
    import numba as nb
    v = V()
    S = v.SMALLEST_GRAD
    cep, cang, ceg, cdg = v._calc_event_pos, v._calculate_angle, v._calc_event_grad, v._calc_dist_n_grad
    iel, sweep = v._init_event_list, v._viewshed_cpu_sweep

    @nb.njit
    def mknode(sn, row, col, e0, e1, e2, ang0, initial, vr, vc, velev, ew, ns):
        ay, ax = cep(1, row, col, vr, vc)
        if initial:
            sn[4] = cang(ax, ay, vc, vr)
        else:
            sn[4] = ang0
        sn[1] = ceg(ay, ax, e0, vr, vc, velev, ew, ns)
        ay, ax = cep(0, row, col, vr, vc)
        sn[5] = cang(ax, ay, vc, vr)
        sn[0], sn[2] = cdg(row, col, e1, vr, vc, velev, ew, ns)
        ay, ax = cep(-1, row, col, vr, vc)
        sn[6] = cang(ax, ay, vc, vr)
        sn[3] = ceg(ay, ax, e2, vr, vc, velev, ew, ns)
        if initial:
            if sn[4] > sn[5]:
                sn[4] -= 2 * PI
        else:
            if ang0 < PI:
                if sn[4] > sn[5]:
                    sn[4] -= 2 * PI
            else:
                if sn[4] > sn[5]:
                    sn[5] += 2 * PI
                    sn[6] += 2 * PI

    @nb.njit
    def itp(n, ang):
        if ang < n[5]:
            return n[2] + (n[1] - n[2]) * (n[5] - ang) / (n[5] - n[4])
        if ang > n[5]:
            return n[2] + (n[3] - n[2]) * (ang - n[5]) / (n[6] - n[5])
        return n[2]

    @nb.njit
    def one(raster, vr, vc, velev, vt, ew, ns, perm):
        """-1 if the real sweep and the list reference agree, else the flat index of a differing cell"""
        n_rows, n_cols = raster.shape
        data = np.zeros((3, n_cols))
        vis = np.full(raster.shape, -1.0)
        nev = 3 * (n_rows * n_cols - 1)
        ev0 = np.zeros((nev, 7))
        iel(ev0, raster, vr, vc, data, vis)
        ev = np.empty_like(ev0)
        for q in range(nev):
            ev[q] = ev0[perm[q]]
        act = np.zeros((n_rows * n_cols + n_cols + 2, 7))
        nact = 0
        sn = np.zeros(7)
        visL = np.zeros(raster.shape, np.int8)
        for i in range(vc + 1, n_cols):
            mknode(sn, vr, i, data[0][i], data[1][i], data[2][i], 0.0, True, vr, vc, velev, ew, ns)
            act[nact] = sn
            nact += 1
        for q in range(nev):
            e = ev[q]
            row = int(e[0])
            col = int(e[1])
            typ = int(e[2])
            key, g1 = cdg(row, col, e[5] + vt, vr, vc, velev, ew, ns)
            if typ == 1:
                mknode(sn, row, col, e[4], e[5], e[6], e[3], False, vr, vc, velev, ew, ns)
                act[nact] = sn
                nact += 1
            elif typ == -1:
                for j in range(nact):
                    if act[j][0] == key:
                        act[j] = act[nact - 1]
                        nact -= 1
                        break
            else:
                mm = S
                for j in range(nact):
                    if act[j][0] < key and act[j][4] <= e[3] and e[3] <= act[j][6]:
                        c = itp(act[j], e[3])
                        if c > mm:
                            mm = c
                if mm <= g1:
                    visL[row, col] = 1
        rcts = np.empty((nev, 3), np.int64)
        aes = np.empty((nev, 4))
        for q in range(nev):
            rcts[q, 0] = int(ev[q, 0])
            rcts[q, 1] = int(ev[q, 1])
            rcts[q, 2] = int(ev[q, 2])
            aes[q] = ev[q, 3:]
        vis2 = np.full(raster.shape, -1.0)
        vis2[vr, vc] = 180.0
        out = sweep(raster, vr, vc, velev, vt, ew, ns, rcts, aes, data, vis2)
        for r_ in range(n_rows):
            for c_ in range(n_cols):
                if r_ == vr and c_ == vc:
                    continue
                if (out[r_, c_] != -1.0) != (visL[r_, c_] == 1):
                    return r_ * n_cols + c_
        return -1

    @nb.njit
    def many(h, w, vr, vc, oe, vt, ew, ns, perm, T, seed, mode):
        np.random.seed(seed)
        for t in range(T):
            base = float(np.random.randint(3))
            a = np.full((h, w), base)
            if mode == 0:
                for _ in range(1 + np.random.randint(max(2, h * w // 3))):
                    a[np.random.randint(h), np.random.randint(w)] = base + float(1 + np.random.randint(3))
            elif mode == 1:
                for _ in range(1 + np.random.randint(max(2, h * w // 2))):
                    a[np.random.randint(h), np.random.randint(w)] = base + float(np.random.randint(-2, 5)) / 2.0
            elif mode == 2:
                k = 2 + np.random.randint(3)
                for r_ in range(h):
                    for c_ in range(w):
                        a[r_, c_] = float(np.random.randint(k))
            else:
                for _ in range(1 + np.random.randint(4)):
                    r0 = np.random.randint(h)
                    c0 = np.random.randint(w)
                    hv = base + float(1 + np.random.randint(3))
                    for r_ in range(r0, min(h, r0 + 1 + np.random.randint(3))):
                        for c_ in range(c0, min(w, c0 + 1 + np.random.randint(3))):
                            a[r_, c_] = hv
            velev = a[vr, vc] + oe
            bad = one(a, vr, vc, velev, vt, ew, ns, perm)
            if bad >= 0:
                return bad, a
        return -1, np.zeros((h, w))

    _FAST = many
    return many


_FAST_GEO = None


def fast_geo():
    """numba-compiled: random terrains of one geometry; the REAL pipeline (`_init_event_list`, the event order, `data`,
    `_viewshed_cpu_sweep`, as `_viewshed_cpu` chains them) against the O(n^2) evaluation of the line-of-sight model on the
    tables of `GeoModel` (nothing of the real code enters the reference)"""
    global _FAST_GEO
    if _FAST_GEO is not None:
        return _FAST_GEO
    import numba as nb
    v = V()
    iel, sweep = v._init_event_list, v._viewshed_cpu_sweep
    TOL = GEO_TOL

    @nb.njit
    def geo_visible(a, rows, cols, ent_nb, ext_nb, dist_e, dist_c, dist_x, dlo, dhi, D, mask, velev, vt, out):
        n = rows.shape[0]
        w = a.shape[1]
        flat = a.ravel()
        g0 = np.empty(n)
        g1 = np.empty(n)
        g2 = np.empty(n)
        gt = np.empty(n)
        for i in range(n):
            own = flat[rows[i] * w + cols[i]]
            e0 = own
            if ent_nb[i, 0] >= 0:
                e0 = (flat[ent_nb[i, 0]] + flat[ent_nb[i, 1]] + flat[ent_nb[i, 2]] + flat[ent_nb[i, 3]]) / 4.0
            e2 = own
            if ext_nb[i, 0] >= 0:
                e2 = (flat[ext_nb[i, 0]] + flat[ext_nb[i, 1]] + flat[ext_nb[i, 2]] + flat[ext_nb[i, 3]]) / 4.0
            g0[i] = np.arctan2(e0 - velev, dist_e[i])
            g1[i] = np.arctan2(own - velev, dist_c[i])
            g2[i] = np.arctan2(e2 - velev, dist_x[i])
            gt[i] = np.arctan2(own + vt - velev, dist_c[i])
        for t in range(n):
            verdict = 1
            for b in range(n):
                m = mask[t, b]
                if m == 0:
                    continue
                if m == 1:
                    d = D[t, b]
                    if d < 0:
                        cg = g1[b] + (g0[b] - g1[b]) * d / dlo[b]
                    else:
                        cg = g1[b] + (g2[b] - g1[b]) * d / dhi[b]
                    if cg - gt[t] > TOL:
                        verdict = 0
                        break
                    if cg - gt[t] >= -TOL:
                        verdict = -1
                elif m == 2:
                    if g0[b] - gt[t] > -TOL:
                        verdict = -1
                else:
                    if g2[b] - gt[t] > -TOL:
                        verdict = -1
            out[t] = verdict

    @nb.njit
    def one(raster, vr, vc, velev, vt, ew, ns, perm, rows, cols, ent_nb, ext_nb, dist_e, dist_c, dist_x, dlo, dhi, D, mask):
        n_rows, n_cols = raster.shape
        data = np.zeros((3, n_cols))
        vis = np.full(raster.shape, -1.0)
        nev = 3 * (n_rows * n_cols - 1)
        ev0 = np.zeros((nev, 7))
        iel(ev0, raster, vr, vc, data, vis)
        rcts = np.empty((nev, 3), np.int64)
        aes = np.empty((nev, 4))
        for q in range(nev):
            e = ev0[perm[q]]
            rcts[q, 0] = int(e[0])
            rcts[q, 1] = int(e[1])
            rcts[q, 2] = int(e[2])
            aes[q] = e[3:]
        res = sweep(raster, vr, vc, velev, vt, ew, ns, rcts, aes, data, vis)
        verdict = np.empty(rows.shape[0], np.int64)
        geo_visible(raster, rows, cols, ent_nb, ext_nb, dist_e, dist_c, dist_x, dlo, dhi, D, mask, velev, vt, verdict)
        for i in range(rows.shape[0]):
            if verdict[i] >= 0 and (res[rows[i], cols[i]] != -1.0) != (verdict[i] == 1):
                return rows[i] * n_cols + cols[i]
        return -1

    @nb.njit
    def many(h, w, vr, vc, oe, vt, ew, ns, perm, T, seed, mode, rows, cols, ent_nb, ext_nb, dist_e, dist_c, dist_x, dlo, dhi,
             D, mask):
        np.random.seed(seed)
        for t in range(T):
            base = float(np.random.randint(3))
            a = np.full((h, w), base)
            if mode == 0:
                for _ in range(1 + np.random.randint(max(2, h * w // 3))):
                    a[np.random.randint(h), np.random.randint(w)] = base + float(1 + np.random.randint(3))
            elif mode == 1:
                for _ in range(1 + np.random.randint(max(2, h * w // 2))):
                    a[np.random.randint(h), np.random.randint(w)] = base + float(np.random.randint(-2, 5)) / 2.0
            elif mode == 2:
                k = 2 + np.random.randint(3)
                for r_ in range(h):
                    for c_ in range(w):
                        a[r_, c_] = float(np.random.randint(k))
            elif mode == 3:
                for r_ in range(h):
                    for c_ in range(w):
                        a[r_, c_] = float(np.random.randint(64)) / 8.0
            else:
                # relief next to the observer's row / column
                for _ in range(1 + np.random.randint(4)):
                    if np.random.randint(2) == 0:
                        r_ = vr + 2 * np.random.randint(2) - 1
                        c_ = np.random.randint(w)
                    else:
                        c_ = vc + 2 * np.random.randint(2) - 1
                        r_ = np.random.randint(h)
                    if 0 <= r_ < h and 0 <= c_ < w:
                        a[r_, c_] = base + float(2 + np.random.randint(12))
            velev = a[vr, vc] + oe
            bad = one(a, vr, vc, velev, vt, ew, ns, perm, rows, cols, ent_nb, ext_nb, dist_e, dist_c, dist_x, dlo, dhi, D, mask)
            if bad >= 0:
                return bad, a
        return -1, np.zeros((h, w))

    _FAST_GEO = many
    return many


def fast_geo_search(r, budget_s, maxs, per=100):
    """random geometries x random terrains, real pipeline vs the geometric reference; a differing cell is confirmed on
    the public function"""
    many = fast_geo()
    t0 = time.time()
    n = 0
    while time.time() - t0 < budget_s:
        h, w = r.rng.randrange(2, maxs + 1), r.rng.randrange(2, maxs + 1)
        vr, vc = r.rng.randrange(h), r.rng.randrange(w)
        dx, dy = r.rng.choice([(1.0, 1.0), (1.0, 1.0), (2.0, 0.5), (2.0, 1.0), (1.0, 0.5)])
        oe = r.rng.choice([0.0, 1.0, 1.0, -1.0, 5.0, 0.5])
        te = r.rng.choice([0.0, 0.0, 2.0, 0.5])
        perm = geometry_perm(h, w, vr, vc)
        g = geo_model(h, w, vr, vc, dx, dy)
        for mode in (0, 1, 2, 3, 4, 4):
            try:
                bad, a = many(h, w, vr, vc, oe, te, dx, dy, perm, per, r.rng.randrange(1 << 30), mode, g.rows, g.cols,
                              g.ent_nb, g.ext_nb, g.dist_e, g.dist_c, g.dist_x, g.dlo, g.dhi, g.D, g.mask)
            except Exception as ex:   # the real sweep raised inside the compiled search
                bad, a = 0, np.zeros((h, w))
                r.extra.setdefault("notes", []).append(f"fast geometric search: real code raised {type(ex).__name__}: {ex}")
            n += per
            if bad >= 0:
                c = dict(kind=f"fastgeo{mode}", dtype="float64", a=a.tolist(), vr=vr, vc=vc, oe=oe, te=te, dx=dx, dy=dy,
                         x0=0.0, y0=0.0, off=0.0)
                why = safe_oracle(c)
                if why:
                    r.fail("visibility", why, c)
                    return n
                r.extra.setdefault("notes", []).append("fast geometric search: a candidate was not confirmed on viewshed(): "
                                                       + json.dumps(c)[:300])
    return n


def geometry_perm(h, w, vr, vc):
    v = V()
    a = np.zeros((h, w))
    data = np.zeros((3, w))
    vis = np.full((h, w), -1.0)
    ev = np.zeros((3 * (h * w - 1), 7))
    v._init_event_list(ev, a, vr, vc, data, vis)
    return np.lexsort((ev[:, 2], ev[:, 3])).astype(np.int64)


def safe_oracle(c):
    try:
        return oracle_terrain(c)[0]
    except Exception as ex:
        return f"viewshed raised {type(ex).__name__}: {ex}"


def fast_search(r, budget_s, maxs, per=200):
    """random geometries x random terrains; a differing cell is confirmed on the public function"""
    many = fast()
    t0 = time.time()
    n = 0
    while time.time() - t0 < budget_s:
        h, w = r.rng.randrange(2, maxs + 1), r.rng.randrange(2, maxs + 1)
        vr, vc = r.rng.randrange(h), r.rng.randrange(w)
        dx, dy = r.rng.choice([(1.0, 1.0), (1.0, 1.0), (2.0, 0.5), (2.0, 1.0), (1.0, 0.5)])
        oe = r.rng.choice([0.0, 0.0, 0.0, 1.0, -1.0, 5.0])
        te = r.rng.choice([0.0, 0.0, 2.0])
        perm = geometry_perm(h, w, vr, vc)
        for mode in (0, 1, 2, 3):
            try:
                bad, a = many(h, w, vr, vc, oe, te, dx, dy, perm, per, r.rng.randrange(1 << 30), mode)
            except Exception as ex:   # the real sweep raised inside the compiled search
                bad, a = 0, np.zeros((h, w))
                r.extra.setdefault("notes", []).append(f"fast search: real code raised {type(ex).__name__}: {ex}")
            n += per
            if bad >= 0:
                c = dict(kind=f"fast{mode}", dtype="float64", a=a.tolist(), vr=vr, vc=vc, oe=oe, te=te, dx=dx, dy=dy,
                         x0=0.0, y0=0.0, off=0.0)
                why = safe_oracle(c)
                if why:
                    r.fail("visibility", why, c)
                    return n
    return n


# ---------------------------------------------------------------- the check
def case_key(c):
    return json.dumps(c, sort_keys=True, default=str)


def seam1(r, n_seq, nops, pool):
    requests, expect = [], []
    nrot = 0
    for s in range(3 * n_seq):
        if s < n_seq:
            kind = r.rng.choice(["ties", "ties", "flat", "dyadic"])
            alphabet = r.rng.choice([2, 3, 5])
            p = r.rng.choice([6, 12, pool])
            n_ops = nops
        else:
            # tie-heavy long runs on small pools: many inexact (underestimating) states, which is where the
            # deletion's augmentation repairs (F1, the L1 break, the L2 tie test) make a difference
            kind, alphabet, p, n_ops = "flat", 3, r.rng.choice([6, 8, 10]), 300
        seed = r.rng.randrange(1 << 30)
        ops = gen_tree_sequence(random.Random(seed), p, n_ops, alphabet, kind)
        case = dict(stream="tree-random", seed=seed, pool=p, nops=n_ops, alphabet=alphabet, kind=kind)
        nrot += run_tree_sequence(r, ops, case, "tree-random", requests, expect)
        r.case(case, desc=case if s == 0 else None, nontrivial=True,
               tags=["seam1:random", f"grad:{kind}", f"pool:{p}"])
    bad, stats = settle(r, requests, expect, "seam1-tree-random")
    r.tag("seam1:tree-ops-checked", stats["checks"])
    r.tag("seam1:rotations-reproduced", nrot)
    r.tag("seam1:states-with-underestimate", stats["under"])
    r.tag("seam1:states-with-OVERestimate", stats.get("over", 0))
    r.tag("seam1:states-with-non-root-OVERestimate", stats.get("over_nonroot", 0))
    return bad


def seam123(r, n_terr, maxs, tree_level_every):
    """terrains: seam 3 (public) vs seam 2 (real sweep, real tree ops, L1 list model, L2 tree model), and
    seam 1 on the sweep-derived operation sequence of some of them"""
    requests, meta = [], []
    e_requests, e_meta = [], []
    t_requests, t_expect = [], []
    nrot = 0
    for s in range(n_terr):
        c = gen_terrain(r.rng, maxs)
        try:
            why, det = oracle_terrain(c)
        except Exception as ex:  # the public function must not raise on a valid terrain
            r.fail("raises", f"viewshed raised {type(ex).__name__}: {ex}", c)
            continue
        h, w = len(c["a"]), len(c["a"][0])
        edge = c["vr"] in (0, h - 1) or c["vc"] in (0, w - 1)
        r.case(case_key(c), desc=dict(c, a="..") if s == 0 else None, nontrivial=c["kind"] != "flat",
               tags=["terrain:" + c["kind"], "dtype:" + c["dtype"], f"oe:{c['oe']}", f"te:{c['te']}",
                     "cells:square" if c["dx"] == c["dy"] else "cells:non-square",
                     "observer:" + ("corner" if (c["vr"] in (0, h - 1) and c["vc"] in (0, w - 1)) else "edge" if edge else "inner"),
                     f"size:{'<=5' if max(h, w) <= 5 else '<=10' if max(h, w) <= 10 else '>10'}"] + coord_tags(c))
        if why:
            r.fail("visibility", why, c)
            continue
        ops, ev, data, ref, pub, notes = det
        for note in notes:
            r.disagree("L0-geometry-vs-real-internals", dict(stream="terrain", terrain=c), "real " + note, "geometry of the statement")
        a, xs, ys, ew, ns, velev, vt = terrain_setup(c)
        a64 = a.astype(np.float64)
        rs = real_sweep(a64, c["vr"], c["vc"], velev, vt, ew, ns, ev, data)
        if not np.array_equal(rs, pub):
            r.disagree("seam3-public-vs-sweep", c, "viewshed() output", "the real sweep on the harness's event arrays differs")
        rtv = real_tree_sweep(ops, a.shape, c["vc"])
        if rtv != ref:
            r.disagree("seam2-tree-ops-vs-list", c, "real tree operations", "list reference")
        if {k: bool(pub[k] != -1.0) for k in ref} != ref:
            r.disagree("seam2-sweep-vs-list", c, "real sweep", "list reference")
        r.tag("cells:visible", sum(ref.values()))
        r.tag("cells:invisible", len(ref) - sum(ref.values()))
        requests.append("vs_sweep ops=" + ops_tok(ops))
        meta.append((c, "".join("1" if ref[(op[4], op[5])] else "0" for op in ops if op[0] == "qry")))
        rec = None
        if s % tree_level_every == 0 and len(ops) <= 700:
            rec, out_py = instrumented_sweep(a64, c["vr"], c["vc"], velev, vt, ew, ns, ev, data)
            if not np.array_equal(out_py, pub):
                r.disagree("seam0-interpreted-sweep", c, "viewshed() output", "the interpreted source of the sweep differs")
            r.tag("seam0:real-sweep-operations-recorded", len(rec))
        e_requests.append(events_request(a64, c["vr"], c["vc"], ew, ns))
        e_meta.append((c, ops, ev, data, rec))
        if s % tree_level_every == 0 and len(ops) <= 700:
            tops = [(op[0], op[1]) if op[0] != "qry" else ("qry", op[1], op[2], op[3]) for op in ops]
            nrot += run_tree_sequence(r, tops, dict(stream="tree-sweep", terrain=c), "tree-sweep", t_requests, t_expect,
                                      size=a.shape[1] - c["vc"] + a.size + 10)
            r.tag("seam1:sweep-derived-sequences")
    for (c, ops, ev, data, rec), rep in zip(e_meta, Driver().ask(e_requests)):
        diffs = compare_events(c, ops, ev, data, rep, rec)
        for d in diffs[:3]:
            r.disagree("seam0-event-geometry", dict(stream="terrain", terrain=c), "real " + d, "Model/ViewshedEvents.lean (exact)")
        r.tag("seam0:event-lists-compared-exactly")
        r.tag("seam0:events", len(ev))
    replies = Driver().ask(requests)
    for (c, want), rep in zip(meta, replies):
        f = dict(p.split("=", 1) for p in rep.split(" ") if "=" in p)
        if f.get("L") != want:
            r.disagree("seam2-L1-model", c, f"real visible decisions {want[:80]}", f"L1 list model {f.get('L', rep)[:80]}")
        if f.get("T") != want:
            r.disagree("seam2-L2-model", c, f"real visible decisions {want[:80]}", f"L2 tree model {f.get('T', rep)[:80]}")
        if f.get("bst") != "1" or f.get("spanok") != "1":
            r.disagree("seam2-model-invariants", c, "invariants along the model's own tree run", rep[-60:])
        if f.get("augle") != "1":
            r.tag("seam2:model-run-with-OVERestimate")
    bad, stats = settle(r, t_requests, t_expect, "seam1-tree-sweep")
    r.tag("seam1:tree-ops-checked", stats["checks"])
    r.tag("seam1:rotations-reproduced", nrot)
    r.tag("seam1:states-with-underestimate", stats["under"])
    r.tag("seam1:states-with-OVERestimate", stats.get("over", 0))
    r.tag("seam1:states-with-non-root-OVERestimate", stats.get("over_nonroot", 0))


def run_corpus(r):
    """minimised past findings: terrains replayed end to end and, tree level, operation by operation"""
    requests, expect = [], []
    nrot = 0
    for body in r.corpus():
        c = body.get("case", body)
        r.case(case_key(c), nontrivial=True, tags=["corpus"])
        if "ops" in c:
            # a tree-level sequence (not a sweep): the model must reproduce the real arrays step by step and the
            # real query result; that the real answer differs from the list answer here is the recorded finding
            ops = []
            for o in c["ops"]:
                if o[0] == "ins":
                    v = float(c["vals"][o[1] - 1])
                    ops.append(("ins", [float(o[1]), v, v, v, 0.0, 1.0, 2.0]))
                else:
                    ops.append(("del", float(o[1])))
            rt = RealTree(len(ops) + 8)
            keys = []
            for idx, op in enumerate(ops):
                k, _ = apply_op(rt, op, requests, expect, dict(stream="tree-corpus-ops", at=idx))
                nrot += k
                keys = sorted(keys + [op[1][0]]) if op[0] == "ins" else [x for x in keys if x != op[1]]
            qk, qa, qg = (float(x) for x in c["query"])
            real_q = float(V()._max_grad_in_status_struct(rt.tv, rt.tn, rt.root, qk, qa, qg))
            requests.append(f"vs_check tree={rt.ser()} qk={tok(qk)} qa={tok(qa)} qg={tok(qg)}")
            expect.append(("check-known", keys, real_q, (qk, qa, qg), dict(stream="tree-corpus-ops")))
            continue
        try:
            why, det = oracle_terrain(c)
        except Exception as ex:
            r.fail("raises", f"viewshed raised {type(ex).__name__}: {ex}", c)
            continue
        if why:
            r.fail(body.get("key", "visibility"), why, c)
            continue
        ops = det[0]
        for note in det[5]:
            r.disagree("L0-geometry-vs-real-internals", dict(stream="corpus", terrain=c), "real " + note, "geometry of the statement")
        if len(ops) <= 900:
            a = np.array(c["a"])
            tops = [(op[0], op[1]) if op[0] != "qry" else ("qry", op[1], op[2], op[3]) for op in ops]
            nrot += run_tree_sequence(r, tops, dict(stream="tree-corpus", terrain=c), "tree-corpus", requests, expect,
                                      size=a.shape[1] - c["vc"] + a.size + 10)
    if requests:
        bad, stats = settle(r, requests, expect, "seam1-tree-corpus")
        r.tag("seam1:tree-ops-checked", stats["checks"])
        r.tag("seam1:rotations-reproduced", nrot)
        r.tag("seam1:states-with-underestimate", stats["under"])
        r.tag("seam1:states-with-OVERestimate", stats.get("over", 0))
        r.tag("seam1:states-with-non-root-OVERestimate", stats.get("over_nonroot", 0))


IL_PROGS = ["vsFindValueMin", "vsTreeMinimum", "vsTreeSuccessor", "vsLeftRotate", "vsRightRotate", "vsSearch", "vsQuery",
            "vsInsert", "vsDelete"]
# the event geometry, the event list and the sweep (subjects of Props/C05.lean section 8, Proofs/ILVs*.lean)
IL_PROGS_EV = ["vsEventRowCol", "vsEventPos", "vsAngle", "vsVerticalAng", "vsInitEventList"]
IL_PROGS_SWEEP = ["vsSweep"]


def run(r):
    V()
    r.rule = ("terrains 2x2..15x15 (thorough 30x30) over small alphabets / plane+bumps / plateaus / dyadics / ints / flat / "
              "row-relief (tall cells in the lines adjacent to one of the observer's four axis rays), "
              "dtypes f8 f4 i8 i4 i2 u1 u2 i1 (narrow ones also near the top of their range), every observer cell incl. corners and edges, observer_elev in {-1,-0.5,0,0.5,1,5}, target_elev in "
              "{0,0.5,1,2}, square and non-square cells; DataArray kinds for everything that goes through viewshed(): x / y "
              "ascending or descending, dyadic steps 0.25..30, origins up to 4.1e6, observer given at a centre / off-centre (nearest "
              "centre) / clamped to the edge / (wrapper seam only) exactly half way and outside, attrs['res'] absent / consistent / "
              "STALE (scalar, tuple, list, ndarray; different factors per axis) -- the reference always uses the coordinate "
              "spacing and the nearest centre; cell-size scale classes 2^-20 .. 2^20 coordinate units per cell with the heights "
              "scaled along; long thin rasters (3..5 x 1200..1700, flat + low bumps whose corners graze the sight lines to "
              "far cells) judged by the compiled O(n^2) reference; tree sequences: pools 6/12/40 of distinct "
              "keys, gradients from alphabets of 2/3/5 values (ties) or dyadics, queries at bearings all nodes span; "
              "non-trivial = not a flat terrain / any tree sequence")
    r.trusted += ["xarray / pandas `sel(method='nearest')` (compared with the model's nearest-centre rule on every wrapper case, ties included)",
                  "numba compilation of viewshed.py == its interpreted source (checked per tree operation)",
                  "float: IEEE + - * / and comparisons agree between numba and Lean `Float`"]
    r.assumptions += ["seams 1-2 take angles and gradients (atan, sqrt) from the real helper functions; the end-to-end oracle "
                      "recomputes every cell's node from the terrain geometry (atan2, exact cross products) and skips a cell "
                      "only when a decisive comparison is tied within 1e-9 or hinges on a span that merely touches the bearing",
                      "`Inv holds in every reachable state` is checked on the generated runs, not proved for deletion (see design_notes/C05.md)"]
    quick = r.tier == "quick"
    run_corpus(r)
    # layer T3: the nine programs generated statement by statement from the status-tree routines (Gen.IL.vs*, the
    # subjects of the refinement theorems `generated_query_*`, `generated_rotations_*`, `generated_small_routines`)
    # against the numba-compiled functions, on arrays reached by random insert / delete histories of the real code
    il_corr.stream(r, IL_PROGS, 300 if quick else 3000)
    il_corr.stream(r, IL_PROGS_EV, 300 if quick else 3000)
    il_corr.stream(r, IL_PROGS_SWEEP, 100 if quick else 1000)
    seam1(r, n_seq=10 if quick else 120, nops=120, pool=40)
    seam123(r, n_terr=60 if quick else 1000, maxs=9 if quick else 15, tree_level_every=6 if quick else 10)
    if not quick:
        seam123(r, n_terr=20, maxs=30, tree_level_every=100)
    wrapper_seam(r, n=300 if quick else 3000, maxs=6 if quick else 9)
    long_thin(r, n=12 if quick else 60)
    n = fast_search(r, 12 if quick else 300, 10 if quick else 16)
    r.tag("fast-reference-terrains", n)
    if not r.failures:
        n = fast_geo_search(r, 14 if quick else 300, 10 if quick else 16)
        r.tag("fast-geometric-reference-terrains", n)


def search(r):
    """a proof obligation or the correspondence broke: look for a terrain on which the public function
    disagrees with the O(n^2) reference"""
    for d in r.disagreements[:20]:
        c = d["case"].get("terrain") if isinstance(d["case"], dict) else None
        if c:
            why = safe_oracle(c)
            if why:
                r.fail("visibility", why, c)
                return
    # cheap and different in kind from the small-terrain searches: DataArray kinds (coordinates, attrs, cell-size scales)
    # on small terrains, then long thin rasters with grazing bumps
    for _ in range(200 if r.tier == "quick" else 2000):
        c = gen_wrapper_case(r.rng, 6)
        try:
            why = oracle_public(c, public_viewshed(c)[0])
        except Exception as ex:
            why = f"viewshed raised {type(ex).__name__}: {ex}"
        if why:
            r.fail("visibility", why, c)
            return
    for _ in range(30 if r.tier == "quick" else 200):
        c = gen_long_thin(r.rng)
        try:
            why = oracle_public(c, public_viewshed(c)[0])
        except Exception as ex:
            why = f"viewshed raised {type(ex).__name__}: {ex}"
        if why:
            r.fail("visibility", why, c)
            return
    n = fast_geo_search(r, 40 if r.tier == "quick" else 400, 12 if r.tier == "quick" else 18, per=200)
    r.tag("search:fast-geometric-reference-terrains", n)
    if not r.failures:
        n = fast_search(r, 40 if r.tier == "quick" else 400, 12 if r.tier == "quick" else 18, per=300)
        r.tag("search:fast-reference-terrains", n)
    if not r.failures:
        rng = r.rng
        for _ in range(150 if r.tier == "quick" else 1500):
            c = gen_terrain(rng, 12)
            why = safe_oracle(c)
            if why:
                r.fail("visibility", why, c)
                return


def replay(r, body):
    c = body.get("case")
    if c is None or (isinstance(c, dict) and "prog" in c):
        # a translator-validation case of layer T3 (`il:vs*`): recorded as a disagreement
        ils = [c] if c is not None else [d["case"] for d in body.get("disagreements", [])
                                         if str(d.get("stream", "")).startswith("il:")]
        bad = sum(il_corr.replay_case(k) for k in ils)
        print("still disagrees: il:" + ",".join(sorted({k["prog"] for k in ils})) if bad else "does not fail on the current tree")
        return 1 if bad else 0
    if isinstance(c, dict) and "terrain" in c:
        c = c["terrain"]
    if isinstance(c, dict) and "ops" in c:
        print("tree-level operation sequence (not an input of viewshed()): replayed by ./check C05 in the corpus step")
        return 0
    why = safe_oracle(c)
    if why:
        print("still fails:", why)
        return 1
    print("does not fail on the current tree")
    return 0
