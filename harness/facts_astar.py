"""
T1/T2 facts of xrspatial/pathfinding.py (C14) -> Gen/AStarFacts.lean.

What the optimality / validity theorems of Props/C14.lean depend on is regenerated from the source on every run,
as values of the kernel language of Core/KLang.lean (so that an edit of the source changes a definition the
theorems mention):

  distance, heuristic     `_distance`, `_heuristic` as scalar kernels; calls of one-expression module functions inlined
  isInside                `_is_inside` as a scalar kernel (1 / 0)
  validate                the `if connectivity ...: raise` guard of `a_star_search`
  neighbors8/4, connTest  `_neighborhood_structure`: the (dy, dx) offsets in the order `zip(neighbor_ys, neighbor_xs)` yields
                          them, traced through `a_star_search` into the `for y, x in zip(...)` loop of `_a_star_search`
  notCrossable            `_is_not_crossable` as a condition over `cell_value` and the vector `barriers`
  relaxBody               the body of the neighbour loop of `_a_star_search` as a statement; `A[neighbor_y, neighbor_x]`
                          becomes the scalar variable "A@v", `A[py, px]` "A@u" (u = popped cell, v = neighbour)
  minCostInit/Body        `_min_cost_pixel_id`: initialisation and loop body ("A@c" = `A[i, j]`), loop order
  pixelRow/pixelCol       `_get_pixel_id`: the expressions under `int(...)`
  snapInitInf/snapBody    `_find_nearest_pixel`: initial `min_distance`, loop body

Only the `ast` module is used.  A shape that is not recognised is emitted as `S.fail "untranslatable: ..."` / an empty
table / `E.nan`, never as a default, so the theorems that mention it stop checking.
"""
import ast
import copy
import os

from translate import (KernelTranslator, Untranslatable, call_name, emit_kernel, emit_untranslatable, find_func,
                       lean_int, lean_str, lit)

REL = "xrspatial/pathfinding.py"


class Subst(ast.NodeTransformer):
    def __init__(self, mapping):
        self.m = mapping

    def visit_Name(self, n):
        return copy.deepcopy(self.m[n.id]) if n.id in self.m else n


def body_of(func):
    """statements of a function without its docstring"""
    return [s for s in func.body
            if not (isinstance(s, ast.Expr) and isinstance(s.value, ast.Constant) and isinstance(s.value.value, str))]


class AStarTranslator(KernelTranslator):
    """KernelTranslator plus
       * calls of straight-line module-level functions (`v = e` ... `return e`) are inlined (arguments substituted);
       * calls of a boolean helper of the shape  `if c: return True` ... `for i in vec: if a == i: return True` ...
         `return False`  are inlined as a condition;
       * `A[r, c]` / `A[r][c]` where (r, c) is a known cell -> the scalar variable "A@<tag>";
       * `X[k]` with a constant k for a name in `tuples` -> the scalar variable "X<k>";
       * True / False as numbers 1 / 0; a bare cell read as a condition means `!= 0`."""

    def __init__(self, mod, func, cells=None, scalars=(), tuples=(), rename=None):
        super().__init__(mod, func, yvar=None, xvar=None)
        self.cells = dict(cells or {})
        self.args = list(self.args) + [s for s in scalars if s not in self.args]
        self.tuples = set(tuples)
        self.rename = dict(rename or {})
        self.depth = 0
        self.used = []
        self.raw_cells = []

    # -- helpers
    def cell_var(self, n):
        """`A[r, c]` or `A[r][c]` -> "A@tag" (None when `n` is not of that shape)"""
        if not isinstance(n, ast.Subscript):
            return None
        if isinstance(n.value, ast.Name) and isinstance(n.slice, ast.Tuple) and len(n.slice.elts) == 2:
            arr, r, c = n.value.id, n.slice.elts[0], n.slice.elts[1]
        elif isinstance(n.value, ast.Subscript) and isinstance(n.value.value, ast.Name) \
                and not isinstance(n.value.slice, ast.Tuple) and not isinstance(n.slice, ast.Tuple):
            arr, r, c = n.value.value.id, n.value.slice, n.slice
        else:
            return None
        if isinstance(r, ast.Name) and isinstance(c, ast.Name) and (r.id, c.id) in self.cells:
            self.raw_cells.append((arr, self.cells[(r.id, c.id)]))
            v = f"{self.rename.get(arr, arr)}@{self.cells[(r.id, c.id)]}"
            if v not in self.used:
                self.used.append(v)
            return v
        raise Untranslatable(f"array index {ast.unparse(n)}")

    def one_expression_function(self, name, call):
        """the expression a call of a straight-line module function stands for: `v = e` statements followed by
        `return e`, parameters replaced by the arguments and locals by their definitions"""
        f = find_func(self.mod, name)
        if f is None or call.keywords or len(call.args) != len(f.args.args):
            return None
        body = body_of(f)
        if not body or not isinstance(body[-1], ast.Return) or body[-1].value is None:
            return None
        env = dict(zip([a.arg for a in f.args.args], call.args))
        for st in body[:-1]:
            if isinstance(st, ast.Assign) and len(st.targets) == 1 and isinstance(st.targets[0], ast.Name):
                env[st.targets[0].id] = Subst(env).visit(copy.deepcopy(st.value))
            else:
                return None
        return Subst(env).visit(copy.deepcopy(body[-1].value))

    # -- expressions
    def expr(self, n):
        if isinstance(n, ast.Constant) and isinstance(n.value, bool):
            return lit(1 if n.value else 0)
        if isinstance(n, ast.Name) and n.id in self.rename:
            nm = self.rename[n.id]
            if nm not in self.used:
                self.used.append(nm)
            return f"(E.var {lean_str(nm)})"
        if isinstance(n, ast.Subscript):
            if isinstance(n.value, ast.Name) and n.value.id in self.tuples and isinstance(n.slice, ast.Constant) \
                    and isinstance(n.slice.value, int):
                nm = f"{self.rename.get(n.value.id, n.value.id)}{n.slice.value}"
                if nm not in self.used:
                    self.used.append(nm)
                return f"(E.var {lean_str(nm)})"
            v = self.cell_var(n)
            if v is not None:
                return f"(E.var {lean_str(v)})"
        if isinstance(n, ast.Call):
            name = call_name(n.func)
            if isinstance(n.func, ast.Name) and find_func(self.mod, name) is not None:
                sub = self.one_expression_function(name, n)
                if sub is None:
                    raise Untranslatable(f"call of {name}: not a straight-line function")
                if self.depth > 8:
                    raise Untranslatable(f"call of {name}: nesting too deep")
                self.depth += 1
                try:
                    return self.expr(sub)
                finally:
                    self.depth -= 1
        return super().expr(n)

    # -- conditions
    def bool_helper(self, name, call):
        """the condition a call of a boolean helper stands for"""
        f = find_func(self.mod, name)
        if f is None or call.keywords or len(call.args) != len(f.args.args):
            raise Untranslatable(f"call {ast.unparse(call)}")
        params = [a.arg for a in f.args.args]
        amap = dict(zip(params, call.args))
        body = body_of(f)
        if not (body and isinstance(body[-1], ast.Return) and isinstance(body[-1].value, ast.Constant)
                and body[-1].value.value is False):
            raise Untranslatable(f"{name}: does not end with `return False`")

        def returns_true(stmts):
            return len(stmts) == 1 and isinstance(stmts[0], ast.Return) and isinstance(stmts[0].value, ast.Constant) \
                and stmts[0].value.value is True
        parts = []
        for st in body[:-1]:
            if isinstance(st, ast.If) and not st.orelse and returns_true(st.body):
                parts.append(self.cond(Subst(amap).visit(copy.deepcopy(st.test))))
            elif isinstance(st, ast.For) and isinstance(st.target, ast.Name) and isinstance(st.iter, ast.Name) \
                    and st.iter.id in amap and isinstance(amap[st.iter.id], ast.Name) and not st.orelse \
                    and len(st.body) == 1 and isinstance(st.body[0], ast.If) and not st.body[0].orelse \
                    and returns_true(st.body[0].body) and isinstance(st.body[0].test, ast.Compare) \
                    and len(st.body[0].test.ops) == 1 and isinstance(st.body[0].test.ops[0], ast.Eq):
                cmp_ = st.body[0].test
                sides = [cmp_.left, cmp_.comparators[0]]
                other = [x for x in sides if not (isinstance(x, ast.Name) and x.id == st.target.id)]
                if len(other) != 1:
                    raise Untranslatable(f"{name}: comparison {ast.unparse(cmp_)}")
                vec = amap[st.iter.id].id
                if vec not in self.vectors:
                    self.vectors.append(vec)
                parts.append(f"(C.anyEq {lean_str(vec)} {self.expr(Subst(amap).visit(copy.deepcopy(other[0])))})")
            else:
                raise Untranslatable(f"{name}: statement {ast.unparse(st).splitlines()[0]}")
        if not parts:
            return "C.ff"
        acc = parts[-1]
        for p in reversed(parts[:-1]):
            acc = f"(C.or {p} {acc})"
        return acc

    def cond(self, n):
        if isinstance(n, ast.Subscript) and self.cell_var(n) is not None:
            return f"(C.cmp .ne {self.expr(n)} (E.lit 0 1))"
        if isinstance(n, ast.Call) and isinstance(n.func, ast.Name) and find_func(self.mod, n.func.id) is not None:
            sub = self.one_expression_function(n.func.id, n)
            if sub is not None:
                return self.cond(sub)
            return self.bool_helper(n.func.id, n)
        return super().cond(n)

    # -- statements
    def stmt(self, s):
        if isinstance(s, ast.Assign) and len(s.targets) == 1 and isinstance(s.targets[0], ast.Subscript):
            v = self.cell_var(s.targets[0])
            if v is not None:
                return f"(S.assign {lean_str(v)} {self.expr(s.value)})"
        if isinstance(s, ast.Assign) and len(s.targets) == 1 and isinstance(s.targets[0], ast.Name) \
                and s.targets[0].id in self.rename:
            return f"(S.assign {lean_str(self.rename[s.targets[0].id])} {self.expr(s.value)})"
        return super().stmt(s)


# ------------------------------------------------------------------ pieces
def scalar_kernel(mod, fn):
    f = find_func(mod, fn)
    if f is None:
        raise Untranslatable(f"{fn}: function not found")
    tr = AStarTranslator(mod, f)
    k = tr.scalar_kernel()
    return k, f


def int_list(node):
    if isinstance(node, ast.List) and all(
            isinstance(e, ast.Constant) and isinstance(e.value, int) and not isinstance(e.value, bool)
            or (isinstance(e, ast.UnaryOp) and isinstance(e.op, ast.USub) and isinstance(e.operand, ast.Constant)
                and isinstance(e.operand.value, int)) for e in node.elts):
        return [e.value if isinstance(e, ast.Constant) else -e.operand.value for e in node.elts]
    return None


def tuple_names(node):
    if isinstance(node, ast.Tuple) and all(isinstance(e, ast.Name) for e in node.elts):
        return [e.id for e in node.elts]
    return None


def loop_roles(mod):
    """names in `_a_star_search`: the popped cell (row, col), the zip loop and its variables, the neighbour cell,
    rows / cols of the raster.  Raises Untranslatable when the loop is not found."""
    f = find_func(mod, "_a_star_search")
    if f is None:
        raise Untranslatable("_a_star_search not found")
    loop = next((n for n in ast.walk(f) if isinstance(n, ast.While)), None)
    if loop is None:
        raise Untranslatable("while loop not found")
    pop = next((s for s in loop.body if isinstance(s, ast.Assign) and isinstance(s.value, ast.Call)
                and call_name(s.value.func) == "_min_cost_pixel_id" and tuple_names(s.targets[0])
                and len(tuple_names(s.targets[0])) == 2), None)
    if pop is None:
        raise Untranslatable("`py, px = _min_cost_pixel_id(...)` not found")
    u_row, u_col = tuple_names(pop.targets[0])
    zl = next((s for s in loop.body if isinstance(s, ast.For) and isinstance(s.iter, ast.Call)
               and call_name(s.iter.func) == "zip" and len(s.iter.args) == 2
               and all(isinstance(a, ast.Name) for a in s.iter.args) and tuple_names(s.target)
               and len(tuple_names(s.target)) == 2), None)
    if zl is None:
        raise Untranslatable("`for y, x in zip(...)` not found")
    lv = tuple_names(zl.target)
    zipped = [a.id for a in zl.iter.args]
    v_row = v_col = off_row = off_col = None
    for s in zl.body:
        if isinstance(s, ast.Assign) and isinstance(s.targets[0], ast.Name) and isinstance(s.value, ast.BinOp) \
                and isinstance(s.value.op, ast.Add) and isinstance(s.value.left, ast.Name) and isinstance(s.value.right, ast.Name):
            ops = {s.value.left.id, s.value.right.id}
            if u_row in ops and len(ops & set(lv)) == 1 and v_row is None:
                v_row, off_row = s.targets[0].id, (ops & set(lv)).pop()
            elif u_col in ops and len(ops & set(lv)) == 1 and v_col is None:
                v_col, off_col = s.targets[0].id, (ops & set(lv)).pop()
    if None in (v_row, v_col) or off_row == off_col:
        raise Untranslatable("neighbour cell = popped cell + loop variables not found")
    shape = next((s for s in f.body if isinstance(s, ast.Assign) and tuple_names(s.targets[0])
                  and len(tuple_names(s.targets[0])) == 2 and isinstance(s.value, ast.Attribute) and s.value.attr == "shape"
                  and isinstance(s.value.value, ast.Name) and s.value.value.id == f.args.args[0].arg), None)
    if shape is None:
        raise Untranslatable("`height, width = data.shape` not found")
    rows, cols = tuple_names(shape.targets[0])
    return dict(func=f, loop=loop, zip=zl, u=(u_row, u_col), v=(v_row, v_col), off=(off_row, off_col),
                loopvars=lv, zipped=zipped, rows=rows, cols=cols, data=f.args.args[0].arg)


def neighbor_tables(mod, roles):
    """-> (table for the `== K` branch, table for the other branch, K); offsets as (dy, dx)"""
    ns = find_func(mod, "_neighborhood_structure")
    if ns is None:
        raise Untranslatable("_neighborhood_structure not found")
    body = body_of(ns)
    iff = next((s for s in body if isinstance(s, ast.If)), None)
    ret = next((s for s in body if isinstance(s, ast.Return)), None)
    if iff is None or ret is None or not isinstance(iff.test, ast.Compare) or len(iff.test.ops) != 1 \
            or not isinstance(iff.test.ops[0], ast.Eq) or not isinstance(iff.test.left, ast.Name) \
            or iff.test.left.id != ns.args.args[0].arg or not isinstance(iff.test.comparators[0], ast.Constant) \
            or not isinstance(iff.test.comparators[0].value, int):
        raise Untranslatable("_neighborhood_structure: `if connectivity == K` / return not found")
    k = iff.test.comparators[0].value

    def lists(stmts):
        out = {}
        for s in stmts:
            if isinstance(s, ast.Assign) and len(s.targets) == 1 and isinstance(s.targets[0], ast.Name) and int_list(s.value) is not None:
                out[s.targets[0].id] = int_list(s.value)
            elif isinstance(s, ast.Expr) and isinstance(s.value, ast.Constant):
                continue
            else:
                raise Untranslatable(f"_neighborhood_structure: statement {ast.unparse(s).splitlines()[0]}")
        return out
    yes, no = lists(iff.body), lists(iff.orelse)
    if not (isinstance(ret.value, ast.Tuple) and len(ret.value.elts) == 2):
        raise Untranslatable("_neighborhood_structure: return value")
    returned = []
    for e in ret.value.elts:
        if isinstance(e, ast.Call) and call_name(e.func) in ("array", "asarray") and len(e.args) == 1 and isinstance(e.args[0], ast.Name):
            returned.append(e.args[0].id)
        elif isinstance(e, ast.Name):
            returned.append(e.id)
        else:
            raise Untranslatable("_neighborhood_structure: return value")
    # a_star_search: `A, B = _neighborhood_structure(connectivity)` ... `_a_star_search(..., A, B)`
    pub = find_func(mod, "a_star_search")
    if pub is None:
        raise Untranslatable("a_star_search not found")
    got = next((n for n in ast.walk(pub) if isinstance(n, ast.Assign) and isinstance(n.value, ast.Call)
                and call_name(n.value.func) == "_neighborhood_structure" and tuple_names(n.targets[0])
                and len(tuple_names(n.targets[0])) == 2), None)
    call = next((n for n in ast.walk(pub) if isinstance(n, ast.Call) and call_name(n.func) == "_a_star_search"), None)
    if got is None or call is None or call.keywords:
        raise Untranslatable("a_star_search: neighbourhood arrays not passed positionally")
    names = tuple_names(got.targets[0])
    params = [a.arg for a in roles["func"].args.args]
    where = {}
    for pos, a in enumerate(call.args):
        if isinstance(a, ast.Name) and a.id in names and pos < len(params):
            where[params[pos]] = returned[names.index(a.id)]
    # the loop: `for (l0, l1) in zip(z0, z1)`; l_i ranges over the list passed as z_i
    src = {}
    for lvn, z in zip(roles["loopvars"], roles["zipped"]):
        if z not in where:
            raise Untranslatable(f"zip argument {z} is not a neighbourhood array")
        src[lvn] = where[z]
    row_list, col_list = src[roles["off"][0]], src[roles["off"][1]]

    def table(d):
        if row_list not in d or col_list not in d or len(d[row_list]) != len(d[col_list]):
            raise Untranslatable("_neighborhood_structure: offset lists")
        return list(zip(d[row_list], d[col_list]))
    return table(yes), table(no), k


def min_cost_roles(mod):
    """(index of the cost array, index of the open-flag array) among the parameters of `_min_cost_pixel_id`:
    the loop tests `<flag>[i, j] and <cost>[i, j] < <running minimum>`"""
    f = find_func(mod, "_min_cost_pixel_id")
    if f is None:
        raise Untranslatable("_min_cost_pixel_id not found")
    params = [a.arg for a in f.args.args]
    for n in ast.walk(f):
        if isinstance(n, ast.If) and isinstance(n.test, ast.BoolOp) and isinstance(n.test.op, ast.And) and len(n.test.values) == 2:
            flag = cost = None
            for v in n.test.values:
                if isinstance(v, ast.Subscript) and isinstance(v.value, ast.Name):
                    flag = v.value.id
                elif isinstance(v, ast.Compare) and isinstance(v.left, ast.Subscript) and isinstance(v.left.value, ast.Name):
                    cost = v.left.value.id
            if flag in params and cost in params:
                return params.index(cost), params.index(flag)
    raise Untranslatable("_min_cost_pixel_id: `is_open[i, j] and cost[i, j] < min_cost` not found")


def array_roles(mod, roles):
    """local array names of `_a_star_search` -> canonical names, by the part they play:
         f, open      the arrays handed to `_min_cost_pixel_id` (cost, open flags)
         g            the array read at the popped cell when the new distance is formed
         par_y, par_x the arrays that receive the popped cell's row / column at the neighbour
         data         the array whose neighbour value goes to `_is_not_crossable`
         closed       the remaining array whose neighbour entry is tested
       and scalars: u_y u_x (popped cell), v_y v_x (neighbour), off_y off_x, rows cols, goal_y goal_x"""
    f, loop, zl = roles["func"], roles["loop"], roles["zip"]
    ren = {roles["u"][0]: "u_y", roles["u"][1]: "u_x", roles["v"][0]: "v_y", roles["v"][1]: "v_x",
           roles["off"][0]: "off_y", roles["off"][1]: "off_x", roles["rows"]: "rows", roles["cols"]: "cols"}
    pop = next(s for s in loop.body if isinstance(s, ast.Assign) and isinstance(s.value, ast.Call)
               and call_name(s.value.func) == "_min_cost_pixel_id")
    ci, fi = min_cost_roles(mod)
    args = pop.value.args
    if len(args) <= max(ci, fi) or not all(isinstance(a, ast.Name) for a in args):
        raise Untranslatable("_min_cost_pixel_id call")
    ren[args[ci].id] = "f"
    ren[args[fi].id] = "open"
    # goal: `(py, px) == (goal_py, goal_px)`
    for n in ast.walk(loop):
        if isinstance(n, ast.Compare) and len(n.ops) == 1 and isinstance(n.ops[0], ast.Eq):
            a, b = tuple_names(n.left), tuple_names(n.comparators[0])
            if a and b and len(a) == 2 and len(b) == 2:
                if tuple(a) == roles["u"]:
                    ren[b[0]], ren[b[1]] = "goal_y", "goal_x"
                elif tuple(b) == roles["u"]:
                    ren[a[0]], ren[a[1]] = "goal_y", "goal_x"
    if "goal_y" not in ren.values():
        raise Untranslatable("`(py, px) == (goal_py, goal_px)` not found")
    probe = AStarTranslator(mod, f, cells={roles["u"]: "u", roles["v"]: "v"})
    at_u, at_v = set(), set()
    for st in ast.walk(zl):
        if isinstance(st, ast.Subscript):
            try:
                before = len(probe.raw_cells)
                probe.cell_var(st)
                for arr, tag in probe.raw_cells[before:]:
                    (at_u if tag == "u" else at_v).add(arr)
            except Untranslatable:
                pass
        if isinstance(st, ast.Assign) and len(st.targets) == 1 and isinstance(st.targets[0], ast.Subscript) \
                and isinstance(st.value, ast.Name) and st.value.id in roles["u"]:
            try:
                before = len(probe.raw_cells)
                probe.cell_var(st.targets[0])
                arr, tag = probe.raw_cells[before]
                if tag == "v":
                    ren[arr] = "par_y" if st.value.id == roles["u"][0] else "par_x"
            except Untranslatable:
                pass
        if isinstance(st, ast.Call) and isinstance(st.func, ast.Name) and st.func.id == "_is_not_crossable" and st.args:
            a0 = st.args[0]
            base = a0.value if isinstance(a0, ast.Subscript) else None
            while isinstance(base, ast.Subscript):
                base = base.value
            if isinstance(base, ast.Name):
                ren[base.id] = "data"
            if len(st.args) > 1 and isinstance(st.args[1], ast.Name):
                ren[st.args[1].id] = "barriers"
    if len(at_u) != 1:
        raise Untranslatable(f"arrays read at the popped cell: {sorted(at_u)}")
    ren[at_u.pop()] = "g"
    rest = [a for a in sorted(at_v) if a not in ren]
    if len(rest) != 1:
        raise Untranslatable(f"closed-flag array not identified: {rest}")
    ren[rest[0]] = "closed"
    need = {"f", "open", "g", "par_y", "par_x", "data", "closed", "barriers"}
    if not need <= set(ren.values()):
        raise Untranslatable(f"roles not found: {sorted(need - set(ren.values()))}")
    return ren


class VecRename(AStarTranslator):
    """vector names are renamed too (the barrier list)"""

    def bool_helper(self, name, call):
        c = super().bool_helper(name, call)
        for k, v in self.rename.items():
            c = c.replace(f"(C.anyEq {lean_str(k)} ", f"(C.anyEq {lean_str(v)} ")
        self.vectors = [self.rename.get(v, v) for v in self.vectors]
        return c


def relax_body(mod, roles):
    f = roles["func"]
    ren = array_roles(mod, roles)
    scalars = list(roles["u"]) + list(roles["loopvars"]) + [roles["rows"], roles["cols"]]
    tr = VecRename(mod, f, cells={roles["u"]: "u", roles["v"]: "v"}, scalars=scalars, rename=ren)
    body = tr.block(roles["zip"].body)
    return body, tr, ren


def min_cost(mod):
    f = find_func(mod, "_min_cost_pixel_id")
    if f is None:
        raise Untranslatable("_min_cost_pixel_id not found")
    body = body_of(f)
    outer = next((s for s in body if isinstance(s, ast.For)), None)
    if outer is None or len(outer.body) != 1 or not isinstance(outer.body[0], ast.For):
        raise Untranslatable("_min_cost_pixel_id: two nested loops not found")
    inner = outer.body[0]
    shape = next((s for s in body if isinstance(s, ast.Assign) and tuple_names(s.targets[0]) and isinstance(s.value, ast.Attribute)
                  and s.value.attr == "shape"), None)
    if shape is None:
        raise Untranslatable("_min_cost_pixel_id: shape")
    rows, cols = tuple_names(shape.targets[0])

    def rng_of(loop):
        if isinstance(loop.target, ast.Name) and isinstance(loop.iter, ast.Call) and call_name(loop.iter.func) == "range" \
                and len(loop.iter.args) == 1 and isinstance(loop.iter.args[0], ast.Name):
            return loop.target.id, loop.iter.args[0].id
        raise Untranslatable("_min_cost_pixel_id: loop range")
    (ov, ob), (iv, ib) = rng_of(outer), rng_of(inner)
    row_major = (ob, ib) == (rows, cols)
    ret = body[-1]
    if not (isinstance(ret, ast.Return) and tuple_names(ret.value) and len(tuple_names(ret.value)) == 2):
        raise Untranslatable("_min_cost_pixel_id: return")
    res_row, res_col = tuple_names(ret.value)
    pre = body[:body.index(outer)]
    pre = [s for s in pre if s is not shape]
    ren = {res_row: "best_y", res_col: "best_x", ov: "i", iv: "j", rows: "rows", cols: "cols"}
    ci, fi = min_cost_roles(mod)
    params = [a.arg for a in f.args.args]
    ren[params[ci]], ren[params[fi]] = "f", "open"
    for st in pre:
        if isinstance(st, ast.Assign) and isinstance(st.targets[0], ast.Name) and st.targets[0].id not in ren:
            ren[st.targets[0].id] = "min_cost"
    tr = AStarTranslator(mod, f, cells={(ov, iv): "c"}, scalars=[rows, cols, ov, iv], rename=ren)
    init = tr.block(pre)
    loop_body = tr.block(inner.body)
    return init, loop_body, row_major, tr


def pixel_rule(mod):
    """`py = int(<expr>)`, `px = int(<expr>)` of `_get_pixel_id`, names made canonical:
       point0 / point1, coords_y0 / coords_x0 (first coordinate of the row / column axis), cellsize_x / cellsize_y
       (first / second value of `get_dataarray_resolution`)"""
    f = find_func(mod, "_get_pixel_id")
    if f is None:
        raise Untranslatable("_get_pixel_id not found")
    body = body_of(f)
    params = [a.arg for a in f.args.args]
    point, raster = params[0], params[1]
    ren = {}
    for s in ast.walk(f):
        if isinstance(s, ast.Assign) and isinstance(s.targets[0], ast.Name) and isinstance(s.value, ast.Attribute) \
                and s.value.attr == "data" and isinstance(s.value.value, ast.Subscript):
            sub = s.value.value
            if isinstance(sub.value, ast.Attribute) and sub.value.attr == "coords" and isinstance(sub.value.value, ast.Name) \
                    and sub.value.value.id == raster and isinstance(sub.slice, ast.Name) and sub.slice.id in ("ydim", "xdim"):
                ren[s.targets[0].id] = "coords_y" if sub.slice.id == "ydim" else "coords_x"
        if isinstance(s, ast.Assign) and tuple_names(s.targets[0]) and isinstance(s.value, ast.Call) \
                and call_name(s.value.func) == "get_dataarray_resolution" and len(tuple_names(s.targets[0])) == 2:
            a, b = tuple_names(s.targets[0])
            ren[a], ren[b] = "cellsize_x", "cellsize_y"
    ren[point] = "point"
    ret = body[-1]
    if not (isinstance(ret, ast.Return) and tuple_names(ret.value) and len(tuple_names(ret.value)) == 2):
        raise Untranslatable("_get_pixel_id: return")
    out = []
    casts = []
    for nm in tuple_names(ret.value):
        a = next((s for s in body if isinstance(s, ast.Assign) and isinstance(s.targets[0], ast.Name) and s.targets[0].id == nm), None)
        if a is None:
            raise Untranslatable(f"_get_pixel_id: {nm} not assigned")
        v = a.value
        cast = "none"
        if isinstance(v, ast.Call) and isinstance(v.func, ast.Name) and v.func.id in ("int", "round") and len(v.args) == 1:
            cast = v.func.id
            v = v.args[0]
        tr = AStarTranslator(mod, f, tuples=[point] + [k for k in ren if ren[k].startswith("coords")], rename=ren)
        out.append(tr.expr(v))
        casts.append(cast)
    return out, casts


def snap_rule(mod):
    f = find_func(mod, "_find_nearest_pixel")
    if f is None:
        raise Untranslatable("_find_nearest_pixel not found")
    body = body_of(f)
    params = [a.arg for a in f.args.args]
    p_row, p_col = params[0], params[1]
    outer = next((s for s in body if isinstance(s, ast.For)), None)
    if outer is None or len(outer.body) != 1 or not isinstance(outer.body[0], ast.For):
        raise Untranslatable("_find_nearest_pixel: two nested loops not found")
    inner = outer.body[0]
    shape = next((s for s in body if isinstance(s, ast.Assign) and tuple_names(s.targets[0]) and isinstance(s.value, ast.Attribute)
                  and s.value.attr == "shape"), None)
    if shape is None:
        raise Untranslatable("_find_nearest_pixel: shape")
    rows, cols = tuple_names(shape.targets[0])
    ov, iv = outer.target.id, inner.target.id

    def bound(loop):
        if isinstance(loop.iter, ast.Call) and call_name(loop.iter.func) == "range" and len(loop.iter.args) == 1 \
                and isinstance(loop.iter.args[0], ast.Name):
            return loop.iter.args[0].id
        raise Untranslatable("_find_nearest_pixel: loop range")
    row_major = (bound(outer), bound(inner)) == (rows, cols)
    ret = body[-1]
    if not (isinstance(ret, ast.Return) and tuple_names(ret.value) and len(tuple_names(ret.value)) == 2):
        raise Untranslatable("_find_nearest_pixel: return")
    res_row, res_col = tuple_names(ret.value)
    first = body[0]
    ren = {p_row: "p_y", p_col: "p_x", ov: "y", iv: "x", res_row: "near_y", res_col: "near_x"}
    if len(params) >= 4:
        ren[params[2]], ren[params[3]] = "data", "barriers"
    tr = VecRename(mod, f, cells={(p_row, p_col): "p", (ov, iv): "c"}, scalars=[rows, cols, ov, iv], rename=ren)
    if not (isinstance(first, ast.If) and not first.orelse and len(first.body) == 1 and isinstance(first.body[0], ast.Return)
            and tuple_names(first.body[0].value) == [p_row, p_col]):
        raise Untranslatable("_find_nearest_pixel: `if crossable: return py, px` not first")
    keep = tr.cond(first.test)
    init_inf = None
    md = None
    for s in body[1:body.index(outer)]:
        if s is shape:
            continue
        if isinstance(s, ast.Assign) and isinstance(s.targets[0], ast.Name) and s.targets[0].id not in (res_row, res_col):
            md = s.targets[0].id
            src = ast.unparse(s.value)
            init_inf = src in ("np.inf", "numpy.inf", "math.inf", "float('inf')", 'float("inf")', "inf")
    if md is None:
        raise Untranslatable("_find_nearest_pixel: initial minimum distance not found")
    tr.rename[md] = "min_distance"
    tr.args.append(md)
    loop_body = tr.block(inner.body)
    return keep, bool(init_inf), loop_body, row_major, tr


# ------------------------------------------------------------------ what the wrapper does to the caller's raster
REL_UTILS = "xrspatial/utils.py"
MUTATING_METHODS = {"update", "setdefault", "pop", "popitem", "clear", "__setitem__", "__delitem__", "__setattr__", "sort", "fill",
                    "put", "itemset", "resize", "append", "extend", "insert", "remove", "reverse", "setflags", "partition",
                    "byteswap", "rename_vars", "drop_vars_inplace", "load", "persist_inplace"}
MUTATING_FUNCS = {"copyto", "put", "place", "putmask", "put_along_axis", "fill_diagonal", "setattr", "delattr"}
PURE_CALLS = {"int", "float", "abs", "len", "isinstance", "min", "max", "range", "tuple", "list", "round", "str", "format", "type",
              "bool", "sorted", "zip", "enumerate", "print", "DataArray", "warn"}


def chain_root(node, names):
    """the name at the root of an attribute / subscript / method-call chain when it is one of `names`"""
    while True:
        if isinstance(node, (ast.Attribute, ast.Subscript, ast.Starred)):
            node = node.value
        elif isinstance(node, ast.Call) and isinstance(node.func, ast.Attribute):
            node = node.func.value
        else:
            break
    return node.id if isinstance(node, ast.Name) and node.id in names else None


IMMUTABLE_ATTRS = {"dims", "shape", "ndim", "name", "dtype", "size", "sizes", "nbytes", "itemsize"}


def immutable_part(node):
    """a chain that yields a value the raster cannot be changed through: a dimension name, the shape, a `.item()` scalar"""
    while True:
        if isinstance(node, ast.Attribute):
            if node.attr in IMMUTABLE_ATTRS:
                return True
            node = node.value
        elif isinstance(node, (ast.Subscript, ast.Starred)):
            node = node.value
        elif isinstance(node, ast.Call) and isinstance(node.func, ast.Attribute):
            if node.func.attr in ("item", "tolist", "copy", "astype", "min", "max", "sum", "mean"):
                return True
            node = node.func.value
        else:
            return False


def first_line(node):
    return " ".join(ast.unparse(node).split())[:160]


class RasterAccess:
    """what a function (and the module-level functions it hands the raster, or a part of it, on to) does with one of its
    parameters: `writes` -- statements that store into it (item / attribute assignment, `del`, mutating method calls,
    `out=`), directly or through a local name bound to a part of it; `escapes` -- calls that receive it and whose body is
    not in the scanned modules; `reads` -- the maximal attribute / item / method chains rooted at the parameter itself"""

    def __init__(self, funcs):
        self.funcs = funcs
        self.writes, self.escapes, self.reads = [], [], []
        self.seen = set()

    def scan(self, fname, pindex, canonical="raster"):
        if (fname, pindex) in self.seen or len(self.seen) > 40:
            return
        self.seen.add((fname, pindex))
        f = self.funcs[fname]
        allp = [a.arg for a in f.args.posonlyargs + f.args.args + f.args.kwonlyargs]
        if pindex >= len(allp):
            self.escapes.append(f"{fname}: parameter {pindex} not found")
            return
        P = allp[pindex]
        aliases = {P}
        grew = True
        while grew:
            grew = False
            for n in ast.walk(f):
                if isinstance(n, ast.Assign) and len(n.targets) == 1 and isinstance(n.targets[0], ast.Name) \
                        and n.targets[0].id not in aliases and chain_root(n.value, aliases) and not immutable_part(n.value):
                    aliases.add(n.targets[0].id)
                    grew = True

        def canon(node):
            t = first_line(node)
            return t if P == canonical else ast.unparse(_Rename(P, canonical).visit(copy.deepcopy(node))).replace("\n", " ")[:160]

        def store_targets(t):
            if isinstance(t, (ast.Tuple, ast.List)):
                for e in t.elts:
                    yield from store_targets(e)
            elif isinstance(t, ast.Starred):
                yield from store_targets(t.value)
            else:
                yield t
        chains = []
        for n in ast.walk(f):
            tg = []
            if isinstance(n, ast.Assign):
                tg = [x for t in n.targets for x in store_targets(t)]
            elif isinstance(n, (ast.AugAssign, ast.AnnAssign)):
                tg = list(store_targets(n.target))
            elif isinstance(n, ast.Delete):
                tg = [x for t in n.targets for x in store_targets(t)]
            elif isinstance(n, (ast.For, ast.AsyncFor)):
                tg = list(store_targets(n.target))
            elif isinstance(n, (ast.With, ast.AsyncWith)):
                tg = [x for it in n.items if it.optional_vars is not None for x in store_targets(it.optional_vars)]
            for t in tg:
                if isinstance(t, (ast.Attribute, ast.Subscript)) and chain_root(t, aliases):
                    self.writes.append(f"{fname}: {canon(n) if not isinstance(n, (ast.For, ast.With)) else canon(t)}")
            if isinstance(n, ast.Call):
                nm = call_name(n.func)
                if isinstance(n.func, ast.Attribute) and nm in MUTATING_METHODS and chain_root(n.func.value, aliases):
                    self.writes.append(f"{fname}: {canon(n)}")
                if nm in MUTATING_FUNCS and n.args and chain_root(n.args[0], aliases):
                    self.writes.append(f"{fname}: {canon(n)}")
                for kw in n.keywords:
                    if kw.arg == "out" and chain_root(kw.value, aliases):
                        self.writes.append(f"{fname}: {canon(n)}")
                if any(kw.arg == "inplace" and isinstance(kw.value, ast.Constant) and kw.value.value is True for kw in n.keywords) \
                        and isinstance(n.func, ast.Attribute) and chain_root(n.func.value, aliases):
                    self.writes.append(f"{fname}: {canon(n)}")
                # the raster (or a part of it) handed on
                handed = [(i, a) for i, a in enumerate(n.args) if chain_root(a, aliases)]
                handed_kw = [(kw.arg, kw.value) for kw in n.keywords if kw.arg and chain_root(kw.value, aliases)]
                if (handed or handed_kw) and isinstance(n.func, ast.Name) and nm in self.funcs:
                    callee = self.funcs[nm]
                    cp = [a.arg for a in callee.args.posonlyargs + callee.args.args + callee.args.kwonlyargs]
                    for i, a in handed:
                        whole = isinstance(a, ast.Name) and a.id == P
                        self.scan(nm, i, canonical if whole else cp[i] if i < len(cp) else "?")
                    for k, a in handed_kw:
                        if k in cp:
                            self.scan(nm, cp.index(k), canonical if isinstance(a, ast.Name) and a.id == P else k)
                        else:
                            self.escapes.append(f"{fname}: {canon(n)}")
                elif (handed or handed_kw) and not (
                        nm in PURE_CALLS or (isinstance(n.func, ast.Attribute) and isinstance(n.func.value, ast.Name)
                                             and n.func.value.id in ("np", "numpy", "xr", "math", "warnings") and nm not in MUTATING_FUNCS)
                        or (isinstance(n.func, ast.Attribute) and chain_root(n.func.value, aliases))):
                    if any(isinstance(a, ast.Name) and a.id in aliases for _, a in handed + handed_kw):
                        self.escapes.append(f"{fname}: {canon(n)}")
            if isinstance(n, (ast.Attribute, ast.Subscript, ast.Call)) and chain_root(n, {P}) and not (
                    isinstance(n, ast.Call) and not isinstance(n.func, ast.Attribute)):
                chains.append(n)
        inner = set()
        for n in chains:
            v = n.func if isinstance(n, ast.Call) else n.value
            inner.add(id(v))
            if isinstance(n, ast.Call):
                inner.add(id(n.func.value))
        for n in chains:
            if id(n) not in inner:
                self.reads.append(f"{fname}: {canon(n)}")
        for n in ast.walk(f):
            if isinstance(n, ast.Call) and isinstance(n.func, ast.Name) and any(isinstance(a, ast.Name) and a.id == P for a in n.args):
                self.reads.append(f"{fname}: {canon(n)}")
            if isinstance(n, ast.Compare) and any(isinstance(c, ast.Name) and c.id == P for c in [n.left] + n.comparators):
                self.reads.append(f"{fname}: {canon(n)}")


class _Rename(ast.NodeTransformer):
    def __init__(self, a, b):
        self.a, self.b = a, b

    def visit_Name(self, n):
        return ast.copy_location(ast.Name(id=self.b, ctx=n.ctx), n) if n.id == self.a else n


def uniq(xs):
    out = []
    for x in xs:
        if x not in out:
            out.append(x)
    return out


def raster_facts(repo, mod):
    """-> (writes, escapes, reads of the cell mapping) for `a_star_search(surface, ...)` / `_get_pixel_id(point, raster, ...)`"""
    funcs = {}
    try:
        um = ast.parse(open(os.path.join(repo, REL_UTILS)).read())
    except (OSError, SyntaxError):
        um = ast.parse("")
    for m in (um, mod):
        for n in m.body:
            if isinstance(n, (ast.FunctionDef, ast.AsyncFunctionDef)):
                funcs[n.name] = n
    for need in ("a_star_search", "_get_pixel_id", "get_dataarray_resolution"):
        if need not in funcs:
            raise Untranslatable(f"{need} not found")
    whole = RasterAccess(funcs)
    whole.scan("a_star_search", 0)
    gp = funcs["_get_pixel_id"]
    params = [a.arg for a in gp.args.args]
    # the raster is the parameter whose `.coords` is read
    ridx = None
    for n in ast.walk(gp):
        if isinstance(n, ast.Attribute) and n.attr == "coords" and isinstance(n.value, ast.Name) and n.value.id in params:
            ridx = params.index(n.value.id)
    if ridx is None:
        raise Untranslatable("_get_pixel_id: no parameter whose .coords is read")
    pix = RasterAccess(funcs)
    pix.scan("_get_pixel_id", ridx)
    return uniq(whole.writes), uniq(whole.escapes + pix.escapes), sorted(set(pix.reads)), uniq(pix.writes)


# ------------------------------------------------------------------ emission
def pairs(tbl):
    return "[" + ", ".join(f"({lean_int(a)}, {lean_int(b)})" for a, b in tbl) + "]"


def generate(repo):
    rep = {}
    out = ["import XrsVerif.Core.KLang",
           "/-! GENERATED by harness/facts_astar.py from xrspatial/pathfinding.py -- do not edit. -/",
           "namespace XrsVerif.Gen.AStarFacts", "open XrsVerif", ""]
    try:
        mod = ast.parse(open(os.path.join(repo, REL)).read())
    except (OSError, SyntaxError) as ex:
        mod = ast.parse("")
        rep["source"] = str(ex)

    # scalar kernels
    for lean_name, fn in (("distance", "_distance"), ("heuristic", "_heuristic"), ("isInside", "_is_inside")):
        qual = "pathfinding." + fn
        try:
            k, f = scalar_kernel(mod, fn)
            out.append(f"/-- `{qual}` ({REL}:{f.lineno}); calls of one-expression module functions inlined -/")
            out.append(emit_kernel(lean_name, qual, k))
            rep[lean_name] = dict(ok=True, scalars=k["scalars"])
        except Exception as ex:          # noqa: BLE001  (anything unexpected = not recognised)
            out.append(emit_untranslatable(lean_name, qual, str(ex)))
            rep[lean_name] = dict(ok=False, why=str(ex))
    # connectivity guard
    try:
        pub = find_func(mod, "a_star_search")
        if pub is None:
            raise Untranslatable("a_star_search not found")
        k = AStarTranslator(mod, pub).guards_kernel()
        out.append("/-- the `if <test over plain scalars>: raise` guards of `a_star_search` -/")
        out.append(emit_kernel("validate", "pathfinding.a_star_search", k))
        rep["validate"] = dict(ok=True, scalars=k["scalars"])
    except Exception as ex:          # noqa: BLE001  (anything unexpected = not recognised)
        out.append(emit_untranslatable("validate", "pathfinding.a_star_search", str(ex)))
        rep["validate"] = dict(ok=False, why=str(ex))

    # the loop of _a_star_search
    roles = None
    try:
        roles = loop_roles(mod)
        rep["roles"] = {k: v for k, v in roles.items() if k not in ("func", "loop", "zip")}
    except Exception as ex:          # noqa: BLE001  (anything unexpected = not recognised)
        rep["roles"] = dict(ok=False, why=str(ex))
    try:
        if not roles:
            raise Untranslatable(rep["roles"]["why"])
        t8, t4, k = neighbor_tables(mod, roles)
        rep["neighbors"] = dict(ok=True, test=k, yes=t8, no=t4)
    except Exception as ex:          # noqa: BLE001  (anything unexpected = not recognised)
        t8, t4, k = [], [], 0
        rep["neighbors"] = dict(ok=False, why=str(ex))
    out += ["/-- `_neighborhood_structure`: offsets `(dy, dx)` in the order the loop `for y, x in zip(neighbor_ys, neighbor_xs)`",
            "    of `_a_star_search` sees them (dy is the loop variable added to the popped cell's row); the branch taken",
            "    when `connectivity == connTest` ... -/",
            f"def neighborsYes : List (Int × Int) := {pairs(t8)}",
            "/-- ... and otherwise -/",
            f"def neighborsNo : List (Int × Int) := {pairs(t4)}",
            f"def connTest : Int := {lean_int(k)}",
            "def neighborsFor (connectivity : Int) : List (Int × Int) :=",
            "  if connectivity = connTest then neighborsYes else neighborsNo", ""]
    # barrier test
    try:
        f = find_func(mod, "_is_not_crossable")
        if f is None:
            raise Untranslatable("_is_not_crossable not found")
        params = [a.arg for a in f.args.args]
        tr = VecRename(mod, f, rename={params[0]: "value", params[1]: "barriers"})
        call = ast.Call(func=ast.Name(id="_is_not_crossable", ctx=ast.Load()),
                        args=[ast.Name(id=p, ctx=ast.Load()) for p in params], keywords=[])
        c = tr.bool_helper("_is_not_crossable", call)
        out += [f"/-- `_is_not_crossable({', '.join(params)})` as a condition (scalar `{params[0]}`, vector `{params[1]}`) -/",
                f"def notCrossable : C :=\n {c}", ""]
        rep["notCrossable"] = dict(ok=True)
    except Exception as ex:          # noqa: BLE001
        out += ["def notCrossable : C := C.cmp .lt E.nan E.nan", ""]
        rep["notCrossable"] = dict(ok=False, why=str(ex))
    # what `a_star_search` does to the caller's list before the kernels see it
    casts = ["?"]
    try:
        pub = find_func(mod, "a_star_search")
        if pub is None:
            raise Untranslatable("a_star_search not found")
        bname = None
        for n in ast.walk(pub):
            if isinstance(n, ast.Call) and call_name(n.func) == "_a_star_search" and roles:
                params = [a.arg for a in roles["func"].args.args]
                for n2 in ast.walk(roles["zip"]):
                    if isinstance(n2, ast.Call) and call_name(n2.func) == "_is_not_crossable" and len(n2.args) > 1 \
                            and isinstance(n2.args[1], ast.Name) and n2.args[1].id in params:
                        pos = params.index(n2.args[1].id)
                        if pos < len(n.args) and isinstance(n.args[pos], ast.Name):
                            bname = n.args[pos].id
        if bname is None:
            raise Untranslatable("barrier list not traced into _a_star_search")
        casts = []
        for n in ast.walk(pub):
            if isinstance(n, ast.Assign) and any(isinstance(t, ast.Name) and t.id == bname for t in n.targets):
                for c in ast.walk(n.value):
                    if isinstance(c, ast.Call):
                        nm = call_name(c.func)
                        if nm in ("astype", "view", "round", "rint", "floor", "trunc"):
                            casts.append(ast.unparse(c)[:80])
                        elif nm not in ("array", "asarray", "list", "tuple", "ravel", "flatten", "atleast_1d"):
                            casts.append(ast.unparse(c)[:80])
                        for kw in c.keywords:
                            if kw.arg == "dtype":
                                casts.append("dtype=" + ast.unparse(kw.value))
        rep["barrierCasts"] = dict(ok=True, name=bname, casts=casts)
    except Exception as ex:          # noqa: BLE001  (anything unexpected = not recognised)
        rep["barrierCasts"] = dict(ok=False, why=str(ex))
    out += ["/-- conversions `a_star_search` applies to the caller's barrier list beyond `np.array(...)` (none: the kernels compare",
            "    each cell with the listed numbers themselves, under the platform's promotion rules) -/",
            f"def barrierCasts : List String := [{', '.join(lean_str(c) for c in casts)}]", ""]
    # relaxation
    try:
        if not roles:
            raise Untranslatable(rep["roles"]["why"])
        body, tr, ren = relax_body(mod, roles)
        out += ["/-- the body of the neighbour loop of `_a_star_search`; `A@u` = `A[py, px]`, `A@v` = `A[neighbor_y, neighbor_x]`,",
                "    `S.cont` = `continue`; calls of `_distance` / `_heuristic` / `_is_not_crossable` inlined; names by role:",
                "    " + ", ".join(f"{k} -> {v}" for k, v in sorted(ren.items())) + " -/",
                f"def relaxBody : S :=\n {body}", ""]
        rep["relaxBody"] = dict(ok=True, cell_vars=tr.used, vectors=tr.vectors, names=ren)
    except Exception as ex:          # noqa: BLE001  (anything unexpected = not recognised)
        out += [f"def relaxBody : S := S.fail {lean_str('untranslatable: ' + str(ex))}", ""]
        rep["relaxBody"] = dict(ok=False, why=str(ex))
    # the bookkeeping between the pop and the neighbour loop
    try:
        if not roles:
            raise Untranslatable(rep["roles"]["why"])
        ren = array_roles(mod, roles)
        loop = roles["loop"]
        stmts = []
        seen_pop = False
        for st in loop.body:
            if st is roles["zip"]:
                break
            if isinstance(st, ast.Assign) and isinstance(st.value, ast.Call) and call_name(st.value.func) == "_min_cost_pixel_id":
                seen_pop = True
                continue
            if seen_pop and isinstance(st, ast.Assign) and isinstance(st.targets[0], ast.Subscript):
                stmts.append(st)
        if not stmts:
            raise Untranslatable("no bookkeeping statements between the pop and the neighbour loop")
        tr = VecRename(mod, roles["func"], cells={roles["u"]: "u", roles["v"]: "v"}, rename=ren)
        out += ["/-- the array updates of `_a_star_search` between `py, px = _min_cost_pixel_id(...)` and the neighbour loop",
                "    (`A@u` = `A[py][px]`) -/",
                f"def popBody : S :=\n {tr.block(stmts)}", ""]
        rep["popBody"] = dict(ok=True, statements=len(stmts))
    except Exception as ex:          # noqa: BLE001  (anything unexpected = not recognised)
        out += [f"def popBody : S := S.fail {lean_str('untranslatable: ' + str(ex))}", ""]
        rep["popBody"] = dict(ok=False, why=str(ex))
    # min-cost selection
    try:
        init, lb, row_major, tr = min_cost(mod)
        out += ["/-- `_min_cost_pixel_id`: statements before the loops (result `best_y`, `best_x`; `rows`, `cols` = shape) ... -/",
                f"def minCostInit : S :=\n {init}",
                "/-- ... the body of the inner loop (`A@c` = `A[i, j]`) ... -/",
                f"def minCostBody : S :=\n {lb}",
                "/-- ... and whether the loops run `for i in range(rows): for j in range(cols)` -/",
                f"def minCostRowMajor : Bool := {'true' if row_major else 'false'}", ""]
        rep["minCost"] = dict(ok=True, row_major=row_major)
    except Exception as ex:          # noqa: BLE001  (anything unexpected = not recognised)
        msg = lean_str("untranslatable: " + str(ex))
        out += [f"def minCostInit : S := S.fail {msg}", f"def minCostBody : S := S.fail {msg}", "def minCostRowMajor : Bool := false", ""]
        rep["minCost"] = dict(ok=False, why=str(ex))
    # coordinate -> pixel
    try:
        (erow, ecol), casts = pixel_rule(mod)
        out += ["/-- `_get_pixel_id`: the expression under the cast for the row ... (point0 / point1 = `point[0]` / `point[1]`,",
                "    coords_y0 / coords_x0 = first coordinate of the row / column axis, cellsize_x / cellsize_y = first / second",
                "    value of `get_dataarray_resolution`) -/",
                f"def pixelRow : E :=\n {erow}", "/-- ... and for the column -/", f"def pixelCol : E :=\n {ecol}",
                "/-- the casts applied to them (`int` truncates towards zero) -/",
                f"def pixelCasts : List String := [{', '.join(lean_str(c) for c in casts)}]", ""]
        rep["pixel"] = dict(ok=True, casts=casts)
    except Exception as ex:          # noqa: BLE001  (anything unexpected = not recognised)
        out += ["def pixelRow : E := E.nan", "def pixelCol : E := E.nan", "def pixelCasts : List String := []", ""]
        rep["pixel"] = dict(ok=False, why=str(ex))
    # snapping
    try:
        keep, init_inf, lb, row_major, tr = snap_rule(mod)
        out += ["/-- `_find_nearest_pixel`: the test under which the queried cell `p` is returned unchanged (`data@p`) ... -/",
                f"def snapKeep : C :=\n {keep}",
                "/-- ... whether the running minimum starts at infinity ... -/",
                f"def snapInitInf : Bool := {'true' if init_inf else 'false'}",
                "/-- ... the body of the inner loop (`data@c` = `data[y, x]`; result `near_y`, `near_x`; query `p_y`, `p_x`) ... -/",
                f"def snapBody : S :=\n {lb}",
                "/-- ... and whether the loops run rows first -/",
                f"def snapRowMajor : Bool := {'true' if row_major else 'false'}", ""]
        rep["snap"] = dict(ok=True, init_inf=init_inf, row_major=row_major)
    except Exception as ex:          # noqa: BLE001  (anything unexpected = not recognised)
        msg = lean_str("untranslatable: " + str(ex))
        out += ["def snapKeep : C := C.ff", "def snapInitInf : Bool := false", f"def snapBody : S := S.fail {msg}",
                "def snapRowMajor : Bool := false", ""]
        rep["snap"] = dict(ok=False, why=str(ex))
    # the caller's raster: never written, the cell mapping reads coordinates / `res` only
    try:
        writes, escapes, reads, pwrites = raster_facts(repo, mod)
        rep["raster"] = dict(ok=True, writes=writes, escapes=escapes, reads=reads)
    except Exception as ex:          # noqa: BLE001  (anything unexpected = not recognised)
        writes, escapes, reads, pwrites = ["untranslatable: " + str(ex)], ["untranslatable: " + str(ex)], [], ["untranslatable: " + str(ex)]
        rep["raster"] = dict(ok=False, why=str(ex))

    def strs(xs):
        return "[" + ",\n   ".join(lean_str(x) for x in xs) + "]"
    out += ["/-- statements of `a_star_search`, `_get_pixel_id`, `get_dataarray_resolution` and of every module-level function",
            "    (pathfinding.py, utils.py; numba kernels included) the surface or a part of it is handed on to, that store into",
            "    the caller's raster: item / attribute assignment (`raster.attrs[...] = ...`), `del`, mutating method calls,",
            "    `out=`, `inplace=True` -- directly or through a local name bound to a part of it -/",
            f"def surfaceWrites : List String :=\n  {strs(writes)}",
            "/-- the same, from `_get_pixel_id`'s raster parameter alone -/",
            f"def pixelRasterWrites : List String :=\n  {strs(pwrites)}",
            "/-- calls that receive the raster itself and whose body is not in the scanned modules -/",
            f"def surfaceEscapes : List String :=\n  {strs(escapes)}",
            "/-- everything `_get_pixel_id` reads of its raster, through the functions it hands it to (`function: expression`,",
            "    the raster parameter written `raster` whatever it is called) -/",
            f"def pixelRasterReads : List String :=\n  {strs(reads)}", ""]
    out += ["end XrsVerif.Gen.AStarFacts", ""]
    yield "AStarFacts.lean", "\n".join(out), rep
