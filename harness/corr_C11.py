"""
C11 -- results depend only on the arguments, not on earlier calls or thread timing.

Tie:  G  harness/facts_effects.py regenerates Gen/Effects.lean (effect summaries, jit facts, dask task
         functions, argument aspects of the seeded generators) from /repo's current source; the theorems
         of Props/C11.lean are decided against exactly those values.
      H  (a) property oracle = differential histories: random sequences of public calls (<= 12 quick,
         <= 60 thorough) mixing functions, parameters, dtypes and backends are executed in ONE worker
         process ("session"); every call is compared -- bit for bit -- with the same call on a snapshot
         of its arguments in a FRESH process; the session is repeated with NUMBA_NUM_THREADS / dask
         workers in {1,2,4,16}; a repeated call must repeat its result.  Perturbers: bump (draws from the
         unseeded global RNG by contract -- never a subject), user-level np.random use, scribbling over
         returned buffers and passed-in lists.
         (b) model-vs-code: after every call of a session the shared cells that really changed (global
         NumPy RNG state, stdlib RNG, every module-level table, every mutable default, every rebound
         module-level name) must be among the cells the generated summary says the function writes; the
         model's verdict "same as fresh" (driver `effhist`) must agree with what was observed.
         (c) seeded generators: same seed / shape / extent with templates of different *contents* and
         after different histories must give identical bits.

Arguments are snapshotted at call time (viewshed widens its raster's dtype, validate_arrays / dask
proximity rechunk their inputs in place: a later call on the same object is a call with another argument).

Tolerance: none is needed so far -- with a fixed chunking the dask graph (hence the reduction tree) is
fixed, so even dask sums are bit-identical across schedulers; `TOL_STREAMS` names the functions for
which a last-ulp tolerance would be accepted if that ever changes (currently empty).
"""
import copy
import hashlib
import json
import os
import pickle
import re
import subprocess
import sys
import tempfile
import time
from concurrent.futures import ThreadPoolExecutor

HERE = os.path.dirname(os.path.abspath(__file__))
PROP = "C11"
LEAN_TARGETS = ()
THREAD_CONFIGS = [1, 2, 4, 16]
TOL_STREAMS = set()
MAX_PROCS = int(os.environ.get("VERIF_C11_PROCS", "12"))

# ================================================================================================
#                                   worker side (subprocess)
# ================================================================================================


def _np():
    import numpy as np
    return np


def unjson(v):
    """JSON parameter -> python value ("nan"/"inf" strings, {"__fn__":..}, {"__arr__":..}, {"__tuple__":..})"""
    np = _np()
    if isinstance(v, str):
        return {"nan": np.nan, "inf": np.inf, "-inf": -np.inf}.get(v, v)
    if isinstance(v, list):
        return [unjson(x) for x in v]
    if isinstance(v, dict):
        if "__fn__" in v:
            return resolve(v["__fn__"])
        if "__arr__" in v:
            return np.array(unjson(v["__arr__"]), dtype=v.get("dtype", "float64"))
        if "__tuple__" in v:
            return tuple(unjson(x) for x in v["__tuple__"])
        if "__statsdict__" in v:
            return {k: STATS_FUNCS[k] for k in v["__statsdict__"]}
        return {k: unjson(x) for k, x in v.items()}
    return v


def _zmax(z):
    return z.max()


def _zrange(z):
    return z.max() - z.min()


def _zsum(z):
    return z.sum()


STATS_FUNCS = {"zmax": _zmax, "zrange": _zrange, "zsum": _zsum}


def _double(x):
    return x * 2.0


def resolve(name):
    import importlib
    if name.startswith("corr."):
        return globals()[name[5:]]
    mod, fn = name.rsplit(".", 1)
    m = importlib.import_module("xrspatial." + mod)
    return getattr(m, fn)


def gen_fields(g):
    """raster description -> plain fields; uses a LOCAL generator, never the global RNG"""
    np = _np()
    rs = np.random.RandomState(g["seed"])
    h, w, kind = g["h"], g["w"], g["kind"]
    if kind == "targets":
        a = rs.choice([0, 0, 0, 0, 0, 1, 2, 3, 4], size=(h, w)).astype("float64")
    elif kind == "elev":
        base = rs.randint(0, 40, size=(h, w)).astype("float64")
        yy, xx = np.mgrid[0:h, 0:w]
        a = base / 4.0 + (yy * 3 + xx * 2) % 7
    elif kind == "zones":
        a = rs.randint(0, 5, size=(h, w)).astype("int64")
        a[: h // 2, : w // 2] = 1
    elif kind == "cats":
        a = rs.randint(0, 4, size=(h, w)).astype("float64")
    elif kind == "band":
        a = rs.randint(1, 200, size=(h, w)).astype("float64") / 8.0
    elif kind == "blobs":
        a = (rs.randint(0, 3, size=(h, w))).astype("float64")
    else:
        a = np.zeros((h, w))
    a = a.astype(g.get("dtype", "float64"))
    if g.get("nan") and a.dtype.kind == "f":
        for _ in range(int(g["nan"])):
            a[rs.randint(h), rs.randint(w)] = np.nan
    sx, sy = g.get("sx", 1.0), g.get("sy", 1.0)
    ys = np.arange(h, dtype="float64") * sy + g.get("oy", 0.0)
    xs = np.arange(w, dtype="float64") * sx + g.get("ox", 0.0)
    if g.get("ydesc"):
        ys = ys[::-1].copy()
    return dict(data=a, dims=("y", "x"), coords={"y": ys, "x": xs}, attrs={"res": (sx, sy)}, name=g.get("name"),
                chunks=tuple(tuple(c) for c in g["chunks"]) if g.get("chunks") else None)


def build_da(f):
    import xarray as xr
    data = f["data"].copy()
    if f.get("chunks"):
        import dask.array as da
        data = da.from_array(data, chunks=f["chunks"])
    return xr.DataArray(data, dims=tuple(f["dims"]), coords={k: v.copy() for k, v in f["coords"].items()},
                        attrs=copy.deepcopy(f["attrs"]), name=f["name"])


def fields_of(x):
    """snapshot of a DataArray as plain fields"""
    np = _np()
    d = x.data
    chunks = None
    if type(d).__module__.startswith("dask"):
        chunks = tuple(tuple(int(c) for c in cs) for cs in d.chunks)
        d = d.compute(scheduler="synchronous")
    return dict(data=np.array(d, copy=True), dims=tuple(x.dims),
                coords={k: np.array(x[k].values, copy=True) for k in x.dims if k in x.coords},
                attrs=copy.deepcopy(dict(x.attrs)), name=x.name, chunks=chunks)


def enc(v):
    import xarray as xr
    np = _np()
    if isinstance(v, xr.DataArray):
        return {"__da__": fields_of(v)}
    if isinstance(v, xr.Dataset):
        return {"__ds__": {k: fields_of(v[k]) for k in v.data_vars}}
    if isinstance(v, np.ndarray):
        return {"__nd__": v.copy()}
    if isinstance(v, (list, tuple)):
        return {"__seq__": [enc(x) for x in v], "tuple": isinstance(v, tuple)}
    if isinstance(v, dict):
        return {"__map__": {k: enc(x) for k, x in v.items()}}
    if callable(v):
        for k, f in STATS_FUNCS.items():
            if f is v:
                return {"__stat__": k}
        pf = getattr(v, "py_func", v)
        return {"__call__": (pf.__module__, pf.__name__)}
    return {"__v__": v}


def dec(e):
    import xarray as xr
    if "__da__" in e:
        return build_da(e["__da__"])
    if "__ds__" in e:
        return xr.Dataset({k: build_da(f) for k, f in e["__ds__"].items()})
    if "__nd__" in e:
        return e["__nd__"].copy()
    if "__seq__" in e:
        xs = [dec(x) for x in e["__seq__"]]
        return tuple(xs) if e["tuple"] else xs
    if "__map__" in e:
        return {k: dec(x) for k, x in e["__map__"].items()}
    if "__stat__" in e:
        return STATS_FUNCS[e["__stat__"]]
    if "__call__" in e:
        import importlib
        mod, nm = e["__call__"]
        if mod in ("__main__", "corr_C11"):
            return globals()[nm]
        return getattr(importlib.import_module(mod), nm)
    return e["__v__"]


def h_bytes(b):
    return hashlib.sha1(b).hexdigest()[:16]


def canon(v):
    """result -> JSON-able canonical description; arrays by the hash of their bytes"""
    import xarray as xr
    np = _np()
    try:
        import pandas as pd
    except ImportError:
        pd = None
    if v is None or isinstance(v, (bool, int, str)):
        return v
    if isinstance(v, float):
        return repr(v)
    if isinstance(v, np.generic):
        return [str(v.dtype), repr(v.item())]
    if isinstance(v, xr.DataArray):
        d = v.data
        backend = "numpy"
        if type(d).__module__.startswith("dask"):
            backend = "dask:" + repr(tuple(tuple(int(c) for c in cs) for cs in d.chunks))
            d = d.compute()
        d = np.asarray(d)
        out = dict(t="DataArray", dtype=str(d.dtype), shape=list(d.shape), bytes=h_bytes(np.ascontiguousarray(d).tobytes()),
                   dims=list(v.dims), name=v.name, backend=backend,
                   coords={str(k): h_bytes(np.ascontiguousarray(np.asarray(v[k].values)).tobytes()) for k in v.coords},
                   attrs=repr(sorted((str(k), repr(x)) for k, x in v.attrs.items())))
        if d.dtype.kind == "f" and d.size:
            out["nan"] = int(np.isnan(d).sum())
        return out
    if isinstance(v, xr.Dataset):
        return dict(t="Dataset", vars={k: canon(v[k]) for k in v.data_vars})
    if isinstance(v, np.ndarray):
        return dict(t="ndarray", dtype=str(v.dtype), shape=list(v.shape), bytes=h_bytes(np.ascontiguousarray(v).tobytes()))
    if type(v).__module__.startswith("dask"):
        return dict(t="dask:" + type(v).__name__, v=canon(v.compute()))
    if pd is not None and isinstance(v, pd.DataFrame):
        return dict(t="DataFrame", columns=[str(c) for c in v.columns], index=canon(np.asarray(v.index)),
                    cols={str(c): canon(np.asarray(v[c].values)) for c in v.columns})
    if isinstance(v, (list, tuple)):
        if len(v) > 64:
            return dict(t="seq", n=len(v), h=h_bytes(json.dumps([canon(x) for x in v], sort_keys=True, default=str).encode()))
        return [canon(x) for x in v]
    if isinstance(v, dict):
        return {str(k): canon(x) for k, x in v.items()}
    return dict(t=type(v).__name__, r=re.sub(r"0x[0-9a-f]+", "0x", repr(v))[:200])


def arg_state(args, kw):
    """digest of the arguments after the call (in-place effects are part of what a call 'returns')"""
    out = {}
    for i, a in enumerate(list(args) + [kw[k] for k in sorted(kw)]):
        import xarray as xr
        if isinstance(a, (xr.DataArray, xr.Dataset)):
            c = canon(a)
            out[str(i)] = c
    return out


def run_one(fn, args, kw):
    t0 = time.time()
    try:
        f = resolve(fn)
        res = f(*args, **kw)
        c = dict(ok=canon(res))
    except Exception as ex:  # noqa: BLE001 -- an exception is a result too
        res = None
        c = dict(err=type(ex).__name__, msg=re.sub(r"0x[0-9a-f]+", "0x", str(ex))[:160])
    c["args_after"] = arg_state(args, kw)
    return res, c, time.time() - t0


# ---- the shared cells the harness can observe -------------------------------------------------------
def _digest_obj(o, depth=0):
    np = _np()
    if isinstance(o, dict):
        return "{" + ",".join(f"{k!r}:{_digest_obj(o[k], depth + 1)}" for k in sorted(o, key=repr)) + "}"
    if isinstance(o, (list, tuple, set, frozenset)):
        xs = list(o) if not isinstance(o, (set, frozenset)) else sorted(o, key=repr)
        return "[" + ",".join(_digest_obj(x, depth + 1) for x in xs) + "]"
    if isinstance(o, np.ndarray):
        return "nd:" + h_bytes(np.ascontiguousarray(o).tobytes())
    if callable(o):
        return f"fn@{id(o)}"
    if isinstance(o, float) and o != o:
        return "nan"
    return repr(o)[:80]


def footprint(facts):
    """cell name -> digest, for every shared cell the generated facts know + module-level rebinding"""
    import importlib
    import random
    np = _np()
    fp = {"rng": h_bytes(pickle.dumps(np.random.get_state())), "glob:random": h_bytes(pickle.dumps(random.getstate()))}
    for t in facts["tables"]:
        mod, nm = t.rsplit(".", 1)
        try:
            m = importlib.import_module("xrspatial." + mod)
            fp["table:" + t] = _digest_obj(getattr(m, nm))
        except Exception:  # noqa: BLE001
            pass
    for dname in facts["defaults"]:
        fid, param = dname.rsplit(".", 1)
        mod, fn = fid.rsplit(".", 1)
        try:
            f = getattr(importlib.import_module("xrspatial." + mod), fn)
            import inspect
            fp["dflt:" + dname] = _digest_obj(inspect.signature(f).parameters[param].default)
        except Exception:  # noqa: BLE001
            pass
    for mod in facts["modules"]:
        try:
            m = importlib.import_module("xrspatial." + mod if mod else "xrspatial")
        except Exception:  # noqa: BLE001
            continue
        items = []
        for k, v in sorted(vars(m).items()):
            if k.startswith("__") or isinstance(v, type(os)) or isinstance(v, type):
                continue
            if callable(v):
                items.append(f"{k}=fn@{id(v)}")
            elif isinstance(v, (int, float, str, bool, tuple, type(None))):
                items.append(f"{k}={v!r}"[:60])
            else:
                items.append(f"{k}@{id(v)}")
        fp["mod:" + mod] = h_bytes("|".join(items).encode())
    return fp


def scribble(res, args, kw, k):
    """a caller doing what callers do: overwrite the returned buffer, grow the lists it passed in"""
    import xarray as xr
    np = _np()
    try:
        if isinstance(res, xr.DataArray) and isinstance(res.data, np.ndarray) and res.data.flags.writeable:
            res.data[...] = 7 if res.dtype.kind != "f" else -12345.5
        elif isinstance(res, np.ndarray) and res.flags.writeable:
            res[...] = 3
    except Exception:  # noqa: BLE001
        pass
    for v in list(kw.values()) + list(args):
        if isinstance(v, list):
            v.append(k + 90)


def worker_session(job):
    """execute a history in this process; job = dict(history, pool, facts, snapdir, tag)"""
    import dask
    n = job["threads"]
    if n <= 1:
        dask.config.set(scheduler="synchronous")
    else:
        dask.config.set(scheduler="threads", num_workers=n)
    np = _np()
    pool = {}
    out = []
    facts = job["facts"]
    for i, spec in enumerate(job["history"]):
        fn = spec["fn"]
        if fn == "user.np_random":
            if spec["kw"].get("seed") is not None:
                np.random.seed(spec["kw"]["seed"])
            np.random.rand(spec["kw"].get("n", 3))
            if spec["kw"].get("py"):
                import random
                random.random()
            out.append(dict(i=i, fn=fn, perturber=True))
            continue
        args = []
        for a in spec["args"]:
            if isinstance(a, dict) and "ref" in a:
                if a["ref"] not in pool:
                    pool[a["ref"]] = build_da(gen_fields(job["pool"][a["ref"]]))
                args.append(pool[a["ref"]])
            elif isinstance(a, dict) and "gen" in a:
                args.append(build_da(gen_fields(a["gen"])))
            elif isinstance(a, dict) and "dataset" in a:
                import xarray as xr
                args.append(xr.Dataset({k: build_da(gen_fields(g)) for k, g in a["dataset"].items()}))
            else:
                args.append(unjson(a))
        kw = {k: unjson(v) for k, v in spec["kw"].items()}
        snap = os.path.join(job["snapdir"], f"{job['tag']}-{i}.pkl")
        if job.get("write_snaps", True):
            with open(snap, "wb") as fh:
                pickle.dump(dict(fn=fn, args=[enc(a) for a in args], kw={k: enc(v) for k, v in kw.items()}), fh)
        before = footprint(facts)
        res, c, dt = run_one(fn, args, kw)
        after = footprint(facts)
        dirty = sorted(k for k in after if after[k] != before.get(k))
        if spec.get("scribble"):
            scribble(res, args, kw, i)
        out.append(dict(i=i, fn=fn, canon=c, dirty=dirty, snap=snap, dt=round(dt, 3)))
    return out


def worker_fresh(job):
    import dask
    dask.config.set(scheduler="synchronous")
    with open(job["snap"], "rb") as fh:
        s = pickle.load(fh)
    args = [dec(a) for a in s["args"]]
    kw = {k: dec(v) for k, v in s["kw"].items()}
    res, c, dt = run_one(s["fn"], args, kw)
    return dict(canon=c, dt=round(dt, 3))


def worker_main(argv):
    mode, inp, outp = argv
    job = json.load(open(inp))
    import warnings
    warnings.filterwarnings("ignore")
    res = worker_session(job) if mode == "session" else worker_fresh(job)
    with open(outp, "w") as fh:
        json.dump(res, fh, default=str)


# ================================================================================================
#                                   check side
# ================================================================================================
def spawn(mode, job, threads, tmp, label, timeout=1500):
    inp = os.path.join(tmp, f"{label}.in.json")
    outp = os.path.join(tmp, f"{label}.out.json")
    with open(inp, "w") as fh:
        json.dump(job, fh)
    env = dict(os.environ)
    env["NUMBA_NUM_THREADS"] = str(max(1, threads))
    env["OMP_NUM_THREADS"] = env["MKL_NUM_THREADS"] = env["OPENBLAS_NUM_THREADS"] = "1"
    env["PYTHONHASHSEED"] = env.get("PYTHONHASHSEED", "random")
    env["PYTHONPATH"] = os.pathsep.join([p for p in [os.environ.get("XRS_REPO"), HERE, env.get("PYTHONPATH")] if p])
    env.pop("NUMBA_CACHE_DIR", None)
    p = subprocess.run([sys.executable, os.path.abspath(__file__), mode, inp, outp], env=env, stdout=subprocess.PIPE,
                       stderr=subprocess.PIPE, text=True, timeout=timeout, cwd=tmp)
    if p.returncode != 0 or not os.path.exists(outp):
        from common import Infra
        raise Infra(f"worker {label} failed rc={p.returncode}: {p.stderr[-1500:]}")
    return json.load(open(outp))


def facts():
    from common import LEAN
    rep = json.load(open(os.path.join(LEAN, "XrsVerif", "Gen", "report.json")))["facts:Effects.lean"]
    return dict(tables=rep["tables"], defaults=rep["defaults"], modules=rep["modules"]), rep


# ---- generators of call specs ---------------------------------------------------------------------
def g_raster(rng, kind, big=False, dtype=None, dask_ok=True, nan_ok=True, square=False):
    h = rng.choice([5, 6, 8, 11] if not big else [24, 33, 40])
    w = h if square else rng.choice([5, 7, 9, 12] if not big else [24, 31, 48])
    g = dict(kind=kind, h=h, w=w, seed=rng.randrange(10 ** 6),
             dtype=dtype or rng.choice(["float64", "float32", "float64", "int32", "int64"]))
    if kind in ("zones",):
        g["dtype"] = rng.choice(["int64", "int32"])
    if nan_ok and g["dtype"].startswith("float") and rng.random() < 0.4:
        g["nan"] = rng.randrange(1, 4)
    if rng.random() < 0.3:
        g["sx"], g["sy"] = rng.choice([(0.5, 0.5), (2.0, 1.0), (1.0, 3.0), (0.25, 0.5)])
    if dask_ok and rng.random() < 0.35:
        ch = rng.choice([2, 3, 4] if not big else [8, 16])
        cw = rng.choice([3, 4, 5] if not big else [8, 16])
        g["chunks"] = [split(h, ch), split(w, cw)]
    return g


def split(n, c):
    out = [c] * (n // c)
    if n % c:
        out.append(n % c)
    return out


def ras(rng, pool, kind, **kwargs):
    """an argument: a shared object of the pool (a later call sees what earlier calls did to it) or a new one"""
    def fits(g):
        if g["kind"] != kind:
            return False
        if kwargs.get("dask_ok") is False and g.get("chunks"):
            return False
        if kwargs.get("nan_ok") is False and g.get("nan"):
            return False
        if kwargs.get("dtype") and g["dtype"] != kwargs["dtype"]:
            return False
        if named and not g.get("name"):
            return False
        return bool(kwargs.get("big")) == (g["h"] >= 20)
    named = kwargs.pop("named", False)
    names = [k for k, g in pool.items() if fits(g)]
    if names and rng.random() < 0.5:
        return {"ref": rng.choice(names)}
    g = g_raster(rng, kind, **kwargs)
    if named:
        g["name"] = "terrain"
    if rng.random() < 0.6 and len(pool) < 6:
        nm = f"r{len(pool)}"
        pool[nm] = g
        return {"ref": nm}
    return {"gen": g}


def same_shape(rng, pool, first, kind, **kw):
    g0 = pool[first["ref"]] if "ref" in first else first["gen"]
    g = dict(g_raster(rng, kind, **kw), h=g0["h"], w=g0["w"])
    for k in ("sx", "sy"):
        if k in g0:
            g[k] = g0[k]
        else:
            g.pop(k, None)
    if g0.get("chunks"):
        g["chunks"] = g0["chunks"]
    else:
        g.pop("chunks", None)
    return {"gen": g}


def c_proximity(rng, pool):
    fn = rng.choice(["proximity.proximity", "proximity.proximity", "proximity.allocation", "proximity.direction"])
    kw = {}
    if rng.random() < 0.75:
        kw["target_values"] = rng.choice([[1], [2, 3], [1, 2, 3, 4], [4], [], [3.0]])
    if rng.random() < 0.6:
        kw["max_distance"] = rng.choice(["inf", 2, 3.5, 10, 0.5, 1.0, 100.0])
    if rng.random() < 0.5:
        kw["distance_metric"] = rng.choice(["EUCLIDEAN", "MANHATTAN", "GREAT_CIRCLE"])
    return dict(fn=fn, args=[ras(rng, pool, "targets")], kw=kw)


def c_focal(rng, pool):
    which = rng.choice(["mean", "apply", "focal_stats", "hotspots", "convolution_2d"])
    kern = rng.choice([[[1, 1, 1], [1, 1, 1], [1, 1, 1]], [[0, 1, 0], [1, 1, 1], [0, 1, 0]], [[1, 0, 1], [0, 1, 0], [1, 0, 1]],
                       [[1, 1, 1, 1, 1]], [[1], [1], [1]], [[0, 1, 1], [0, 0, 1], [1, 0, 0]],
                       [[1, 1, 1, 1, 1], [1, 0, 0, 0, 1], [1, 1, 1, 1, 1]]])
    if which == "mean":
        kw = {"passes": rng.choice([1, 1, 2, 3])}
        if rng.random() < 0.5:
            kw["excludes"] = rng.choice([["nan"], ["nan", 0.0], [1.0], ["nan", 2.5, 3.0]])
        return dict(fn="focal.mean", args=[ras(rng, pool, "elev")], kw=kw)
    if which == "apply":
        kw = {"kernel": {"__arr__": kern}}
        if rng.random() < 0.7:
            kw["func"] = {"__fn__": rng.choice(["focal._calc_mean", "focal._calc_sum", "focal._calc_max", "focal._calc_std",
                                                "focal._calc_range"])}
        return dict(fn="focal.apply", args=[ras(rng, pool, "elev", big=rng.random() < 0.3)], kw=kw)
    if which == "focal_stats":
        kw = {"kernel": {"__arr__": kern}}
        if rng.random() < 0.5:
            kw["stats_funcs"] = rng.choice([["mean"], ["max", "min"], ["sum", "std", "var"], ["range", "mean"]])
        return dict(fn="focal.focal_stats", args=[ras(rng, pool, "elev")], kw=kw)
    if which == "hotspots":
        return dict(fn="focal.hotspots", args=[ras(rng, pool, "elev")], kw={"kernel": {"__arr__": kern}})
    k2 = [[float(v) * rng.choice([1.0, 0.5, 0.25]) for v in row] for row in kern]
    return dict(fn="convolution.convolution_2d", args=[ras(rng, pool, "elev")], kw={"kernel": {"__arr__": k2}})


def c_zonal(rng, pool):
    which = rng.choice(["stats", "stats", "crosstab", "regions", "trim", "crop", "apply"])
    if which in ("stats", "crosstab", "crop", "apply"):
        z = ras(rng, pool, "zones", nan_ok=False, dask_ok=(which in ("stats", "crosstab")))
        if which == "stats":
            v = same_shape(rng, pool, z, "elev")
            kw = {}
            if rng.random() < 0.5:
                kw["zone_ids"] = rng.choice([[1], [0, 2], [4, 1, 3], [0, 1, 2, 3, 4]])
            if rng.random() < 0.6:
                kw["stats_funcs"] = rng.choice([["mean"], ["max", "min", "count"], ["sum", "std", "var"], ["count"],
                                                {"__statsdict__": ["zmax", "zrange"]}, {"__statsdict__": ["zsum"]}])
                zg = pool[z["ref"]] if "ref" in z else z["gen"]
                if isinstance(kw["stats_funcs"], dict) and zg.get("chunks"):
                    kw["stats_funcs"] = ["mean", "count"]
            if rng.random() < 0.3:
                kw["nodata_values"] = rng.choice([0, 3])
            if rng.random() < 0.25:
                kw["return_type"] = "xarray.DataArray"
            return dict(fn="zonal.stats", args=[z, v], kw=kw)
        if which == "crosstab":
            v = same_shape(rng, pool, z, "cats", nan_ok=False)
            kw = {}
            if rng.random() < 0.4:
                kw["zone_ids"] = rng.choice([[1], [0, 2], [1, 3, 4]])
            if rng.random() < 0.4:
                kw["cat_ids"] = rng.choice([[0], [1, 2], [0, 3]])
            if rng.random() < 0.4:
                kw["agg"] = rng.choice(["count", "percentage"])
            return dict(fn="zonal.crosstab", args=[z, v], kw=kw)
        if which == "crop":
            v = same_shape(rng, pool, z, "elev", dask_ok=False)
            return dict(fn="zonal.crop", args=[z, v], kw={"zones_ids": rng.choice([[1], [2, 3], [4]])})
        v = same_shape(rng, pool, z, "elev", dask_ok=False, nan_ok=False, dtype="float64")
        return dict(fn="zonal.apply", args=[z, v, {"__fn__": "corr._double"}], kw={"nodata": rng.choice([0, 1, 2])})
    if which == "regions":
        return dict(fn="zonal.regions", args=[ras(rng, pool, "blobs", dask_ok=False)], kw={"neighborhood": rng.choice([4, 8])})
    vals = rng.choice([{"__tuple__": ["nan"]}, {"__tuple__": [0]}, {"__tuple__": [0.0, "nan"]}, [1]])
    return dict(fn="zonal.trim", args=[ras(rng, pool, "blobs", dask_ok=False)], kw={"values": vals})


def c_generators(rng, pool):
    if rng.random() < 0.5:
        kw = {"seed": rng.choice([1, 5, 5, 7, 12345])}
        if rng.random() < 0.6:
            kw["freq"] = {"__tuple__": rng.choice([[1, 1], [2, 3], [5, 1], [0.5, 4]])}
        return dict(fn="perlin.perlin", args=[ras(rng, pool, "elev", dtype=rng.choice(["float64", "float32"]), nan_ok=False)], kw=kw)
    kw = {"seed": rng.choice([1, 10, 10, 3, 99])}
    if rng.random() < 0.5:
        kw["x_range"] = {"__tuple__": rng.choice([[0, 500], [-20, 20], [100, 300]])}
        kw["y_range"] = {"__tuple__": rng.choice([[0, 500], [-10, 30]])}
    if rng.random() < 0.4:
        kw["zfactor"] = rng.choice([4000, 10, 1])
    return dict(fn="terrain.generate_terrain", args=[ras(rng, pool, "elev", dtype=rng.choice(["float64", "float32"]), nan_ok=False)], kw=kw)


def c_classify(rng, pool):
    which = rng.choice(["binary", "reclassify", "quantile", "natural_breaks", "equal_interval"])
    r = ras(rng, pool, "elev")
    if which == "binary":
        return dict(fn="classify.binary", args=[r], kw={"values": rng.choice([[1, 2, 3], [0.25, 5.0], [7]])})
    if which == "reclassify":
        b = rng.choice([[2, 5, 9, 20], [1, 3], [0, 4, 8, 12, 100]])
        return dict(fn="classify.reclassify", args=[r], kw={"bins": b, "new_values": [i * 10 for i in range(len(b))]})
    if which == "natural_breaks":
        kw = {"k": rng.choice([2, 3, 5])}
        if rng.random() < 0.5:
            kw["num_sample"] = rng.choice([10, 20, 50])
        return dict(fn="classify.natural_breaks", args=[ras(rng, pool, "elev", dask_ok=False)], kw=kw)
    return dict(fn="classify." + which, args=[r], kw={"k": rng.choice([2, 3, 4, 6])})


def c_surface(rng, pool):
    which = rng.choice(["slope", "aspect", "curvature", "hillshade", "summarize"])
    r = ras(rng, pool, "elev")
    if which == "hillshade":
        kw = {}
        if rng.random() < 0.6:
            kw["azimuth"] = rng.choice([225, 0, 90, 315])
            kw["angle_altitude"] = rng.choice([25, 45, 80])
        return dict(fn="hillshade.hillshade", args=[r], kw=kw)
    if which == "summarize":
        return dict(fn="analytics.summarize_terrain", args=[ras(rng, pool, "elev", dask_ok=False, nan_ok=False, named=True)], kw={})
    return dict(fn=f"{which}.{which}", args=[r], kw={})


def c_spectral(rng, pool):
    a = ras(rng, pool, "band")
    b = same_shape(rng, pool, a, "band")
    which = rng.choice(["ndvi", "savi", "evi", "true_color"])
    if which == "ndvi":
        return dict(fn="multispectral.ndvi", args=[a, b], kw={})
    if which == "savi":
        return dict(fn="multispectral.savi", args=[a, b], kw={"soil_factor": rng.choice([1.0, 0.5, 0.0, -0.5])})
    c = same_shape(rng, pool, a, "band")
    if which == "evi":
        return dict(fn="multispectral.evi", args=[a, b, c], kw={"gain": rng.choice([2.5, 1.0]), "soil_factor": rng.choice([1.0, 0.5])})
    return dict(fn="multispectral.true_color", args=[a, b, c], kw={"nodata": rng.choice([1, 0, 5])})


def c_path(rng, pool):
    r = ras(rng, pool, "elev", dask_ok=False)
    g = pool[r["ref"]] if "ref" in r else r["gen"]
    sx, sy = g.get("sx", 1.0), g.get("sy", 1.0)
    pt = lambda: [rng.randrange(g["h"]) * sy, rng.randrange(g["w"]) * sx]  # noqa: E731
    kw = {"connectivity": rng.choice([4, 8])}
    if rng.random() < 0.5:
        kw["barriers"] = rng.choice([[0], [1.0, 2.0], [5.25], []])
    if rng.random() < 0.4:
        kw["snap_start"] = True
        kw["snap_goal"] = rng.choice([True, False])
    return dict(fn="pathfinding.a_star_search", args=[r, {"__tuple__": pt()}, {"__tuple__": pt()}], kw=kw)


def c_polygonize(rng, pool):
    r = ras(rng, pool, "blobs", dask_ok=False, dtype=rng.choice(["int32", "int64", "float64", "float32"]), nan_ok=False)
    kw = {"connectivity": rng.choice([4, 8])}
    return dict(fn="experimental.polygonize.polygonize", args=[r], kw=kw)


def c_viewshed(rng, pool):
    r = ras(rng, pool, "elev", dask_ok=False, nan_ok=False)
    g = pool[r["ref"]] if "ref" in r else r["gen"]
    sx, sy = g.get("sx", 1.0), g.get("sy", 1.0)
    kw = {"x": rng.randrange(g["w"]) * sx, "y": rng.randrange(g["h"]) * sy, "observer_elev": rng.choice([0, 1, 5.5, 20])}
    if rng.random() < 0.4:
        kw["target_elev"] = rng.choice([0, 2, 10])
    return dict(fn="viewshed.viewshed", args=[r], kw=kw)


def c_local(rng, pool):
    h, w = rng.choice([3, 5]), rng.choice([4, 6])
    ds = {k: dict(kind="cats", h=h, w=w, seed=rng.randrange(10 ** 6), dtype="float64") for k in ("a", "b", "c")}
    which = rng.choice(["cell_stats", "combine", "popularity", "equal_frequency"])
    if which == "cell_stats":
        return dict(fn="local.cell_stats", args=[{"dataset": ds}], kw={"func": rng.choice(["sum", "max", "mean", "median", "std", "min"])})
    if which == "combine":
        return dict(fn="local.combine", args=[{"dataset": ds}], kw={})
    return dict(fn="local." + which, args=[{"dataset": ds}, "a"], kw={})


def c_bump(rng, pool):
    kw = {"count": rng.choice([3, 10, 50]), "spread": rng.choice([1, 2, 3])}
    return dict(fn="bump.bump", args=[rng.choice([20, 40]), rng.choice([15, 30])], kw=kw, perturber=True)


def c_user(rng, pool):
    return dict(fn="user.np_random", args=[], kw={"seed": rng.choice([None, None, 0, 5, 10, 12345]), "n": rng.randrange(1, 50),
                                                   "py": rng.random() < 0.3}, perturber=True)


FAMILIES = {
    "proximity": (c_proximity, 3.0), "focal": (c_focal, 3.0), "zonal": (c_zonal, 3.0), "generators": (c_generators, 3.0),
    "classify": (c_classify, 1.5), "surface": (c_surface, 1.0), "spectral": (c_spectral, 1.0), "path": (c_path, 1.0),
    "polygonize": (c_polygonize, 1.5), "local": (c_local, 0.7), "viewshed": (c_viewshed, 0.25),
}
PERTURBERS = {"bump": (c_bump, 1.0), "user": (c_user, 1.0)}

FAMILY_OF_MODULE = {"proximity": "proximity", "focal": "focal", "convolution": "focal", "zonal": "zonal", "perlin": "generators",
                    "terrain": "generators", "classify": "classify", "slope": "surface", "aspect": "surface",
                    "curvature": "surface", "hillshade": "surface", "analytics": "surface", "multispectral": "spectral",
                    "pathfinding": "path", "experimental.polygonize": "polygonize", "local": "local", "viewshed": "viewshed",
                    "utils": "zonal", "bump": "generators"}


def wchoice(rng, table):
    tot = sum(w for _, w in table.values())
    x = rng.random() * tot
    for k, (f, w) in table.items():
        x -= w
        if x <= 0:
            return k, f
    return k, f


def family_of(fn):
    for k in sorted(FAMILY_OF_MODULE, key=len, reverse=True):
        if fn.startswith(k + "."):
            return FAMILY_OF_MODULE[k]
    return None


_SIG = {}


def optional_params(fn):
    """parameters of the real function that have a default (resolved in the check process)"""
    if fn not in _SIG:
        try:
            import inspect
            f = resolve(fn)
            f = getattr(f, "py_func", f)
            _SIG[fn] = {k for k, p in inspect.signature(f).parameters.items() if p.default is not inspect.Parameter.empty}
        except Exception:  # noqa: BLE001
            _SIG[fn] = set()
    return _SIG[fn]


def gen_call_of(rng, pool, fn, tries=80):
    """a call of exactly `fn` (rejection sampling over its family's generator)"""
    fam = family_of(fn)
    if fam not in FAMILIES:
        return None
    for _ in range(tries):
        p2 = dict(pool)
        spec = FAMILIES[fam][0](rng, p2)
        if spec["fn"] == fn:
            pool.update(p2)
            return spec
    return None


def gen_targeted_history(rng, n, fn):
    """a history that hammers one function: varied parameters, many calls that rely on the defaults, few shared rasters"""
    pool, hist = {}, []
    opt = optional_params(fn)
    while len(hist) < n:
        u = rng.random()
        if u < 0.12:
            _, f = wchoice(rng, PERTURBERS)
            hist.append(f(rng, pool))
            continue
        if u < 0.25:
            k, (f, _) = rng.choice(sorted(FAMILIES.items()))
            if k != "viewshed":
                hist.append(f(rng, pool))
                continue
        spec = gen_call_of(rng, pool, fn)
        if spec is None:
            return None
        if rng.random() < 0.6:       # rely on the defaults
            for k in list(spec["kw"]):
                if k in opt and rng.random() < 0.7:
                    del spec["kw"][k]
        if rng.random() < 0.3:
            spec["scribble"] = True
        hist.append(spec)
    return dict(history=hist, pool=pool)


def gen_history(rng, max_len, focus=None, allow_viewshed=True, must=None):
    n = rng.randrange(max(4, max_len // 2), max_len + 1)
    pool, hist = {}, []
    fams = dict(FAMILIES)
    if not allow_viewshed:
        fams.pop("viewshed")
    # a history concentrates on two or three families (that is where parameter-dependent staleness shows)
    chosen = rng.sample(sorted(fams), k=min(len(fams), rng.choice([2, 3, 3, 4])))
    if must:
        chosen = list(dict.fromkeys([m for m in must if m in fams] + chosen))[:max(4, len(must))]
    if focus:
        chosen = list(dict.fromkeys([f for f in focus if f in FAMILIES] + chosen))[:max(3, len(focus))]
    table = {k: (fams.get(k, FAMILIES[k])[0], FAMILIES[k][1] * (3.0 if focus and k in focus else 1.0)) for k in chosen}
    while len(hist) < n:
        u = rng.random()
        if u < 0.22:
            _, f = wchoice(rng, PERTURBERS)
            spec = f(rng, pool)
        elif u < 0.34 and any(not h.get("perturber") for h in hist):
            spec = copy.deepcopy(rng.choice([h for h in hist if not h.get("perturber")]))   # repeat a call verbatim
            spec["repeat"] = True
        else:
            _, f = wchoice(rng, table)
            spec = f(rng, pool)
        if not spec.get("perturber") and rng.random() < 0.3:
            spec["scribble"] = True
        hist.append(spec)
    return dict(history=hist, pool=pool)


# ---- running ----------------------------------------------------------------------------------------
class Locked:
    """the Runner is filled from several orchestration threads"""
    def __init__(self, r):
        import threading
        self._r, self._lock = r, threading.Lock()

    def __getattr__(self, name):
        v = getattr(self._r, name)
        if callable(v) and name in ("case", "tag", "disagree", "fail"):
            def locked(*a, **k):
                with self._lock:
                    return v(*a, **k)
            return locked
        return v


class Lab:
    def __init__(self, r):
        self.r = r if isinstance(r, Locked) else Locked(r)
        self.facts, self.rep = facts()
        self.tmp = tempfile.mkdtemp(prefix="c11-")
        self.ex = ThreadPoolExecutor(max_workers=MAX_PROCS)      # one slot per worker subprocess
        self.orch = ThreadPoolExecutor(max_workers=48)           # threads that only wait for subprocesses
        self.fresh_cache = {}
        self.reported = set()
        self.n = 0

    def session(self, h, threads, tag, write_snaps=True):
        job = dict(history=h["history"], pool=h["pool"], facts=self.facts, snapdir=self.tmp, tag=tag, threads=threads,
                   write_snaps=write_snaps)
        return self.ex.submit(spawn, "session", job, threads, self.tmp, f"s-{tag}-t{threads}")

    def fresh(self, snap):
        key = h_bytes(open(snap, "rb").read())
        if key not in self.fresh_cache:
            self.n += 1
            self.fresh_cache[key] = self.ex.submit(spawn, "fresh", dict(snap=snap), 1, self.tmp, f"f-{self.n}")
        return self.fresh_cache[key]

    def close(self):
        self.orch.shutdown(wait=False, cancel_futures=True)
        self.ex.shutdown(wait=False, cancel_futures=True)
        import shutil
        shutil.rmtree(self.tmp, ignore_errors=True)


def model_footprints(fns):
    from common import Driver
    fns = sorted(fns)
    rep = Driver().ask([f"effects fn={f}" for f in fns])
    out = {}
    for f, line in zip(fns, rep):
        d = dict(kv.split("=", 1) for kv in line.split() if "=" in kv)
        out[f] = d if "writes" in d else None
    return out


def seed_of(spec):
    s = spec["kw"].get("seed")
    return s if isinstance(s, int) else 0


DASK_KEY = re.compile(r"^[A-Za-z_][\w.]*-[0-9a-f]{32}$")


def diff_canon(a, b):
    if a == b:
        return None
    if isinstance(a, dict) and isinstance(b, dict):
        for k in sorted(set(a) | set(b)):
            if a.get(k) != b.get(k):
                d = diff_canon(a.get(k), b.get(k))
                return f"{k}: {d}" if d else f"{k}"
    return f"{json.dumps(a, default=str)[:140]} != {json.dumps(b, default=str)[:140]}"


def strip_dask_names(c):
    """the same canon with every name that is a dask graph key (`func-<32 hex>`) replaced by a constant"""
    if isinstance(c, dict):
        return {k: ("<dask-key>" if k == "name" and isinstance(v, str) and DASK_KEY.match(v) else strip_dask_names(v))
                for k, v in c.items()}
    if isinstance(c, list):
        return [strip_dask_names(x) for x in c]
    return c


def classify_diff(got, fr):
    """None | ('history', what) | ('dask-key-name', what): a result whose only difference is that its
    `.name` is a (different) dask graph key is its own finding class, so it cannot mask a value difference"""
    d = diff_canon(got, fr)
    if d is None:
        return None
    if diff_canon(strip_dask_names(got), strip_dask_names(fr)) is None:
        return ("dask-key-name", "only the result's .name differs, and it is a dask graph key: " + d)
    return ("history", d)


def check_history(lab, h, tag, configs, stream="history"):
    """run one history under every thread config + fresh runs; returns list of failure dicts"""
    r = lab.r
    sess = {t: lab.session(h, t, f"{tag}", write_snaps=(t == configs[0])) for t in configs[:1]}
    first = sess[configs[0]].result()
    for t in configs[1:]:
        sess[t] = lab.session(h, t, f"{tag}", write_snaps=False)
    fresh = {}
    for rec in first:
        if not rec.get("perturber") and h["history"][rec["i"]].get("perturber") is not True:
            fresh[rec["i"]] = lab.fresh(rec["snap"])
    results = {t: (first if t == configs[0] else sess[t].result()) for t in configs}
    fails = []
    subj = [rec for rec in first if rec["i"] in fresh]
    model = model_footprints({rec["fn"] for rec in first if rec["fn"] != "user.np_random"})
    # ---- property oracle: every call, every thread count, against the fresh process
    for rec in subj:
        i = rec["i"]
        fr = fresh[i].result()["canon"]
        spec = h["history"][i]
        for t in configs:
            got = results[t][i]["canon"]
            key = dict(fn=rec["fn"], kw=spec["kw"], args=spec["args"], i=i, tag=tag)
            r.case(key, desc=dict(fn=rec["fn"], kw=spec["kw"], pos=i, threads=t) if i == 1 and t == configs[0] else None,
                   nontrivial=(i > 0), tags=[f"fn:{rec['fn']}", f"threads:{t}", "status:" + ("ok" if "ok" in fr else fr.get("err", "?")),
                                             "pos:" + ("0" if i == 0 else "1-5" if i < 6 else "6-20" if i < 21 else "21+")])
            d = classify_diff(got, fr)
            if d:
                fails.append(dict(kind=d[0], fn=rec["fn"], i=i, threads=t, what=d[1]))
    # ---- a repeated call repeats its result (when its argument snapshot is the same)
    seen = {}
    for rec in subj:
        k = h_bytes(open(rec["snap"], "rb").read())
        if k in seen:
            r.tag("repeated-calls")
            d = classify_diff(results[configs[0]][seen[k]]["canon"], rec["canon"])
            if d:
                fails.append(dict(kind="repeat" if d[0] == "history" else "dask-key-name", fn=rec["fn"], i=rec["i"], threads=configs[0],
                                  repeat_of=seen[k], what=f"call {seen[k]} repeated at {rec['i']}: {d[1]}"))
        else:
            seen[k] = rec["i"]
    # ---- model vs code: the cells that really changed are cells the summary writes
    for rec in first:
        if rec.get("perturber"):
            continue
        m = model.get(rec["fn"])
        if m is None:
            r.disagree("footprint", dict(fn=rec["fn"]), "function ran", "no generated summary of that name")
            continue
        writes = set() if m["writes"] == "-" else set(m["writes"].split(","))
        real = {c for c in rec["dirty"] if not c.startswith("mod:")}
        real |= {"glob:" + c[4:] for c in rec["dirty"] if c.startswith("mod:")}
        for c in sorted(real):
            r.tag("dirty:" + c.split(":")[0])
        extra = {c for c in real if c not in writes and not (c.startswith("glob:") and any(w.startswith(c + ".") or w == c for w in writes))}
        if extra:
            r.disagree("footprint", dict(fn=rec["fn"], kw=h["history"][rec["i"]]["kw"]), f"changed {sorted(extra)}",
                       f"summary writes {sorted(writes)}")
            fails.append(dict(kind="footprint", fn=rec["fn"], i=rec["i"], threads=configs[0],
                              what=f"shared state {sorted(extra)} changed but the summary says it writes {sorted(writes)}", soft=True))
    # ---- model verdict vs observation
    calls = [f"{s['fn']}@{seed_of(s)}" for s in h["history"] if s["fn"] != "user.np_random"]
    idx = [i for i, s in enumerate(h["history"]) if s["fn"] != "user.np_random"]
    if calls:
        from common import Driver
        rep = Driver().ask(["effhist calls=" + ",".join(calls)])[0]
        mm = re.match(r"same=(\S*) dirty=(\S+)", rep)
        if not mm:
            r.disagree("verdict", dict(tag=tag), "history ran", f"driver said {rep[:200]}")
        else:
            flags = mm.group(1).split(",")
            # the history model says nothing about thread races: compare its verdict with the 1-thread session only
            bad_i = {f["i"] for f in fails if f["kind"] == "history" and f["threads"] == configs[0]}
            for pos, flag in zip(idx, flags):
                if pos in fresh:
                    r.tag("model-says-same" if flag == "1" else "model-says-may-differ")
                    if flag == "1" and pos in bad_i:
                        r.disagree("verdict", dict(fn=h["history"][pos]["fn"], pos=pos, tag=tag), "differs from the fresh process",
                                   "model: same as fresh")
    return fails


def report(lab, h, tag, fails, configs):
    """one finding per (kind, function); only the first of each class is shrunk (a shrink costs ~10 sessions)"""
    r = lab.r
    for f in fails:
        if f.get("soft"):
            continue
        key = f"{f['kind']}:{f['fn']}"
        i = f["i"]
        case = dict(kind=f["kind"], index=i, threads=f["threads"], fn=f["fn"],
                    history=dict(history=h["history"][: i + 1], pool=h["pool"]))
        if key not in lab.reported and len(lab.reported) < 3:
            lab.reported.add(key)
            case = shrink(lab, case)
        elif key in lab.reported:
            continue
        lab.reported.add(key)
        r.fail(key, f"{f['fn']} (call {i} of the history, {f['threads']} thread(s)) differs from the same call "
               f"in a fresh process: {f['what']}", case)


def still_fails(lab, case, tag):
    """re-run a (possibly shortened) history; the last call is the subject"""
    h = case["history"]
    t = case["threads"]
    rec = lab.session(h, t, tag).result()
    last = rec[-1]
    want = "dask-key-name" if case["kind"] == "dask-key-name" else "history"
    k = h_bytes(open(last["snap"], "rb").read())
    for e in rec[:-1]:      # an identical earlier call must have given the identical result
        if not e.get("perturber") and e["fn"] == last["fn"] and h_bytes(open(e["snap"], "rb").read()) == k:
            d = classify_diff(e["canon"], last["canon"])
            if d and d[0] == want:
                return True
    if case["kind"] == "repeat":
        return False
    d = classify_diff(last["canon"], lab.fresh(last["snap"]).result()["canon"])
    return bool(d) and d[0] == want


def shrink(lab, case):
    """shorten the history in front of the failing call (best effort, a few parallel tries)"""
    hist = case["history"]["history"]
    if len(hist) <= 2:
        return case
    subj = hist[-1]
    cands = [[subj]] + [[hist[j], subj] for j in range(len(hist) - 2, -1, -1)][:10]
    futs = []
    for k, c in enumerate(cands):
        cc = dict(case, history=dict(history=c, pool=case["history"]["pool"]), index=len(c) - 1)
        futs.append((cc, lab.orch.submit(still_fails, lab, cc, f"shr{lab.n}-{k}-{abs(hash(json.dumps(c, sort_keys=True, default=str))) % 10**6}")))
    for cc, f in futs:
        try:
            if f.result():
                return cc
        except Exception:  # noqa: BLE001
            continue
    return case


# ---- seeded generators: template contents and histories must not matter ------------------------------------
def generator_oracle(r, n):
    import numpy as np
    import xarray as xr
    import dask.array as da
    from xrspatial import generate_terrain, perlin
    rng = r.rng
    for k in range(n):
        h, w = rng.choice([4, 6, 9]), rng.choice([5, 8])
        dtype = rng.choice(["float64", "float32"])
        seed = rng.choice([1, 5, 10, 77])
        which = rng.choice(["perlin", "terrain"])
        backend = rng.choice(["numpy", "numpy", "dask"])
        kinds = ["zeros", "random", "nan", "inf"]
        outs = {}
        for kind in kinds:
            rs = np.random.RandomState(k)
            a = np.zeros((h, w), dtype=dtype)
            if kind == "random":
                a = (rs.rand(h, w) * 100).astype(dtype)
            elif kind == "nan":
                a[rs.randint(h), rs.randint(w)] = np.nan
            elif kind == "inf":
                a[rs.randint(h), rs.randint(w)] = np.inf
            d = da.from_array(a, chunks=(max(1, h // 2), max(1, w // 2))) if backend == "dask" else a
            t = xr.DataArray(d, dims=["y", "x"])
            np.random.seed(rng.randrange(1000))          # whatever the global RNG holds must not matter
            if which == "perlin":
                o = perlin(t, seed=seed, freq=(2, 3))
            else:
                o = generate_terrain(t, seed=seed, x_range=(0, 100), y_range=(0, 50))
            outs[kind] = np.asarray(o.data)
        case = dict(kind="generator", fn=which, h=h, w=w, dtype=dtype, seed=seed, backend=backend, case=k)
        r.case(case, desc=case if k == 0 else None, nontrivial=True, tags=[f"gen:{which}", f"gen-backend:{backend}"])
        for kind in kinds[1:]:
            if outs[kind].tobytes() != outs["zeros"].tobytes():
                r.fail(f"generator:{which}:template-values",
                       f"{which}(seed={seed}) on a {h}x{w} {dtype} {backend} template holding {kind} differs from the same call on a "
                       f"zeros template ({int(np.isnan(outs[kind]).sum())} NaN cells vs {int(np.isnan(outs['zeros']).sum())})",
                       dict(case, template=kind))
                break


def replay_generator(c):
    import numpy as np
    import xarray as xr
    import dask.array as da
    from xrspatial import generate_terrain, perlin
    outs = {}
    for kind in ("zeros", c.get("template", "nan")):
        rs = np.random.RandomState(c.get("case", 0))
        a = np.zeros((c["h"], c["w"]), dtype=c["dtype"])
        if kind == "random":
            a = (rs.rand(c["h"], c["w"]) * 100).astype(c["dtype"])
        elif kind == "nan":
            a[rs.randint(c["h"]), rs.randint(c["w"])] = np.nan
        elif kind == "inf":
            a[rs.randint(c["h"]), rs.randint(c["w"])] = np.inf
        d = da.from_array(a, chunks=(max(1, c["h"] // 2), max(1, c["w"] // 2))) if c["backend"] == "dask" else a
        t = xr.DataArray(d, dims=["y", "x"])
        o = perlin(t, seed=c["seed"], freq=(2, 3)) if c["fn"] == "perlin" else \
            generate_terrain(t, seed=c["seed"], x_range=(0, 100), y_range=(0, 50))
        outs[kind] = np.asarray(o.data)
    ks = list(outs)
    return outs[ks[0]].tobytes() != outs[ks[1]].tobytes()


# ---- entry points -------------------------------------------------------------------------------------------
def suspects(lab):
    """functions whose generated facts no longer satisfy the theorems: where the search should look"""
    rep = lab.rep
    pub = [f for f in rep["public"] if f in rep["functions"]]
    m = model_footprints(pub)
    bad = [f for f, d in m.items() if d and (d["nostale"] == "0" or d["confined"] == "0") and f != "bump.bump"]
    par = [k for k, v in rep["kernels"].items() if v["parallel"] or v["cache"]]
    fams = []
    for f in bad + par:
        mod = f.rsplit(".", 1)[0]
        mod = mod.split("._")[0] if mod not in FAMILY_OF_MODULE else mod
        for k in sorted(FAMILY_OF_MODULE, key=len, reverse=True):
            if f.startswith(k + "."):
                fams.append(FAMILY_OF_MODULE[k])
                break
    return bad, par, list(dict.fromkeys(fams))


def run(r, budget=None, focus=None, histories=None):
    lab = Lab(r)
    try:
        tier = r.tier
        n_hist, max_len, configs = {"quick": (3, 12, THREAD_CONFIGS), "thorough": (8, 60, THREAD_CONFIGS)}[tier]
        if budget:
            n_hist, max_len = budget

        def configs_for(k):
            """every run covers 1, 2, 4 and 16 threads; later histories alternate the middle ones (a session costs a full JIT)"""
            if k == 0 or (tier == "thorough" and k < 3):
                return list(THREAD_CONFIGS)
            return [1, 16] + ([2] if k % 2 else [4]) * (tier == "thorough")
        r.rule = ("history = random sequence of public calls (families proximity/focal/zonal/generators/classify/surface/spectral/"
                  "path/polygonize/local/viewshed; 22% perturbers bump / user np.random; 12% verbatim repeats; 30% caller scribbles "
                  "over results and lists; rasters 5..12 cells wide (24..48 for some focal), float/int dtypes, NaN cells, numpy or dask "
                  "chunked, shared objects reused between calls); every non-perturber call of the session under each of "
                  f"{configs} threads is compared bit-for-bit with the same call on its argument snapshot in a fresh process; "
                  "non-trivial = a call at position >= 1 of its history")
        r.trusted.append("harness/facts_effects.py (Python ast -> Gen/Effects.lean); subprocess isolation of the 'fresh' runs")
        r.assumptions.append("summaries are syntactic: effects reached through dynamic dispatch, C extensions or numba/dask internals "
                             "are invisible to them; iterations of a parallel loop are treated as atomic")
        # corpus first
        for body in r.corpus():
            c = body.get("case", body)
            if c.get("kind") == "generator":
                r.case(dict(corpus=c), nontrivial=True, tags=["corpus"])
                if replay_generator(c):
                    r.fail(f"generator:{c['fn']}:template-values", f"corpus case: {c['fn']} depends on the template's cell values", c)
            elif c.get("history"):
                r.case(dict(corpus=c.get("fn")), nontrivial=True, tags=["corpus"])
                if still_fails(lab, c, f"corpus{lab.n}"):
                    r.fail(f"{c['kind']}:{c['fn']}", "corpus case still fails", c)
        if histories is None:
            generator_oracle(r, {"quick": 6, "thorough": 30}[tier])
            # every run has the seeded generators in its first history; the other families rotate with the seed so
            # that a thorough run (and any few quick seeds) covers all of them
            order = sorted(f for f in FAMILIES if f != "generators")
            off = (r.seed * 2 * n_hist) % len(order)
            order = order[off:] + order[:off]
            per = -(-len(order) // n_hist) if tier == "thorough" else 2
            hs = []
            for k in range(n_hist):
                must = (["generators"] if k == 0 else []) + [order[(k * per + j) % len(order)] for j in range(per)]
                must = [m for m in must if m != "viewshed" or tier == "thorough" or k == 0]
                hs.append(gen_history(r.rng, max_len, focus=focus, allow_viewshed=(tier == "thorough" or k == 0), must=must))
        else:
            hs = histories
        futs = [lab.orch.submit(check_history, lab, h, f"h{k}-{lab.n}", configs_for(k)) for k, h in enumerate(hs)]
        for k, (h, f) in enumerate(zip(hs, futs)):
            fails = f.result()
            r.tag("histories")
            r.tag("history-calls", len(h["history"]))
            report(lab, h, f"h{k}", fails, configs)
        r.extra["fresh_processes"] = lab.n
    finally:
        lab.close()


def search(r):
    """an obligation or the correspondence broke: concentrate histories on the functions whose facts flipped"""
    lab = Lab(r)
    try:
        bad, par, fams = suspects(lab)
        r.notes.append(f"search: summaries no longer noStale/confined: {bad[:8]}; parallel/cached kernels: {par[:8]}; families {fams}")
    finally:
        lab.close()
    generator_oracle(r, 12)
    if r.failures:
        return
    # 1. hammer each suspect function: many calls of it, defaults relied upon, shared rasters
    n = {"quick": 14, "thorough": 30}[r.tier]
    per = {"quick": 2, "thorough": 4}[r.tier]
    targeted = []
    for fn in [f for f in bad if family_of(f) in FAMILIES][:4]:
        for _ in range(per):
            h = gen_targeted_history(r.rng, n, fn)
            if h:
                targeted.append(h)
    if targeted:
        r.tag("targeted-histories", len(targeted))
        run(r, budget=(len(targeted), n), histories=targeted)
        if r.failures:
            return
    # 2. histories concentrated on the suspect families
    for round_ in range({"quick": 1, "thorough": 3}[r.tier]):
        run(r, budget=({"quick": 4, "thorough": 8}[r.tier], {"quick": 14, "thorough": 40}[r.tier]), focus=fams or None)
        if r.failures:
            return


def replay(r, body):
    c = body["case"]
    if c.get("kind") == "generator":
        bad = replay_generator(c)
    else:
        lab = Lab(r)
        try:
            bad = still_fails(lab, c, "replay")
        finally:
            lab.close()
    print("still fails" if bad else "does not fail on the current tree")
    return 1 if bad else 0


if __name__ == "__main__":
    worker_main(sys.argv[1:])
