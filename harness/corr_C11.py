"""
C11 -- results depend only on the arguments, not on earlier calls or thread timing.

Tie:  G  harness/facts_effects.py regenerates Gen/Effects.lean (effect summaries, jit facts, dask task
         functions, argument aspects of the seeded generators) from /repo's current source; the theorems
         of Props/C11.lean are decided against exactly those values.
      H  (a) property oracle = differential histories: random sequences of public calls (<= 12 quick,
         <= 60 thorough) mixing functions, parameters, dtypes and backends are executed in ONE worker
         process ("session"); every call is compared -- bit for bit -- with the same call on a snapshot
         of its arguments in a FRESH process; the session is repeated with NUMBA_NUM_THREADS / dask
         workers in {1,2,4,16}; a repeated call must repeat its result.  Perturbers: bump (draws from the
         unseeded global RNG by contract -- never a subject), user-level np.random use, scribbling over
         returned buffers and passed-in lists.
         (b) model-vs-code: after every call of a session the shared cells that really changed (global
         NumPy RNG state, stdlib RNG, every module-level table, every mutable default, every rebound
         module-level name) must be among the cells the generated summary says the function writes; the
         model's verdict "same as fresh" (driver `effhist`) must agree with what was observed.
         (c) seeded generators: same seed / shape / extent with templates of different *contents* and
         after different histories must give identical bits.

Arguments are snapshotted at call time (viewshed widens its raster's dtype, validate_arrays / dask
proximity rechunk their inputs in place: a later call on the same object is a call with another argument).

Tolerance: none is needed so far -- with a fixed chunking the dask graph (hence the reduction tree) is
fixed, so even dask sums are bit-identical across schedulers; `TOL_STREAMS` names the functions for
which a last-ulp tolerance would be accepted if that ever changes (currently empty).
"""
import copy
import hashlib
import json
import os
import pickle
import re
import subprocess
import sys
import tempfile
import time
from concurrent.futures import ThreadPoolExecutor

HERE = os.path.dirname(os.path.abspath(__file__))
PROP = "C11"
LEAN_TARGETS = ()
THREAD_CONFIGS = [1, 2, 4, 16]
TOL_STREAMS = set()
MAX_PROCS = int(os.environ.get("VERIF_C11_PROCS", "12"))

# ================================================================================================
#                                   worker side (subprocess)
# ================================================================================================


def _np():
    import numpy as np
    return np


def unjson(v):
    """JSON parameter -> python value ("nan"/"inf" strings, {"__fn__":..}, {"__arr__":..}, {"__tuple__":..})"""
    np = _np()
    if isinstance(v, str):
        return {"nan": np.nan, "inf": np.inf, "-inf": -np.inf}.get(v, v)
    if isinstance(v, list):
        return [unjson(x) for x in v]
    if isinstance(v, dict):
        if "__fn__" in v:
            return resolve(v["__fn__"])
        if "__arr__" in v:
            return np.array(unjson(v["__arr__"]), dtype=v.get("dtype", "float64"))
        if "__bytes_of__" in v:      # another array with the same byte image (other dtype / length)
            return np.frombuffer(unjson(v["__bytes_of__"]).tobytes(), dtype=v["dtype"]).copy()
        if "__tuple__" in v:
            return tuple(unjson(x) for x in v["__tuple__"])
        if "__statsdict__" in v:
            return {k: STATS_FUNCS[k] for k in v["__statsdict__"]}
        return {k: unjson(x) for k, x in v.items()}
    return v


def _zmax(z):
    return z.max()


def _zrange(z):
    return z.max() - z.min()


def _zsum(z):
    return z.sum()


STATS_FUNCS = {"zmax": _zmax, "zrange": _zrange, "zsum": _zsum}


def _double(x):
    return x * 2.0


def resolve(name):
    import importlib
    if name.startswith("corr."):
        return globals()[name[5:]]
    mod, fn = name.rsplit(".", 1)
    m = importlib.import_module("xrspatial." + mod)
    return getattr(m, fn)


def gen_fields(g):
    """raster description -> plain fields; uses a LOCAL generator, never the global RNG"""
    np = _np()
    rs = np.random.RandomState(g["seed"])
    h, w, kind = g["h"], g["w"], g["kind"]
    if kind == "targets":
        a = rs.choice([0, 0, 0, 0, 0, 1, 2, 3, 4], size=(h, w)).astype("float64")
    elif kind == "elev":
        base = rs.randint(0, 40, size=(h, w)).astype("float64")
        yy, xx = np.mgrid[0:h, 0:w]
        a = base / 4.0 + (yy * 3 + xx * 2) % 7
    elif kind == "zones":
        a = rs.randint(0, 5, size=(h, w)).astype("int64")
        a[: h // 2, : w // 2] = 1
    elif kind == "cats":
        a = rs.randint(0, 4, size=(h, w)).astype("float64")
    elif kind == "band":
        a = rs.randint(1, 200, size=(h, w)).astype("float64") / 8.0
    elif kind == "blobs":
        a = (rs.randint(0, 3, size=(h, w))).astype("float64")
    else:
        a = np.zeros((h, w))
    a = a.astype(g.get("dtype", "float64"))
    if g.get("nan") and a.dtype.kind == "f":
        for _ in range(int(g["nan"])):
            a[rs.randint(h), rs.randint(w)] = np.nan
    sx, sy = g.get("sx", 1.0), g.get("sy", 1.0)
    ys = np.arange(h, dtype="float64") * sy + g.get("oy", 0.0)
    xs = np.arange(w, dtype="float64") * sx + g.get("ox", 0.0)
    if g.get("ydesc"):
        ys = ys[::-1].copy()
    return dict(data=a, dims=("y", "x"), coords={"y": ys, "x": xs}, attrs={} if g.get("nores") else {"res": (sx, sy)}, name=g.get("name"),
                chunks=tuple(tuple(c) for c in g["chunks"]) if g.get("chunks") else None)


def build_da(f):
    import xarray as xr
    data = f["data"].copy()
    if f.get("chunks"):
        import dask.array as da
        data = da.from_array(data, chunks=f["chunks"])
    return xr.DataArray(data, dims=tuple(f["dims"]), coords={k: v.copy() for k, v in f["coords"].items()},
                        attrs=copy.deepcopy(f["attrs"]), name=f["name"])


def derive(base, d):
    """what a caller does with a raster it already holds: an overview, a window, the same raster in other units.
    All three go through xarray operations that carry the parent's attrs along."""
    ydim, xdim = base.dims[-2], base.dims[-1]
    if d["op"] == "stride":
        return base[::d["sy"], ::d["sx"]]
    if d["op"] == "window":
        return base[d["y0"]:d["y1"], d["x0"]:d["x1"]]
    if d["op"] == "rescale":
        return base.assign_coords({ydim: base[ydim] * d["k"], xdim: base[xdim] * d["k"]})
    raise ValueError(d["op"])


def build_arg(a, jobpool, live):
    """argument description -> object; `live` = the objects the caller of this history holds"""
    if isinstance(a, dict) and "ref" in a:
        if a["ref"] not in live:
            live[a["ref"]] = build_da(gen_fields(jobpool[a["ref"]]))
        return live[a["ref"]]
    if isinstance(a, dict) and "derive" in a:
        return derive(build_arg({"ref": a["derive"]["of"]}, jobpool, live), a["derive"])
    if isinstance(a, dict) and "gen" in a:
        return build_da(gen_fields(a["gen"]))
    if isinstance(a, dict) and "dataset" in a:
        import xarray as xr
        return xr.Dataset({k: build_da(gen_fields(g)) for k, g in a["dataset"].items()})
    return unjson(a)


def has_derived(spec):
    return any(isinstance(a, dict) and "derive" in a for a in spec["args"])


def fields_of(x):
    """snapshot of a DataArray as plain fields"""
    np = _np()
    d = x.data
    chunks = None
    if type(d).__module__.startswith("dask"):
        chunks = tuple(tuple(int(c) for c in cs) for cs in d.chunks)
        d = d.compute(scheduler="synchronous")
    return dict(data=np.array(d, copy=True), dims=tuple(x.dims),
                coords={k: np.array(x[k].values, copy=True) for k in x.dims if k in x.coords},
                attrs=copy.deepcopy(dict(x.attrs)), name=x.name, chunks=chunks)


def enc(v):
    import xarray as xr
    np = _np()
    if isinstance(v, xr.DataArray):
        return {"__da__": fields_of(v)}
    if isinstance(v, xr.Dataset):
        return {"__ds__": {k: fields_of(v[k]) for k in v.data_vars}}
    if isinstance(v, np.ndarray):
        return {"__nd__": v.copy()}
    if isinstance(v, (list, tuple)):
        return {"__seq__": [enc(x) for x in v], "tuple": isinstance(v, tuple)}
    if isinstance(v, dict):
        return {"__map__": {k: enc(x) for k, x in v.items()}}
    if callable(v):
        for k, f in STATS_FUNCS.items():
            if f is v:
                return {"__stat__": k}
        pf = getattr(v, "py_func", v)
        return {"__call__": (pf.__module__, pf.__name__)}
    return {"__v__": v}


def dec(e):
    import xarray as xr
    if "__da__" in e:
        return build_da(e["__da__"])
    if "__ds__" in e:
        return xr.Dataset({k: build_da(f) for k, f in e["__ds__"].items()})
    if "__nd__" in e:
        return e["__nd__"].copy()
    if "__seq__" in e:
        xs = [dec(x) for x in e["__seq__"]]
        return tuple(xs) if e["tuple"] else xs
    if "__map__" in e:
        return {k: dec(x) for k, x in e["__map__"].items()}
    if "__stat__" in e:
        return STATS_FUNCS[e["__stat__"]]
    if "__call__" in e:
        import importlib
        mod, nm = e["__call__"]
        if mod in ("__main__", "corr_C11"):
            return globals()[nm]
        return getattr(importlib.import_module(mod), nm)
    return e["__v__"]


def h_bytes(b):
    return hashlib.sha1(b).hexdigest()[:16]


def canon(v):
    """result -> JSON-able canonical description; arrays by the hash of their bytes"""
    import xarray as xr
    np = _np()
    try:
        import pandas as pd
    except ImportError:
        pd = None
    if v is None or isinstance(v, (bool, int, str)):
        return v
    if isinstance(v, float):
        return repr(v)
    if isinstance(v, np.generic):
        return [str(v.dtype), repr(v.item())]
    if isinstance(v, xr.DataArray):
        d = v.data
        backend = "numpy"
        if type(d).__module__.startswith("dask"):
            backend = "dask:" + repr(tuple(tuple(int(c) for c in cs) for cs in d.chunks))
            d = d.compute()
        d = np.asarray(d)
        out = dict(t="DataArray", dtype=str(d.dtype), shape=list(d.shape), bytes=h_bytes(np.ascontiguousarray(d).tobytes()),
                   dims=list(v.dims), name=v.name, backend=backend,
                   coords={str(k): h_bytes(np.ascontiguousarray(np.asarray(v[k].values)).tobytes()) for k in v.coords},
                   attrs=repr(sorted((str(k), repr(x)) for k, x in v.attrs.items())))
        if d.dtype.kind == "f" and d.size:
            out["nan"] = int(np.isnan(d).sum())
        return out
    if isinstance(v, xr.Dataset):
        return dict(t="Dataset", vars={k: canon(v[k]) for k in v.data_vars})
    if isinstance(v, np.ndarray):
        return dict(t="ndarray", dtype=str(v.dtype), shape=list(v.shape), bytes=h_bytes(np.ascontiguousarray(v).tobytes()))
    if type(v).__module__.startswith("dask"):
        return dict(t="dask:" + type(v).__name__, v=canon(v.compute()))
    if pd is not None and isinstance(v, pd.DataFrame):
        return dict(t="DataFrame", columns=[str(c) for c in v.columns], index=canon(np.asarray(v.index)),
                    cols={str(c): canon(np.asarray(v[c].values)) for c in v.columns})
    if isinstance(v, (list, tuple)):
        if len(v) > 64:
            return dict(t="seq", n=len(v), h=h_bytes(json.dumps([canon(x) for x in v], sort_keys=True, default=str).encode()))
        return [canon(x) for x in v]
    if isinstance(v, dict):
        return {str(k): canon(x) for k, x in v.items()}
    return dict(t=type(v).__name__, r=re.sub(r"0x[0-9a-f]+", "0x", repr(v))[:200])


def arg_state(args, kw):
    """digest of the arguments after the call (in-place effects are part of what a call 'returns')"""
    out = {}
    for i, a in enumerate(list(args) + [kw[k] for k in sorted(kw)]):
        import xarray as xr
        if isinstance(a, (xr.DataArray, xr.Dataset)):
            c = canon(a)
            out[str(i)] = c
    return out


def run_one(fn, args, kw):
    t0 = time.time()
    try:
        f = resolve(fn)
        res = f(*args, **kw)
        c = dict(ok=canon(res))
    except Exception as ex:  # noqa: BLE001 -- an exception is a result too
        res = None
        c = dict(err=type(ex).__name__, msg=re.sub(r"0x[0-9a-f]+", "0x", str(ex))[:160])
    c["args_after"] = arg_state(args, kw)
    return res, c, time.time() - t0


# ---- the shared cells the harness can observe -------------------------------------------------------
def _digest_obj(o, depth=0):
    np = _np()
    if isinstance(o, dict):
        return "{" + ",".join(f"{k!r}:{_digest_obj(o[k], depth + 1)}" for k in sorted(o, key=repr)) + "}"
    if isinstance(o, (list, tuple, set, frozenset)):
        xs = list(o) if not isinstance(o, (set, frozenset)) else sorted(o, key=repr)
        return "[" + ",".join(_digest_obj(x, depth + 1) for x in xs) + "]"
    if isinstance(o, np.ndarray):
        return "nd:" + h_bytes(np.ascontiguousarray(o).tobytes())
    if isinstance(o, (np.random.RandomState, np.random.Generator)):
        st = o.get_state() if isinstance(o, np.random.RandomState) else o.bit_generator.state
        return "rng:" + h_bytes(pickle.dumps(st))
    if type(o).__name__ == "Random" and hasattr(o, "getstate"):
        return "rng:" + h_bytes(pickle.dumps(o.getstate()))
    if callable(o):
        return f"fn@{id(o)}"
    if isinstance(o, float) and o != o:
        return "nan"
    return repr(o)[:80]


def footprint(facts):
    """cell name -> digest, for every shared cell the generated facts know + module-level rebinding"""
    import importlib
    import random
    np = _np()
    fp = {"rng": h_bytes(pickle.dumps(np.random.get_state())), "glob:random": h_bytes(pickle.dumps(random.getstate()))}
    for t in facts["tables"]:
        mod, nm = t.rsplit(".", 1)
        try:
            m = importlib.import_module("xrspatial." + mod)
            fp["table:" + t] = _digest_obj(getattr(m, nm))
        except Exception:  # noqa: BLE001
            pass
    for dname in facts["defaults"]:
        fid, param = dname.rsplit(".", 1)
        mod, fn = fid.rsplit(".", 1)
        try:
            f = getattr(importlib.import_module("xrspatial." + mod), fn)
            import inspect
            fp["dflt:" + dname] = _digest_obj(inspect.signature(f).parameters[param].default)
        except Exception:  # noqa: BLE001
            pass
    for mod in facts["modules"]:
        try:
            m = importlib.import_module("xrspatial." + mod if mod else "xrspatial")
        except Exception:  # noqa: BLE001
            continue
        items = []
        for k, v in sorted(vars(m).items()):
            if k.startswith("__") or isinstance(v, type(os)) or isinstance(v, type):
                continue
            if callable(v):
                items.append(f"{k}=fn@{id(v)}")
            elif isinstance(v, (int, float, str, bool, tuple, type(None))):
                items.append(f"{k}={v!r}"[:60])
            else:
                items.append(f"{k}@{id(v)}")
        fp["mod:" + mod] = h_bytes("|".join(items).encode())
    return fp


def arg_aspects(args, kw):
    """per DataArray argument (Dataset: per variable): digests of the parts of the object the caller keeps"""
    import xarray as xr
    np = _np()
    out = {}

    def one(key, x):
        d = x.variable._data
        binding = (id(d), str(x.dtype), repr(getattr(d, "chunks", None)), type(d).__name__)
        cells = None
        if isinstance(d, np.ndarray) and d.size <= 20000:
            cells = h_bytes(np.ascontiguousarray(d).tobytes())
        out[key] = dict(attrs=_digest_obj(dict(x.attrs)), name=repr(x.name), binding=repr(binding), cells=cells,
                        coords=_digest_obj({str(k): np.asarray(x[k].values) for k in x.coords}))
    for i, a in enumerate(list(args) + [kw[k] for k in sorted(kw)]):
        if isinstance(a, xr.DataArray):
            one(str(i), a)
        elif isinstance(a, xr.Dataset):
            for k in a.data_vars:
                one(f"{i}.{k}", a[k])
            out[f"{i}.<ds>"] = dict(attrs=_digest_obj(dict(a.attrs)), name="-", binding="-", cells=None, coords="-")
    return out


def aspects_changed(before, after):
    ch = set()
    for k, b in before.items():
        a = after.get(k)
        if a is None:
            continue
        for asp in ("attrs", "coords", "name", "binding"):
            if a[asp] != b[asp]:
                ch.add("param:" + asp)
        if a["cells"] != b["cells"] and a["binding"] == b["binding"]:
            ch.add("param:cells")       # (re-binding the array may change the values: zonal.apply)
    return sorted(ch)


def scribble_value(v, depth=0):
    """overwrite every writable array reachable from a result with a sentinel"""
    import xarray as xr
    np = _np()
    try:
        if isinstance(v, xr.DataArray):
            if isinstance(v.data, np.ndarray) and v.data.flags.writeable:
                v.data[...] = 7 if v.dtype.kind != "f" else -12345.5
        elif isinstance(v, xr.Dataset):
            for k in v.data_vars:
                scribble_value(v[k], depth + 1)
        elif isinstance(v, np.ndarray):
            if v.flags.writeable and v.dtype.kind in "fiub":
                v[...] = 3 if v.dtype.kind != "f" else -12345.5
        elif isinstance(v, (list, tuple)) and depth < 3:
            for x in v:
                scribble_value(x, depth + 1)
        elif isinstance(v, dict) and depth < 3:
            for x in v.values():
                scribble_value(x, depth + 1)
    except Exception:  # noqa: BLE001
        pass


def scribble(res, args, kw, k):
    """a caller doing what callers do: overwrite the returned buffer, grow the lists it passed in"""
    scribble_value(res)
    for v in list(kw.values()) + list(args):
        if isinstance(v, list):
            v.append(k + 90)


def worker_session(job):
    """execute a history in this process; job = dict(history, pool, facts, snapdir, tag)"""
    import dask
    n = job["threads"]
    if n <= 1:
        dask.config.set(scheduler="synchronous")
    else:
        dask.config.set(scheduler="threads", num_workers=n)
    np = _np()
    pool = {}
    out = []
    kept = []                 # everything the library handed out so far (the caller still holds it)
    facts = job["facts"]
    for i, spec in enumerate(job["history"]):
        fn = spec["fn"]
        if fn == "user.np_random":
            if spec["kw"].get("seed") is not None:
                np.random.seed(spec["kw"]["seed"])
            np.random.rand(spec["kw"].get("n", 3))
            if spec["kw"].get("py"):
                import random
                random.random()
            out.append(dict(i=i, fn=fn, perturber=True))
            continue
        if fn == "user.scribble_all":
            for v in kept:
                scribble_value(v)
            out.append(dict(i=i, fn=fn, perturber=True))
            continue
        args = [build_arg(a, job["pool"], pool) for a in spec["args"]]
        kw = {k: unjson(v) for k, v in spec["kw"].items()}
        snap = os.path.join(job["snapdir"], f"{job['tag']}-{i}.pkl")
        if job.get("write_snaps", True) and not has_derived(spec):
            with open(snap, "wb") as fh:
                pickle.dump(dict(fn=fn, args=[enc(a) for a in args], kw={k: enc(v) for k, v in kw.items()}), fh)
        before = footprint(facts)
        asp0 = arg_aspects(args, kw)
        res, c, dt = run_one(fn, args, kw)
        after = footprint(facts)
        dirty = sorted(k for k in after if after[k] != before.get(k)) + aspects_changed(asp0, arg_aspects(args, kw))
        kept.append(res)
        if spec.get("scribble"):
            scribble(res, args, kw, i)
        out.append(dict(i=i, fn=fn, canon=c, dirty=dirty, snap=snap, dt=round(dt, 3)))
    return out


def worker_fresh(job):
    """one call in a fresh interpreter: on the pickled snapshot of its arguments, or (calls whose arguments are
    derived from objects the caller held before) on arguments re-made from their recipe"""
    import dask
    dask.config.set(scheduler="synchronous")
    if job.get("recipe"):
        spec = job["recipe"]["spec"]
        live = {}
        fn = spec["fn"]
        args = [build_arg(a, job["recipe"]["pool"], live) for a in spec["args"]]
        kw = {k: unjson(v) for k, v in spec["kw"].items()}
    else:
        with open(job["snap"], "rb") as fh:
            s = pickle.load(fh)
        fn = s["fn"]
        args = [dec(a) for a in s["args"]]
        kw = {k: dec(v) for k, v in s["kw"].items()}
    res, c, dt = run_one(fn, args, kw)
    return dict(canon=c, dt=round(dt, 3))


def fresh_server():
    """`import xrspatial`, then fork one child per request line (`<in.json> <out.json>`): every child is an
    interpreter in which the library has been imported and nothing has been called -- a fresh interpreter without
    paying for the imports again.  Single-threaded (forking a threaded process is not safe); children are reaped
    as they finish; a child announces its result by renaming `<out>.tmp` to `<out>`."""
    import signal
    import warnings
    warnings.filterwarnings("ignore")
    import dask  # noqa: F401
    import xarray  # noqa: F401
    import xrspatial  # noqa: F401
    import xrspatial.experimental.polygonize  # noqa: F401
    signal.signal(signal.SIGCHLD, signal.SIG_IGN)       # no zombies, no waitpid bookkeeping
    sys.stdout.write("ready\n")
    sys.stdout.flush()
    for line in sys.stdin:
        parts = line.split()
        if len(parts) != 2:
            continue
        inp, outp = parts
        pid = os.fork()
        if pid == 0:
            code = 0
            try:
                signal.signal(signal.SIGCHLD, signal.SIG_DFL)
                job = json.load(open(inp))
                res = worker_fresh(job)
                with open(outp + ".tmp", "w") as fh:
                    json.dump(res, fh, default=str)
            except BaseException as ex:  # noqa: BLE001
                import traceback
                with open(outp + ".tmp", "w") as fh:
                    json.dump(dict(crash=repr(ex), trace=traceback.format_exc()[-1500:]), fh)
                code = 1
            finally:
                os.rename(outp + ".tmp", outp)
                os._exit(code)


def worker_main(argv):
    if argv and argv[0] == "freshserver":
        return fresh_server()
    mode, inp, outp = argv
    job = json.load(open(inp))
    import warnings
    warnings.filterwarnings("ignore")
    res = worker_session(job) if mode == "session" else worker_fresh(job)
    with open(outp, "w") as fh:
        json.dump(res, fh, default=str)


# ================================================================================================
#                                   check side
# ================================================================================================
def worker_env(threads):
    env = dict(os.environ)
    env["NUMBA_NUM_THREADS"] = str(max(1, threads))
    env["OMP_NUM_THREADS"] = env["MKL_NUM_THREADS"] = env["OPENBLAS_NUM_THREADS"] = "1"
    env["PYTHONHASHSEED"] = env.get("PYTHONHASHSEED", "random")
    env["PYTHONPATH"] = os.pathsep.join([p for p in [os.environ.get("XRS_REPO"), HERE, env.get("PYTHONPATH")] if p])
    env.pop("NUMBA_CACHE_DIR", None)
    return env


def spawn(mode, job, threads, tmp, label, timeout=1500):
    inp = os.path.join(tmp, f"{label}.in.json")
    outp = os.path.join(tmp, f"{label}.out.json")
    with open(inp, "w") as fh:
        json.dump(job, fh)
    p = subprocess.run([sys.executable, os.path.abspath(__file__), mode, inp, outp], env=worker_env(threads), stdout=subprocess.PIPE,
                       stderr=subprocess.PIPE, text=True, timeout=timeout, cwd=tmp)
    if p.returncode != 0 or not os.path.exists(outp):
        from common import Infra
        raise Infra(f"worker {label} failed rc={p.returncode}: {p.stderr[-1500:]}")
    return json.load(open(outp))


class ServerDown(Exception):
    pass


class FreshServer:
    """one process that has imported the library and forks a pristine child per fresh call (see fresh_server)"""
    def __init__(self, tmp):
        import threading
        self.tmp, self.lock, self.ok = tmp, threading.Lock(), None
        self.err = open(os.path.join(tmp, "freshserver.err"), "w")
        try:
            self.p = subprocess.Popen([sys.executable, os.path.abspath(__file__), "freshserver"], env=worker_env(1), cwd=tmp,
                                      stdin=subprocess.PIPE, stdout=subprocess.PIPE, stderr=self.err, text=True)
        except OSError:
            self.p, self.ok = None, False

    def _ready(self):
        if self.ok is None:
            line = self.p.stdout.readline() if self.p else ""
            self.ok = line.strip() == "ready"
        return self.ok

    def run(self, job, label, timeout=1500):
        inp = os.path.join(self.tmp, f"{label}.in.json")
        outp = os.path.join(self.tmp, f"{label}.out.json")
        with open(inp, "w") as fh:
            json.dump(job, fh)
        with self.lock:
            if not self._ready() or self.p.poll() is not None:
                raise ServerDown()
            try:
                self.p.stdin.write(f"{inp} {outp}\n")
                self.p.stdin.flush()
            except (OSError, ValueError):
                self.ok = False
                raise ServerDown()
        t0 = time.time()
        while not os.path.exists(outp):
            time.sleep(0.05)
            if time.time() - t0 > timeout or (self.p.poll() is not None and not os.path.exists(outp)):
                raise ServerDown()
        res = json.load(open(outp))
        if "crash" in res:
            from common import Infra
            raise Infra(f"fresh call {label} crashed: {res['crash']} {res.get('trace', '')[-800:]}")
        return res

    def close(self):
        try:
            if self.p:
                self.p.stdin.close()
                self.p.terminate()
        except Exception:  # noqa: BLE001
            pass
        self.err.close()


def facts():
    from common import LEAN
    rep = json.load(open(os.path.join(LEAN, "XrsVerif", "Gen", "report.json")))["facts:Effects.lean"]
    return dict(tables=rep["tables"], defaults=rep["defaults"], modules=rep["modules"]), rep


# ---- generators of call specs ---------------------------------------------------------------------
IN_PLACE_BY_CONTRACT = ("zonal.apply", "viewshed.viewshed")     # they change the raster they are given: never derive from it


def g_raster(rng, kind, big=False, dtype=None, dask_ok=True, nan_ok=True, square=False):
    if big == "huge":          # >= 250 000 cells: the size class where libraries switch algorithms / go parallel
        h, w = rng.choice([(512, 512), (520, 504), (500, 512)])
    else:
        h = rng.choice([5, 6, 8, 11] if not big else [24, 33, 40])
        w = h if square else rng.choice([5, 7, 9, 12] if not big else [24, 31, 48])
    g = dict(kind=kind, h=h, w=w, seed=rng.randrange(10 ** 6),
             dtype=dtype or rng.choice(["float64", "float32", "float64", "int32", "int64"]))
    if kind in ("zones",):
        g["dtype"] = rng.choice(["int64", "int32"])
    if nan_ok and g["dtype"].startswith("float") and rng.random() < 0.4:
        g["nan"] = rng.randrange(1, 4)
    if rng.random() < 0.3:
        g["sx"], g["sy"] = rng.choice([(0.5, 0.5), (2.0, 1.0), (1.0, 3.0), (0.25, 0.5)])
    if rng.random() < 0.4:
        g["nores"] = True          # no `res` attribute: the cell size is what the coordinates say
    if dask_ok and big != "huge" and rng.random() < 0.35:
        ch = rng.choice([2, 3, 4] if not big else [8, 16])
        cw = rng.choice([3, 4, 5] if not big else [8, 16])
        g["chunks"] = [split(h, ch), split(w, cw)]
    return g


def split(n, c):
    out = [c] * (n // c)
    if n % c:
        out.append(n % c)
    return out


def desc_of(pool, r):
    """the raster description behind an argument (a derived raster: its own shape and spacing)"""
    if "ref" in r:
        return pool[r["ref"]]
    if "gen" in r:
        return r["gen"]
    d = r["derive"]
    g = dict(pool[d["of"]])
    if d["op"] == "stride":
        g["h"], g["w"] = -(-g["h"] // d["sy"]), -(-g["w"] // d["sx"])
        g["sx"], g["sy"] = g.get("sx", 1.0) * d["sx"], g.get("sy", 1.0) * d["sy"]
    elif d["op"] == "window":
        g["h"], g["w"] = d["y1"] - d["y0"], d["x1"] - d["x0"]
    elif d["op"] == "rescale":
        g["sx"], g["sy"] = g.get("sx", 1.0) * d["k"], g.get("sy", 1.0) * d["k"]
    return g


def gen_derivation(rng, g):
    """an attrs-preserving xarray operation on a raster the caller already holds"""
    op = rng.choice(["stride", "stride", "rescale", "rescale", "window"])
    if op == "stride" and g["h"] >= 6 and g["w"] >= 6:
        sy, sx = rng.choice([(2, 2), (2, 1), (1, 2), (2, 2), (3, 2)])
        if -(-g["h"] // sy) >= 3 and -(-g["w"] // sx) >= 3:
            return dict(op="stride", sy=sy, sx=sx)
    if op == "window" and g["h"] >= 5 and g["w"] >= 5:
        return dict(op="window", y0=1, y1=g["h"] - 1, x0=0, x1=g["w"] - 1)
    return dict(op="rescale", k=rng.choice([0.001, 1000.0, 0.5, 3.0, 0.3048]))


def ras(rng, pool, kind, **kwargs):
    """an argument: a shared object of the pool (a later call sees what earlier calls did to it), a raster derived
    from a pool object the way callers derive rasters (overview, window, other units), or a new one"""
    def fits(g):
        if g["kind"] != kind:
            return False
        if kwargs.get("dask_ok") is False and g.get("chunks"):
            return False
        if kwargs.get("nan_ok") is False and g.get("nan"):
            return False
        if kwargs.get("dtype") and g["dtype"] != kwargs["dtype"]:
            return False
        if named and not g.get("name"):
            return False
        return (kwargs.get("big") or False) == ("huge" if g["h"] >= 400 else g["h"] >= 20)
    named = kwargs.pop("named", False)
    derivable = kwargs.pop("derivable", False)
    names = [k for k, g in pool.items() if fits(g)]
    if derivable and rng.random() < 0.35:
        cands = [k for k, g in pool.items() if g["kind"] == kind and not g.get("chunks") and not g.get("tainted")
                 and g["h"] < 400 and g.get("used") and not (kwargs.get("nan_ok") is False and g.get("nan"))
                 and not (kwargs.get("dtype") and g["dtype"] != kwargs["dtype"])]
        if cands:
            k = rng.choice(cands)
            return {"derive": dict(gen_derivation(rng, pool[k]), of=k)}
    if names and rng.random() < 0.5:
        k = rng.choice(names)
        pool[k]["used"] = True
        return {"ref": k}
    g = g_raster(rng, kind, **kwargs)
    if named:
        g["name"] = "terrain"
    if rng.random() < 0.6 and len(pool) < 6:
        nm = f"r{len(pool)}"
        pool[nm] = dict(g, used=True)
        return {"ref": nm}
    return {"gen": g}


def taint(pool, r):
    if "ref" in r:
        pool[r["ref"]]["tainted"] = True


def same_shape(rng, pool, first, kind, **kw):
    g0 = desc_of(pool, first)
    g = dict(g_raster(rng, kind, **kw), h=g0["h"], w=g0["w"])
    for k in ("sx", "sy"):
        if k in g0:
            g[k] = g0[k]
        else:
            g.pop(k, None)
    if g0.get("chunks") and "derive" not in first:
        g["chunks"] = g0["chunks"]
    else:
        g.pop("chunks", None)
    return {"gen": g}


TARGET_ARRAYS = [
    {"__arr__": [3], "dtype": "int64"}, {"__arr__": [3, 0], "dtype": "int32"}, {"__arr__": [1, 2], "dtype": "int64"},
    {"__arr__": [1, 0, 2, 0], "dtype": "int32"}, {"__arr__": [2.0], "dtype": "float64"}, {"__arr__": [2.0, 4.0], "dtype": "float32"},
    {"__arr__": [4], "dtype": "uint8"}, {"__arr__": [1, 2, 3, 4], "dtype": "int16"}, {"__arr__": [0, 3], "dtype": "float64"},
]


def twin_array(rng, a):
    """another array with the same byte image: other dtype, other length (what a cache keyed on `.tobytes()` confuses)"""
    import numpy as np
    arr = unjson(a)
    nb = arr.nbytes
    opts = [dt for dt in ("int64", "int32", "int16", "uint8", "float64", "float32") if dt != str(arr.dtype) and nb % np.dtype(dt).itemsize == 0]
    if not opts or nb == 0:
        return None
    return {"__bytes_of__": a, "dtype": rng.choice(opts)}


def c_proximity(rng, pool):
    fn = rng.choice(["proximity.proximity", "proximity.proximity", "proximity.allocation", "proximity.direction"])
    kw = {}
    if rng.random() < 0.75:
        kw["target_values"] = rng.choice([[1], [2, 3], [1, 2, 3, 4], [4], [], [3.0]])
        if rng.random() < 0.4:       # class ids as arrays: several dtypes and lengths, some pairs with equal bytes
            kw["target_values"] = rng.choice(TARGET_ARRAYS)
    if rng.random() < 0.6:
        kw["max_distance"] = rng.choice(["inf", 2, 3.5, 10, 0.5, 1.0, 100.0])
    if rng.random() < 0.5:
        kw["distance_metric"] = rng.choice(["EUCLIDEAN", "MANHATTAN", "GREAT_CIRCLE"])
    return dict(fn=fn, args=[ras(rng, pool, "targets", derivable=True)], kw=kw)


def c_focal(rng, pool):
    which = rng.choice(["mean", "apply", "focal_stats", "hotspots", "convolution_2d"])
    kern = rng.choice([[[1, 1, 1], [1, 1, 1], [1, 1, 1]], [[0, 1, 0], [1, 1, 1], [0, 1, 0]], [[1, 0, 1], [0, 1, 0], [1, 0, 1]],
                       [[1, 1, 1, 1, 1]], [[1], [1], [1]], [[0, 1, 1], [0, 0, 1], [1, 0, 0]],
                       [[1, 1, 1, 1, 1], [1, 0, 0, 0, 1], [1, 1, 1, 1, 1]]])
    if which == "mean":
        kw = {"passes": rng.choice([1, 1, 2, 3])}
        if rng.random() < 0.5:
            kw["excludes"] = rng.choice([["nan"], ["nan", 0.0], [1.0], ["nan", 2.5, 3.0]])
        return dict(fn="focal.mean", args=[ras(rng, pool, "elev", derivable=True)], kw=kw)
    if which == "apply":
        kw = {"kernel": {"__arr__": kern}}
        if rng.random() < 0.7:
            kw["func"] = {"__fn__": rng.choice(["focal._calc_mean", "focal._calc_sum", "focal._calc_max", "focal._calc_std",
                                                "focal._calc_range"])}
        return dict(fn="focal.apply", args=[ras(rng, pool, "elev", big=rng.random() < 0.3)], kw=kw)
    if which == "focal_stats":
        kw = {"kernel": {"__arr__": kern}}
        if rng.random() < 0.5:
            kw["stats_funcs"] = rng.choice([["mean"], ["max", "min"], ["sum", "std", "var"], ["range", "mean"]])
        return dict(fn="focal.focal_stats", args=[ras(rng, pool, "elev")], kw=kw)
    if which == "hotspots":
        return dict(fn="focal.hotspots", args=[ras(rng, pool, "elev", derivable=True)], kw={"kernel": {"__arr__": kern}})
    k2 = [[float(v) * rng.choice([1.0, 0.5, 0.25]) for v in row] for row in kern]
    return dict(fn="convolution.convolution_2d", args=[ras(rng, pool, "elev")], kw={"kernel": {"__arr__": k2}})


def c_zonal(rng, pool):
    which = rng.choice(["stats", "stats", "crosstab", "regions", "trim", "crop", "apply"])
    if which in ("stats", "crosstab", "crop", "apply"):
        z = ras(rng, pool, "zones", nan_ok=False, dask_ok=(which in ("stats", "crosstab")))
        if which == "stats":
            v = same_shape(rng, pool, z, "elev")
            kw = {}
            if rng.random() < 0.5:
                kw["zone_ids"] = rng.choice([[1], [0, 2], [4, 1, 3], [0, 1, 2, 3, 4]])
            if rng.random() < 0.6:
                kw["stats_funcs"] = rng.choice([["mean"], ["max", "min", "count"], ["sum", "std", "var"], ["count"],
                                                {"__statsdict__": ["zmax", "zrange"]}, {"__statsdict__": ["zsum"]}])
                zg = desc_of(pool, z)
                if isinstance(kw["stats_funcs"], dict) and zg.get("chunks"):
                    kw["stats_funcs"] = ["mean", "count"]
            if rng.random() < 0.3:
                kw["nodata_values"] = rng.choice([0, 3])
            if rng.random() < 0.25:
                kw["return_type"] = "xarray.DataArray"
            return dict(fn="zonal.stats", args=[z, v], kw=kw)
        if which == "crosstab":
            v = same_shape(rng, pool, z, "cats", nan_ok=False)
            kw = {}
            if rng.random() < 0.4:
                kw["zone_ids"] = rng.choice([[1], [0, 2], [1, 3, 4]])
            if rng.random() < 0.4:
                kw["cat_ids"] = rng.choice([[0], [1, 2], [0, 3]])
            if rng.random() < 0.4:
                kw["agg"] = rng.choice(["count", "percentage"])
            return dict(fn="zonal.crosstab", args=[z, v], kw=kw)
        if which == "crop":
            v = same_shape(rng, pool, z, "elev", dask_ok=False)
            return dict(fn="zonal.crop", args=[z, v], kw={"zones_ids": rng.choice([[1], [2, 3], [4]])})
        v = same_shape(rng, pool, z, "elev", dask_ok=False, nan_ok=False, dtype="float64")
        return dict(fn="zonal.apply", args=[z, v, {"__fn__": "corr._double"}], kw={"nodata": rng.choice([0, 1, 2])})
    if which == "regions":
        return dict(fn="zonal.regions", args=[ras(rng, pool, "blobs", dask_ok=False)], kw={"neighborhood": rng.choice([4, 8])})
    vals = rng.choice([{"__tuple__": ["nan"]}, {"__tuple__": [0]}, {"__tuple__": [0.0, "nan"]}, [1]])
    return dict(fn="zonal.trim", args=[ras(rng, pool, "blobs", dask_ok=False)], kw={"values": vals})


def c_generators(rng, pool):
    if rng.random() < 0.5:
        kw = {"seed": rng.choice([0, 0, 1, 2, 5, 5, 7, 12345])}
        if rng.random() < 0.6:
            kw["freq"] = {"__tuple__": rng.choice([[1, 1], [2, 3], [5, 1], [0.5, 4]])}
        return dict(fn="perlin.perlin", args=[ras(rng, pool, "elev", dtype=rng.choice(["float64", "float32"]), nan_ok=False)], kw=kw)
    kw = {"seed": rng.choice([0, 0, 1, 2, 10, 10, 3, 99])}
    if rng.random() < 0.5:
        kw["x_range"] = {"__tuple__": rng.choice([[0, 500], [-20, 20], [100, 300]])}
        kw["y_range"] = {"__tuple__": rng.choice([[0, 500], [-10, 30]])}
    if rng.random() < 0.4:
        kw["zfactor"] = rng.choice([4000, 10, 1])
    return dict(fn="terrain.generate_terrain", args=[ras(rng, pool, "elev", dtype=rng.choice(["float64", "float32"]), nan_ok=False)], kw=kw)


def c_classify(rng, pool):
    which = rng.choice(["binary", "reclassify", "quantile", "natural_breaks", "natural_breaks", "equal_interval"])
    r = ras(rng, pool, "elev", derivable=True)
    if which == "binary":
        return dict(fn="classify.binary", args=[r], kw={"values": rng.choice([[1, 2, 3], [0.25, 5.0], [7]])})
    if which == "reclassify":
        b = rng.choice([[2, 5, 9, 20], [1, 3], [0, 4, 8, 12, 100]])
        return dict(fn="classify.reclassify", args=[r], kw={"bins": b, "new_values": [i * 10 for i in range(len(b))]})
    if which == "natural_breaks":
        kw = {"k": rng.choice([2, 3, 5])}
        a = ras(rng, pool, "elev", dask_ok=False)
        if rng.random() < 0.7:       # mostly fewer samples than cells: the sampling branch
            g = desc_of(pool, a)
            kw["num_sample"] = rng.choice([10, 20, max(4, g["h"] * g["w"] // 2), g["h"] * g["w"] - 1, 50])
        return dict(fn="classify.natural_breaks", args=[a], kw=kw)
    return dict(fn="classify." + which, args=[r], kw={"k": rng.choice([2, 3, 4, 6])})


def c_surface(rng, pool):
    which = rng.choice(["slope", "aspect", "curvature", "hillshade", "summarize", "slope", "curvature"])
    r = ras(rng, pool, "elev", derivable=True)
    if which == "hillshade":
        kw = {}
        if rng.random() < 0.6:
            kw["azimuth"] = rng.choice([225, 0, 90, 315])
            kw["angle_altitude"] = rng.choice([25, 45, 80])
        return dict(fn="hillshade.hillshade", args=[r], kw=kw)
    if which == "summarize":
        return dict(fn="analytics.summarize_terrain", args=[ras(rng, pool, "elev", dask_ok=False, nan_ok=False, named=True)], kw={})
    return dict(fn=f"{which}.{which}", args=[r], kw={})


def c_spectral(rng, pool):
    a = ras(rng, pool, "band")
    b = same_shape(rng, pool, a, "band")
    which = rng.choice(["ndvi", "savi", "evi", "true_color", "two", "three"])
    if which == "two":
        return dict(fn="multispectral." + rng.choice(["gci", "nbr", "nbr2", "ndmi"]), args=[a, b], kw={})
    if which == "three":
        return dict(fn="multispectral." + rng.choice(["arvi", "sipi", "ebbi"]), args=[a, b, same_shape(rng, pool, a, "band")], kw={})
    if which == "ndvi":
        return dict(fn="multispectral.ndvi", args=[a, b], kw={})
    if which == "savi":
        return dict(fn="multispectral.savi", args=[a, b], kw={"soil_factor": rng.choice([1.0, 0.5, 0.0, -0.5])})
    c = same_shape(rng, pool, a, "band")
    if which == "evi":
        return dict(fn="multispectral.evi", args=[a, b, c], kw={"gain": rng.choice([2.5, 1.0]), "soil_factor": rng.choice([1.0, 0.5])})
    return dict(fn="multispectral.true_color", args=[a, b, c], kw={"nodata": rng.choice([1, 0, 5])})


def c_path(rng, pool):
    r = ras(rng, pool, "elev", dask_ok=False)
    g = desc_of(pool, r)
    sx, sy = g.get("sx", 1.0), g.get("sy", 1.0)
    pt = lambda: [rng.randrange(g["h"]) * sy, rng.randrange(g["w"]) * sx]  # noqa: E731
    kw = {"connectivity": rng.choice([4, 8])}
    if rng.random() < 0.5:
        kw["barriers"] = rng.choice([[0], [1.0, 2.0], [5.25], []])
    if rng.random() < 0.4:
        kw["snap_start"] = True
        kw["snap_goal"] = rng.choice([True, False])
    return dict(fn="pathfinding.a_star_search", args=[r, {"__tuple__": pt()}, {"__tuple__": pt()}], kw=kw)


def c_polygonize(rng, pool):
    r = ras(rng, pool, "blobs", dask_ok=False, dtype=rng.choice(["int32", "int64", "float64", "float32"]), nan_ok=False)
    kw = {"connectivity": rng.choice([4, 8])}
    return dict(fn="experimental.polygonize.polygonize", args=[r], kw=kw)


def c_viewshed(rng, pool):
    r = ras(rng, pool, "elev", dask_ok=False, nan_ok=False)
    taint(pool, r)
    g = desc_of(pool, r)
    sx, sy = g.get("sx", 1.0), g.get("sy", 1.0)
    kw = {"x": rng.randrange(g["w"]) * sx, "y": rng.randrange(g["h"]) * sy, "observer_elev": rng.choice([0, 1, 5.5, 20])}
    if rng.random() < 0.4:
        kw["target_elev"] = rng.choice([0, 2, 10])
    return dict(fn="viewshed.viewshed", args=[r], kw=kw)


def c_local(rng, pool):
    h, w = rng.choice([3, 5]), rng.choice([4, 6])
    ds = {k: dict(kind="cats", h=h, w=w, seed=rng.randrange(10 ** 6), dtype="float64") for k in ("a", "b", "c")}
    which = rng.choice(["cell_stats", "combine", "popularity", "equal_frequency", "lesser_frequency", "greater_frequency", "rank",
                        "lowest_position", "highest_position"])
    if which in ("lowest_position", "highest_position"):
        return dict(fn="local." + which, args=[{"dataset": ds}], kw={})
    if which == "cell_stats":
        return dict(fn="local.cell_stats", args=[{"dataset": ds}], kw={"func": rng.choice(["sum", "max", "mean", "median", "std", "min"])})
    if which == "combine":
        return dict(fn="local.combine", args=[{"dataset": ds}], kw={})
    return dict(fn="local." + which, args=[{"dataset": ds}, "a"], kw={})


RADII = [1, 2, 3, 2.5, 4, "2", "3m", "0.002km", "6.5ft", 1.5]


def c_kernels(rng, pool):
    """the kernel builders and the helpers around them (cheap calls that hand out arrays)"""
    which = rng.choice(["circle", "circle", "annulus", "annulus", "custom", "cellsize", "resolution", "metric"])
    cx, cy = rng.choice([(1, 1), (1, 1), (2, 1), (0.5, 0.5), (1, 2), (10, 10)])
    if which == "circle":
        return dict(fn="convolution.circle_kernel", args=[cx, cy, rng.choice(RADII)], kw={})
    if which == "annulus":
        ro = rng.choice([2, 3, 4, 3, "3m", 2.5])
        return dict(fn="convolution.annulus_kernel", args=[cx, cy, ro, rng.choice([1, 1, "1m", 0.5 * min(cx, cy) + 0.5])], kw={})
    if which == "custom":
        k = rng.choice([[[1, 0, 1], [0, 1, 0], [1, 0, 1]], [[1, 1, 1]], [[0.5, 1, 0.5], [1, 2, 1], [0.5, 1, 0.5]]])
        return dict(fn="convolution.custom_kernel", args=[{"__arr__": k}], kw={})
    if which == "cellsize":
        return dict(fn="convolution.calc_cellsize", args=[ras(rng, pool, "elev", derivable=True)], kw={})
    if which == "resolution":
        return dict(fn="utils." + rng.choice(["get_dataarray_resolution", "calc_res"]), args=[ras(rng, pool, "elev", derivable=True)], kw={})
    m = rng.choice(["euclidean_distance", "manhattan_distance", "great_circle_distance"])
    return dict(fn="proximity." + m, args=[rng.choice([0.0, 1.5, -20.0]), rng.choice([3.0, 10.0]), rng.choice([0.0, 45.0]), rng.choice([1.0, -30.0])], kw={})


def c_scribble_all(rng, pool):
    return dict(fn="user.scribble_all", args=[], kw={}, perturber=True)


def c_bump(rng, pool):
    kw = {"count": rng.choice([3, 10, 50]), "spread": rng.choice([1, 2, 3])}
    return dict(fn="bump.bump", args=[rng.choice([20, 40]), rng.choice([15, 30])], kw=kw, perturber=True)


def c_user(rng, pool):
    return dict(fn="user.np_random", args=[], kw={"seed": rng.choice([None, None, 0, 5, 10, 12345]), "n": rng.randrange(1, 50),
                                                   "py": rng.random() < 0.3}, perturber=True)


FAMILIES = {
    "proximity": (c_proximity, 3.0), "focal": (c_focal, 3.0), "zonal": (c_zonal, 3.0), "generators": (c_generators, 3.0),
    "classify": (c_classify, 1.5), "surface": (c_surface, 1.0), "spectral": (c_spectral, 1.0), "path": (c_path, 1.0),
    "polygonize": (c_polygonize, 1.5), "local": (c_local, 0.7), "viewshed": (c_viewshed, 0.25), "kernels": (c_kernels, 2.0),
}
PERTURBERS = {"bump": (c_bump, 1.0), "user": (c_user, 1.0), "scribble": (c_scribble_all, 1.0)}
PERTURBER_FNS = ("user.np_random", "user.scribble_all")
_SIB_GROUPS = [["convolution.circle_kernel", "convolution.annulus_kernel"], ["proximity.proximity", "proximity.allocation", "proximity.direction"],
               ["perlin.perlin", "terrain.generate_terrain"], ["slope.slope", "aspect.aspect", "curvature.curvature", "hillshade.hillshade"],
               ["focal.apply", "focal.focal_stats", "focal.hotspots", "convolution.convolution_2d"],
               ["classify.quantile", "classify.natural_breaks", "classify.equal_interval"],
               ["multispectral.ndvi", "multispectral.gci", "multispectral.nbr", "multispectral.ndmi"],
               ["utils.get_dataarray_resolution", "utils.calc_res", "convolution.calc_cellsize"]]
SIBLINGS = {f: [x for x in grp if x != f] for grp in _SIB_GROUPS for f in grp}
FN_FAMILY = {"convolution.circle_kernel": "kernels", "convolution.annulus_kernel": "kernels", "convolution.custom_kernel": "kernels",
             "convolution.calc_cellsize": "kernels", "utils.get_dataarray_resolution": "kernels", "utils.calc_res": "kernels",
             "proximity.euclidean_distance": "kernels", "proximity.manhattan_distance": "kernels",
             "proximity.great_circle_distance": "kernels"}

FAMILY_OF_MODULE = {"proximity": "proximity", "focal": "focal", "convolution": "focal", "zonal": "zonal", "perlin": "generators",
                    "terrain": "generators", "classify": "classify", "slope": "surface", "aspect": "surface",
                    "curvature": "surface", "hillshade": "surface", "analytics": "surface", "multispectral": "spectral",
                    "pathfinding": "path", "experimental.polygonize": "polygonize", "local": "local", "viewshed": "viewshed",
                    "utils": "zonal", "bump": "generators"}


def wchoice(rng, table):
    tot = sum(w for _, w in table.values())
    x = rng.random() * tot
    for k, (f, w) in table.items():
        x -= w
        if x <= 0:
            return k, f
    return k, f


def family_of(fn):
    if fn in FN_FAMILY:
        return FN_FAMILY[fn]
    for k in sorted(FAMILY_OF_MODULE, key=len, reverse=True):
        if fn.startswith(k + "."):
            return FAMILY_OF_MODULE[k]
    return None


_SIG = {}


def optional_params(fn):
    """parameters of the real function that have a default (resolved in the check process)"""
    if fn not in _SIG:
        try:
            import inspect
            f = resolve(fn)
            f = getattr(f, "py_func", f)
            _SIG[fn] = {k for k, p in inspect.signature(f).parameters.items() if p.default is not inspect.Parameter.empty}
        except Exception:  # noqa: BLE001
            _SIG[fn] = set()
    return _SIG[fn]


def gen_call_of(rng, pool, fn, tries=80):
    """a call of exactly `fn` (rejection sampling over its family's generator)"""
    fam = family_of(fn)
    if fam not in FAMILIES:
        return None
    for _ in range(tries):
        p2 = dict(pool)
        spec = FAMILIES[fam][0](rng, p2)
        if spec["fn"] == fn:
            pool.update(p2)
            return spec
    return None


def is_raster_arg(a):
    return isinstance(a, dict) and ("ref" in a or "gen" in a or "derive" in a)


def twins_of(a, limit=3):
    """arrays with the same byte image as `a` in other dtypes (and therefore other lengths / values)"""
    import numpy as np
    arr = unjson(a)
    nb = arr.nbytes
    out = []
    for dt in ("int32", "int64", "float32", "int16", "uint8", "float64"):
        if dt != str(arr.dtype) and nb and nb % np.dtype(dt).itemsize == 0:
            out.append({"__bytes_of__": a, "dtype": dt})
    return out[:limit]


def equal_key_variants(v, strings=True):
    """values a dictionary / lru_cache key (or a key built from `.tobytes()`, `str()`, `float()`) cannot tell from `v`
    although the call is another one: 1 / 1.0 / True hash alike, an array with the same bytes in another dtype and
    length, a list and the array of its elements, a distance string for the same number"""
    if isinstance(v, dict) and "__arr__" in v:
        return twins_of(v)
    if isinstance(v, bool):
        return [int(v)]
    if isinstance(v, int):
        return [float(v)] + ([str(v)] if strings and v not in (0, 1) else []) + ([bool(v)] if v in (0, 1) else [])
    if isinstance(v, float) and v == int(v):
        return [int(v)]
    if isinstance(v, list) and v and all(isinstance(x, (int, float)) and not isinstance(x, bool) for x in v):
        ints = all(float(x) == int(x) for x in v)
        arr = {"__arr__": v, "dtype": "int64" if ints else "float64"}
        return [arr, [float(x) for x in v]] + twins_of(arr, 2)
    return []


def equal_key_variant(rng, v, strings=True):
    vs = equal_key_variants(v, strings)
    return rng.choice(vs) if vs else None


def equal_key_calls(spec, limit=8):
    """the call with each argument in turn replaced by each of its equal-key variants"""
    out = []
    base = {k: v for k, v in spec.items() if k not in ("scribble", "repeat")}
    slots = [("kw", k) for k in base["kw"]] + [("args", i) for i, a in enumerate(base["args"]) if not is_raster_arg(a) and not
             (isinstance(a, dict) and "dataset" in a)]
    for where, k in slots:
        for v in equal_key_variants(base[where][k], strings=(where == "args")):
            new = copy.deepcopy(base)
            new[where][k] = v
            new["related"] = "equal-key"
            out.append(new)
    return out[:limit]


def related_call(rng, pool, spec, fn2=None):
    """a call *related* to an earlier one: the same function with one argument replaced by a value that a cache key
    would confuse with the old one (or freshly drawn), or a sibling function given the same leading arguments
    (circle_kernel after annulus_kernel with the same cell sizes and radius).  None when nothing applies."""
    if fn2 is None or fn2 == spec["fn"]:
        new = copy.deepcopy({k: v for k, v in spec.items() if k not in ("scribble", "repeat")})
        slots = [("kw", k) for k in new["kw"]] + [("args", i) for i, a in enumerate(new["args"]) if not is_raster_arg(a) and not
                 (isinstance(a, dict) and "dataset" in a)]
        rng.shuffle(slots)
        for where, k in slots:
            v = equal_key_variant(rng, new[where][k], strings=(where == "args"))
            if v is not None:
                new[where][k] = v
                new["related"] = "equal-key"
                return new
        other = gen_call_of(rng, pool, spec["fn"])
        if other is None:
            return None
        for where, k in slots[:1]:      # everything as before but one argument
            if where == "kw" and k in other["kw"]:
                new["kw"][k] = other["kw"][k]
            elif where == "args" and k < len(other["args"]):
                new["args"][k] = other["args"][k]
        new["related"] = "one-argument"
        return new
    other = gen_call_of(rng, pool, fn2)
    if other is None:
        return None
    for i, a in enumerate(other["args"]):       # the same leading arguments, as far as they are of the same sort
        if i < len(spec["args"]):
            b = spec["args"][i]
            if is_raster_arg(a) == is_raster_arg(b) and isinstance(a, dict) == isinstance(b, dict):
                other["args"][i] = copy.deepcopy(b)
    for k in other["kw"]:
        if k in spec["kw"]:
            other["kw"][k] = copy.deepcopy(spec["kw"][k])
    other["related"] = "sibling"
    return other


def derive_from(rng, pool, spec, fn2):
    """a call of fn2 on a raster *derived* from the raster an earlier call was given (shared numpy raster only)"""
    base = next((a for a in spec["args"] if isinstance(a, dict) and "ref" in a), None)
    if base is None or pool[base["ref"]].get("chunks") or pool[base["ref"]].get("tainted"):
        return None
    other = gen_call_of(rng, pool, fn2)
    if other is None:
        return None
    for i, a in enumerate(other["args"]):
        if is_raster_arg(a):
            other["args"][i] = {"derive": dict(gen_derivation(rng, pool[base["ref"]]), of=base["ref"])}
            other["related"] = "derived"
            return other
    return None


def enlarge(spec, rng, pool):
    """the same call on rasters of >= 250 000 cells (numpy backed, one common shape)"""
    new = copy.deepcopy(spec)
    shape = rng.choice([(512, 512), (520, 504), (500, 512)])
    for i, a in enumerate(new["args"]):
        if is_raster_arg(a):
            if "derive" in a:
                return None
            g = {k: v for k, v in (a["gen"] if "gen" in a else pool[a["ref"]]).items() if k not in ("used", "tainted")}
            g.update(h=shape[0], w=shape[1])
            g.pop("chunks", None)
            new["args"][i] = {"gen": g}
    return new


def gen_big_history(rng, fns=None, n_calls=2):
    """the size class of >= 250 000 cells: a few calls, the first repeated; run under 1 and many threads"""
    fns = fns or ["focal.apply", "focal.focal_stats", "convolution.convolution_2d", "slope.slope", "focal.mean", "curvature.curvature",
                  "aspect.aspect", "hillshade.hillshade", "classify.natural_breaks", "multispectral.ndvi", "focal.hotspots"]
    hist, pool = [], {}
    order = list(fns)
    rng.shuffle(order)
    for fn in order:
        if len(hist) >= n_calls:
            break
        for _ in range(5):
            tmp = {}
            spec = gen_call_of(rng, tmp, fn)
            spec = spec and enlarge(spec, rng, tmp)
            if spec is not None and any(is_raster_arg(a) for a in spec["args"]):
                spec["size"] = "huge"
                hist.append(spec)
                break
    if not hist:
        return None
    rep = copy.deepcopy(hist[0])
    rep["repeat"] = True
    hist.append(rep)
    return dict(history=hist, pool=pool)


def gen_cell_history(rng, cell, writers, readers, n_rounds=3):
    """targeted history for one shared cell that stopped being harmless: call a writer, then the readers -- the same
    call again, a call a cache key would confuse with it, a sibling with the same leading arguments, a call on a
    raster derived from the writer's raster (caller-owned cells), the caller scribbling over what it was handed --
    and the writer again"""
    pool, hist = {}, []
    for _ in range(n_rounds):
        w = rng.choice(writers)
        c1 = None
        for _ in range(6):
            c1 = gen_call_of(rng, pool, w)
            if c1 is None:
                break
            if not cell.startswith("param:") or any(isinstance(a, dict) and "ref" in a and not pool[a["ref"]].get("chunks")
                                                    for a in c1["args"]):
                break
        if c1 is None:
            continue
        if cell.startswith("param:"):
            for a in c1["args"]:
                if isinstance(a, dict) and "ref" in a:
                    pool[a["ref"]]["nores"] = True      # the library, not the caller, decides what ends up on this object
        if rng.random() < 0.5:
            c1["scribble"] = True
        hist.append(c1)
        followers = []
        for rd in rng.sample(readers, k=min(len(readers), 2)) + [w]:
            followers.append(related_call(rng, pool, c1, rd))
            if cell.startswith("param:"):
                followers.append(derive_from(rng, pool, c1, rd))
        followers.append(related_call(rng, pool, c1))
        followers = [f for f in followers if f is not None]
        rng.shuffle(followers)
        followers = followers[:4] + equal_key_calls(c1)       # ... and every argument in turn by each of its equal-key variants
        for f in followers:
            if rng.random() < 0.4:
                f["scribble"] = True
            hist.append(f)
        if rng.random() < 0.5:
            hist.append(c_scribble_all(rng, pool))
        again = copy.deepcopy({k: v for k, v in c1.items() if k != "scribble"})
        again["repeat"] = True
        hist.append(again)
        if followers:
            again2 = copy.deepcopy({k: v for k, v in followers[0].items() if k != "scribble"})
            again2["repeat"] = True
            hist.append(again2)
    return dict(history=hist, pool=pool) if hist else None


def gen_targeted_history(rng, n, fn):
    """a history that hammers one function: varied parameters, many calls that rely on the defaults, few shared rasters"""
    pool, hist = {}, []
    opt = optional_params(fn)
    while len(hist) < n:
        u = rng.random()
        if u < 0.12:
            _, f = wchoice(rng, PERTURBERS)
            hist.append(f(rng, pool))
            continue
        if u < 0.25:
            k, (f, _) = rng.choice(sorted(FAMILIES.items()))
            if k != "viewshed":
                hist.append(f(rng, pool))
                continue
        spec = gen_call_of(rng, pool, fn)
        if spec is None:
            return None
        if rng.random() < 0.6:       # rely on the defaults
            for k in list(spec["kw"]):
                if k in opt and rng.random() < 0.7:
                    del spec["kw"][k]
        if rng.random() < 0.3:
            spec["scribble"] = True
        hist.append(spec)
    return dict(history=hist, pool=pool)


def gen_history(rng, max_len, focus=None, allow_viewshed=True, must=None):
    n = rng.randrange(max(4, max_len // 2), max_len + 1)
    pool, hist = {}, []
    fams = dict(FAMILIES)
    if not allow_viewshed:
        fams.pop("viewshed")
    # a history concentrates on two or three families (that is where parameter-dependent staleness shows)
    chosen = rng.sample(sorted(fams), k=min(len(fams), rng.choice([2, 3, 3, 4])))
    if must:
        chosen = list(dict.fromkeys([m for m in must if m in fams] + chosen))[:max(4, len(must))]
    if focus:
        chosen = list(dict.fromkeys([f for f in focus if f in FAMILIES] + chosen))[:max(3, len(focus))]
    table = {k: (fams.get(k, FAMILIES[k])[0], FAMILIES[k][1] * (3.0 if focus and k in focus else 1.0)) for k in chosen}
    while len(hist) < n:
        u = rng.random()
        if u < 0.22:
            _, f = wchoice(rng, PERTURBERS)
            spec = f(rng, pool)
            if spec["fn"] == "user.scribble_all" and not hist:
                continue
        elif u < 0.34 and any(not h.get("perturber") for h in hist):
            spec = copy.deepcopy(rng.choice([h for h in hist if not h.get("perturber")]))   # repeat a call verbatim
            spec.pop("scribble", None)
            spec["repeat"] = True
        elif u < 0.46 and any(not h.get("perturber") for h in hist):
            # a call related to an earlier one: one argument a cache key would confuse / a sibling with the same arguments
            old = rng.choice([h for h in hist if not h.get("perturber")])
            sibs = [f for f in SIBLINGS.get(old["fn"], []) if family_of(f) in fams]
            spec = related_call(rng, pool, old, rng.choice(sibs) if sibs and rng.random() < 0.5 else None)
            if spec is None:
                continue
        else:
            _, f = wchoice(rng, table)
            spec = f(rng, pool)
        if not spec.get("perturber") and rng.random() < 0.3:
            spec["scribble"] = True
        hist.append(spec)
    return dict(history=hist, pool=pool)


# ---- running ----------------------------------------------------------------------------------------
class Locked:
    """the Runner is filled from several orchestration threads"""
    def __init__(self, r):
        import threading
        self._r, self._lock = r, threading.Lock()

    def __getattr__(self, name):
        v = getattr(self._r, name)
        if callable(v) and name in ("case", "tag", "disagree", "fail"):
            def locked(*a, **k):
                with self._lock:
                    return v(*a, **k)
            return locked
        return v


class Lab:
    def __init__(self, r):
        self.r = r if isinstance(r, Locked) else Locked(r)
        self.facts, self.rep = facts()
        self.tmp = tempfile.mkdtemp(prefix="c11-")
        self.ex = ThreadPoolExecutor(max_workers=MAX_PROCS)      # one slot per worker subprocess
        self.orch = ThreadPoolExecutor(max_workers=48)           # threads that only wait for subprocesses
        self.server = FreshServer(self.tmp) if os.environ.get("VERIF_C11_FORK", "1") == "1" else None
        self.fresh_cache = {}
        self.reported = set()
        self.n = 0

    def session(self, h, threads, tag, write_snaps=True):
        job = dict(history=h["history"], pool=h["pool"], facts=self.facts, snapdir=self.tmp, tag=tag, threads=threads,
                   write_snaps=write_snaps)
        return self.ex.submit(spawn, "session", job, threads, self.tmp, f"s-{tag}-t{threads}")

    def _fresh_job(self, job, label):
        if self.server is not None:
            try:
                return self.server.run(job, label)
            except ServerDown:
                self.r.notes.append("fresh server unavailable: falling back to one interpreter per fresh call")
                self.server = None
        return spawn("fresh", job, 1, self.tmp, label)

    def _fresh(self, key, job):
        if key not in self.fresh_cache:
            self.n += 1
            self.fresh_cache[key] = self.ex.submit(self._fresh_job, job, f"f-{self.n}")
        return self.fresh_cache[key]

    def fresh(self, snap):
        return self._fresh(h_bytes(open(snap, "rb").read()), dict(snap=snap))

    def fresh_recipe(self, spec, pool):
        """the same call in a fresh interpreter on arguments re-made from scratch (rasters built anew, derived anew)"""
        names = [a["derive"]["of"] if "derive" in a else a["ref"] for a in spec["args"] if isinstance(a, dict) and ("derive" in a or "ref" in a)]
        rec = dict(spec=dict(fn=spec["fn"], args=spec["args"], kw=spec["kw"]), pool={k: pool[k] for k in names})
        return self._fresh("recipe:" + h_bytes(json.dumps(rec, sort_keys=True, default=str).encode()), dict(recipe=rec))

    def fresh_of(self, h, rec):
        spec = h["history"][rec["i"]]
        return self.fresh_recipe(spec, h["pool"]) if has_derived(spec) else self.fresh(rec["snap"])

    def close(self):
        self.orch.shutdown(wait=False, cancel_futures=True)
        self.ex.shutdown(wait=False, cancel_futures=True)
        if self.server is not None:
            self.server.close()
        import shutil
        shutil.rmtree(self.tmp, ignore_errors=True)


def model_footprints(fns):
    from common import Driver
    fns = sorted(fns)
    rep = Driver().ask([f"effects fn={f}" for f in fns])
    out = {}
    for f, line in zip(fns, rep):
        d = dict(kv.split("=", 1) for kv in line.split() if "=" in kv)
        out[f] = d if "writes" in d else None
    return out


def seed_of(spec):
    s = spec["kw"].get("seed")
    return int(s) if isinstance(s, int) and s >= 0 else 0      # (an equal-key variant may have made it True / 5.0 / "5")


DASK_KEY = re.compile(r"^[A-Za-z_][\w.]*-[0-9a-f]{32}$")


def diff_canon(a, b):
    if a == b:
        return None
    if isinstance(a, dict) and isinstance(b, dict):
        for k in sorted(set(a) | set(b)):
            if a.get(k) != b.get(k):
                d = diff_canon(a.get(k), b.get(k))
                return f"{k}: {d}" if d else f"{k}"
    return f"{json.dumps(a, default=str)[:140]} != {json.dumps(b, default=str)[:140]}"


def strip_dask_names(c):
    """the same canon with every name that is a dask graph key (`func-<32 hex>`) replaced by a constant"""
    if isinstance(c, dict):
        return {k: ("<dask-key>" if k == "name" and isinstance(v, str) and DASK_KEY.match(v) else strip_dask_names(v))
                for k, v in c.items()}
    if isinstance(c, list):
        return [strip_dask_names(x) for x in c]
    return c


def classify_diff(got, fr):
    """None | ('history', what) | ('dask-key-name', what): a result whose only difference is that its
    `.name` is a (different) dask graph key is its own finding class, so it cannot mask a value difference"""
    d = diff_canon(got, fr)
    if d is None:
        return None
    if diff_canon(strip_dask_names(got), strip_dask_names(fr)) is None:
        return ("dask-key-name", "only the result's .name differs, and it is a dask graph key: " + d)
    return ("history", d)


class Reused:
    """the first call of a 1-thread session IS that call in a fresh interpreter: no second process for it"""
    def __init__(self, rec):
        self.rec = rec

    def result(self):
        return self.rec


def call_key(h, rec):
    """identity of a call for 'a repeated call repeats its result': its argument snapshot, or its recipe"""
    spec = h["history"][rec["i"]]
    if has_derived(spec):
        return "recipe:" + h_bytes(json.dumps([spec["fn"], spec["args"], spec["kw"]], sort_keys=True, default=str).encode())
    return h_bytes(open(rec["snap"], "rb").read())


def check_history(lab, h, tag, configs, stream="history"):
    """run one history under every thread config + fresh runs; returns list of failure dicts"""
    r = lab.r
    sess = {t: lab.session(h, t, f"{tag}", write_snaps=(t == configs[0])) for t in configs}
    first = sess[configs[0]].result()
    fresh = {}
    for rec in first:
        if not rec.get("perturber") and h["history"][rec["i"]].get("perturber") is not True:
            if rec["i"] == 0 and configs[0] == 1 and len(configs) > 1:
                fresh[0] = Reused(rec)
            else:
                fresh[rec["i"]] = lab.fresh_of(h, rec)
    results = {t: (first if t == configs[0] else sess[t].result()) for t in configs}
    fails = []
    subj = [rec for rec in first if rec["i"] in fresh]
    model = model_footprints({rec["fn"] for rec in first if rec["fn"] not in PERTURBER_FNS})
    # ---- property oracle: every call, every thread count, against the fresh process
    for rec in subj:
        i = rec["i"]
        fr = fresh[i].result()["canon"]
        spec = h["history"][i]
        for t in configs:
            got = results[t][i]["canon"]
            key = dict(fn=rec["fn"], kw=spec["kw"], args=spec["args"], i=i, tag=tag)
            g0 = spec["args"][0] if spec["args"] and isinstance(spec["args"][0], dict) else {}
            r.case(key, desc=dict(fn=rec["fn"], kw=spec["kw"], pos=i, threads=t) if i == 1 and t == configs[0] else None,
                   nontrivial=(i > 0 or t != configs[0]),
                   tags=[f"fn:{rec['fn']}", f"threads:{t}", "status:" + ("ok" if "ok" in fr else fr.get("err", "?")),
                         "pos:" + ("0" if i == 0 else "1-5" if i < 6 else "6-20" if i < 21 else "21+"),
                         "arg:" + ("derived:" + g0["derive"]["op"] if "derive" in g0 else "shared" if "ref" in g0 else "own")])
            d = classify_diff(got, fr)
            if d:
                fails.append(dict(kind=d[0], fn=rec["fn"], i=i, threads=t, what=d[1]))
    # ---- a repeated call repeats its result (same argument snapshot / same recipe), under every thread count
    for t in configs:
        seen = {}
        for rec in subj:
            k = call_key(h, rec)
            if k in seen:
                if t == configs[0]:
                    r.tag("repeated-calls")
                d = classify_diff(results[t][seen[k]]["canon"], results[t][rec["i"]]["canon"])
                if d:
                    fails.append(dict(kind="repeat" if d[0] == "history" else "dask-key-name", fn=rec["fn"], i=rec["i"], threads=t,
                                      repeat_of=seen[k], what=f"call {seen[k]} repeated at {rec['i']}: {d[1]}"))
            else:
                seen[k] = rec["i"]
    # ---- model vs code: the cells that really changed are cells the summary writes
    for rec in first:
        if rec.get("perturber"):
            continue
        m = model.get(rec["fn"])
        if m is None:
            r.disagree("footprint", dict(fn=rec["fn"]), "function ran", "no generated summary of that name")
            continue
        writes = set() if m["writes"] == "-" else set(m["writes"].split(","))
        for c in writes:
            if c.startswith("param:"):
                r.tag("model-writes:" + c)
        real = {c for c in rec["dirty"] if not c.startswith("mod:")}
        real |= {"glob:" + c[4:] for c in rec["dirty"] if c.startswith("mod:")}
        for c in sorted(real):
            r.tag("dirty:" + c.split(":")[0])
        extra = {c for c in real if c not in writes and not (c.startswith("glob:") and any(w.startswith(c + ".") or w == c for w in writes))}
        if extra:
            r.disagree("footprint", dict(fn=rec["fn"], kw=h["history"][rec["i"]]["kw"]), f"changed {sorted(extra)}",
                       f"summary writes {sorted(writes)}")
            fails.append(dict(kind="footprint", fn=rec["fn"], i=rec["i"], threads=configs[0],
                              what=f"shared state {sorted(extra)} changed but the summary says it writes {sorted(writes)}", soft=True))
    # ---- model verdict vs observation
    calls = [f"{s['fn']}@{seed_of(s)}" for s in h["history"] if s["fn"] not in PERTURBER_FNS]
    idx = [i for i, s in enumerate(h["history"]) if s["fn"] not in PERTURBER_FNS]
    if calls:
        from common import Driver
        rep = Driver().ask(["effhist calls=" + ",".join(calls)])[0]
        mm = re.match(r"same=(\S*) dirty=(\S+)", rep)
        if not mm:
            r.disagree("verdict", dict(tag=tag), "history ran", f"driver said {rep[:200]}")
        else:
            flags = mm.group(1).split(",")
            # the history model says nothing about thread races: compare its verdict with the 1-thread session only
            bad_i = {f["i"] for f in fails if f["kind"] == "history" and f["threads"] == configs[0]}
            for pos, flag in zip(idx, flags):
                if pos in fresh:
                    r.tag("model-says-same" if flag == "1" else "model-says-may-differ")
                    if flag == "1" and pos in bad_i:
                        r.disagree("verdict", dict(fn=h["history"][pos]["fn"], pos=pos, tag=tag), "differs from the fresh process",
                                   "model: same as fresh")
    return fails


def report(lab, h, tag, fails, configs):
    """one finding per (kind, function); only the first of each class is shrunk (a shrink costs ~10 sessions)"""
    r = lab.r
    for f in fails:
        if f.get("soft"):
            continue
        key = f"{f['kind']}:{f['fn']}"
        i = f["i"]
        case = dict(kind=f["kind"], index=i, threads=f["threads"], fn=f["fn"],
                    history=dict(history=h["history"][: i + 1], pool=h["pool"]))
        if key not in lab.reported and len(lab.reported) < 3:
            lab.reported.add(key)
            case = shrink(lab, case)
        elif key in lab.reported:
            continue
        lab.reported.add(key)
        r.fail(key, f"{f['fn']} (call {i} of the history, {f['threads']} thread(s)) differs from the same call "
               f"in a fresh process: {f['what']}", case)


def still_fails(lab, case, tag):
    """re-run a (possibly shortened) history; the last call is the subject"""
    h = case["history"]
    t = case["threads"]
    rec = lab.session(h, t, tag).result()
    last = rec[-1]
    want = "dask-key-name" if case["kind"] == "dask-key-name" else "history"
    k = call_key(h, last)
    for e in rec[:-1]:      # an identical earlier call must have given the identical result
        if not e.get("perturber") and e["fn"] == last["fn"] and call_key(h, e) == k:
            d = classify_diff(e["canon"], last["canon"])
            if d and d[0] == want:
                return True
    if case["kind"] == "repeat":
        return False
    d = classify_diff(last["canon"], lab.fresh_of(h, last).result()["canon"])
    return bool(d) and d[0] == want


def shrink(lab, case):
    """shorten the history in front of the failing call (best effort, a few parallel tries)"""
    hist = case["history"]["history"]
    if len(hist) <= 2:
        return case
    subj = hist[-1]
    cands = [[subj]] + [[hist[j], subj] for j in range(len(hist) - 2, -1, -1)][:10]
    futs = []
    for k, c in enumerate(cands):
        cc = dict(case, history=dict(history=c, pool=case["history"]["pool"]), index=len(c) - 1)
        futs.append((cc, lab.orch.submit(still_fails, lab, cc, f"shr{lab.n}-{k}-{abs(hash(json.dumps(c, sort_keys=True, default=str))) % 10**6}")))
    for cc, f in futs:
        try:
            if f.result():
                return cc
        except Exception:  # noqa: BLE001
            continue
    return case


# ---- seeded generators: template contents and histories must not matter ------------------------------------
def generator_oracle(r, n):
    import numpy as np
    import xarray as xr
    import dask.array as da
    from xrspatial import generate_terrain, perlin
    rng = r.rng
    for k in range(n):
        h, w = rng.choice([4, 6, 9]), rng.choice([5, 8])
        dtype = rng.choice(["float64", "float32"])
        seed = rng.choice([0, 1, 2, 5, 10, 77]) if k >= 2 else 0
        which = rng.choice(["perlin", "terrain"]) if k >= 2 else ["perlin", "terrain"][k]
        backend = rng.choice(["numpy", "numpy", "dask"])
        kinds = ["zeros", "zeros-again", "random", "nan", "inf"]
        outs = {}
        for kind in kinds:
            rs = np.random.RandomState(k)
            a = np.zeros((h, w), dtype=dtype)
            if kind == "random":
                a = (rs.rand(h, w) * 100).astype(dtype)
            elif kind == "nan":
                a[rs.randint(h), rs.randint(w)] = np.nan
            elif kind == "inf":
                a[rs.randint(h), rs.randint(w)] = np.inf
            d = da.from_array(a, chunks=(max(1, h // 2), max(1, w // 2))) if backend == "dask" else a
            t = xr.DataArray(d, dims=["y", "x"])
            np.random.seed(rng.randrange(1000))          # whatever the global RNG holds must not matter
            if which == "perlin":
                o = perlin(t, seed=seed, freq=(2, 3))
            else:
                o = generate_terrain(t, seed=seed, x_range=(0, 100), y_range=(0, 50))
            outs[kind] = np.asarray(o.data)
        case = dict(kind="generator", fn=which, h=h, w=w, dtype=dtype, seed=seed, backend=backend, case=k)
        r.case(case, desc=case if k == 0 else None, nontrivial=True, tags=[f"gen:{which}", f"gen-backend:{backend}", f"gen-seed:{seed}"])
        if outs["zeros-again"].tobytes() != outs["zeros"].tobytes():
            r.fail(f"generator:{which}:global-rng",
                   f"{which}(seed={seed}) on the same {h}x{w} {dtype} {backend} zeros template gives different noise when the global "
                   f"numpy generator is in another state: not a function of (seed, shape, extent)", dict(case, template="zeros-again"))
            continue
        for kind in kinds[2:]:
            if outs[kind].tobytes() != outs["zeros"].tobytes():
                r.fail(f"generator:{which}:template-values",
                       f"{which}(seed={seed}) on a {h}x{w} {dtype} {backend} template holding {kind} differs from the same call on a "
                       f"zeros template ({int(np.isnan(outs[kind]).sum())} NaN cells vs {int(np.isnan(outs['zeros']).sum())})",
                       dict(case, template=kind))
                break


def replay_generator(c):
    import numpy as np
    import xarray as xr
    import dask.array as da
    from xrspatial import generate_terrain, perlin
    outs = {}
    for n_, kind in enumerate(("zeros", c.get("template", "nan"))):
        np.random.seed(1000 + n_)
        rs = np.random.RandomState(c.get("case", 0))
        a = np.zeros((c["h"], c["w"]), dtype=c["dtype"])
        if kind == "random":
            a = (rs.rand(c["h"], c["w"]) * 100).astype(c["dtype"])
        elif kind == "nan":
            a[rs.randint(c["h"]), rs.randint(c["w"])] = np.nan
        elif kind == "inf":
            a[rs.randint(c["h"]), rs.randint(c["w"])] = np.inf
        d = da.from_array(a, chunks=(max(1, c["h"] // 2), max(1, c["w"] // 2))) if c["backend"] == "dask" else a
        t = xr.DataArray(d, dims=["y", "x"])
        o = perlin(t, seed=c["seed"], freq=(2, 3)) if c["fn"] == "perlin" else \
            generate_terrain(t, seed=c["seed"], x_range=(0, 100), y_range=(0, 50))
        outs[kind] = np.asarray(o.data)
    ks = list(outs)
    return outs[ks[0]].tobytes() != outs[ks[1]].tobytes()


# ---- entry points -------------------------------------------------------------------------------------------
def suspects(lab):
    """what the broken obligations point at: public functions whose summary is no longer noStale / confined, kernels
    that became parallel / cached (and the public functions that reach them), and per shared cell that is written
    by somebody and exposed to somebody: its writers and readers"""
    rep = lab.rep
    pub = [f for f in rep["public"] if f in rep["functions"]]
    m = model_footprints(pub)
    bad = [f for f, d in m.items() if d and (d["nostale"] == "0" or d["confined"] == "0") and f != "bump.bump"]
    par = [k for k, v in rep["kernels"].items() if v["parallel"] or v["cache"]]
    reach = [f for f in pub if any(k in par for k in rep["functions"][f].get("kernels", []))]
    cells = {}
    for f, d in m.items():
        if not d or f == "bump.bump":
            continue
        for c in (d["writes"].split(",") if d["writes"] != "-" else []):
            cells.setdefault(c, dict(writers=[], readers=[]))["writers"].append(f)
        for c in (d["exposed"].split(",") if d["exposed"] != "-" else []):
            cells.setdefault(c, dict(writers=[], readers=[]))["readers"].append(f)
    for c in list(cells):
        v = cells[c]
        gen = lambda fs: [f for f in fs if family_of(f) in FAMILIES]  # noqa: E731
        v["writers"], v["readers"] = gen(v["writers"]), gen(v["readers"])
        if not v["writers"] or not v["readers"] or c == "param:binding":
            del cells[c]
    fams = []
    for f in bad + reach:
        fam = family_of(f)
        if fam and fam not in fams:
            fams.append(fam)
    return dict(bad=bad, par=par, reach=reach, cells=cells, fams=fams)


def run(r, budget=None, focus=None, histories=None, configs_of=None):
    lab = Lab(r)
    try:
        tier = r.tier
        n_hist, max_len, configs = {"quick": (4, 12, THREAD_CONFIGS), "thorough": (8, 60, THREAD_CONFIGS)}[tier]
        if budget:
            n_hist, max_len = budget

        def configs_for(k):
            """every run covers 1, 2, 4 and 16 threads; later histories alternate the middle ones (a session costs a full JIT)"""
            if configs_of is not None:
                return configs_of(k)
            if k == 0 or (tier == "thorough" and k < 3):
                return list(THREAD_CONFIGS)
            return [1, 16] + ([2] if k % 2 else [4]) * (tier == "thorough")
        r.rule = ("history = random sequence of public calls (families proximity/focal/zonal/generators/classify/surface/spectral/"
                  "path/polygonize/local/viewshed/kernels(circle, annulus, custom kernels, calc_cellsize, resolution helpers, scalar "
                  "metrics); 22% perturbers bump / user np.random / caller scribbling over EVERY array handed out so far; 12% verbatim "
                  "repeats; 12% calls related to an earlier one (one argument replaced by an equal-key value: 1 / 1.0 / True, an array "
                  "with the same bytes in another dtype and length, a distance string; or a sibling function with the same leading "
                  "arguments); 30% caller scribbles over the result and the lists it passed; rasters 5..12 cells wide (24..48 for "
                  "some focal), float/int dtypes, NaN cells, numpy or dask chunked, cell size by `res` attribute or (40%) by "
                  "coordinates only, shared objects reused between calls, and rasters DERIVED from shared objects by attrs-preserving "
                  "xarray operations (strided overview, window, coordinates rescaled to other units); seeds of the generators "
                  "include 0; proximity targets as lists and as arrays of six dtypes; one history per run on >= 250 000-cell "
                  "rasters (two or three calls, the first repeated) under 1 and 16 threads); every non-perturber call of the "
                  f"session under each of {configs} threads is compared bit-for-bit with the same call in a fresh interpreter -- on "
                  "the snapshot of its arguments, or, for derived rasters, on arguments built and derived from scratch; "
                  "non-trivial = a call at position >= 1 of its history or under more than one thread")
        r.trusted.append("harness/facts_effects.py (Python ast -> Gen/Effects.lean); subprocess isolation of the 'fresh' runs "
                         "(a fresh call = a child forked from a process that has imported the library and called nothing)")
        r.assumptions.append("summaries are syntactic: effects reached through dynamic dispatch, C extensions or numba/dask internals "
                             "are invisible to them; iterations of a parallel loop are treated as atomic")
        # corpus first
        for body in r.corpus():
            c = body.get("case", body)
            if c.get("kind") == "generator":
                r.case(dict(corpus=c), nontrivial=True, tags=["corpus"])
                if replay_generator(c):
                    r.fail(f"generator:{c['fn']}:template-values", f"corpus case: {c['fn']} depends on the template's cell values", c)
            elif c.get("history"):
                r.case(dict(corpus=c.get("fn")), nontrivial=True, tags=["corpus"])
                if still_fails(lab, c, f"corpus{lab.n}"):
                    r.fail(f"{c['kind']}:{c['fn']}", "corpus case still fails", c)
        big = None
        if histories is None:
            generator_oracle(r, {"quick": 8, "thorough": 30}[tier])
            # every run has the seeded generators in its first history; the other families rotate with the seed so
            # that a thorough run (and any few quick seeds) covers all of them
            order = sorted(f for f in FAMILIES if f != "generators")
            off = (r.seed * 2 * n_hist) % len(order)
            order = order[off:] + order[:off]
            per = -(-len(order) // n_hist) if tier == "thorough" else 2
            hs = []
            for k in range(n_hist):
                must = (["generators"] if k == 0 else []) + [order[(k * per + j) % len(order)] for j in range(per)]
                must = [m for m in must if m != "viewshed" or tier == "thorough" or k == 0]
                hs.append(gen_history(r.rng, max_len, focus=focus, allow_viewshed=(tier == "thorough" or k == 0), must=must))
            if not budget:
                big = gen_big_history(r.rng, n_calls={"quick": 2, "thorough": 5}[tier])
        else:
            hs = histories
        futs = [lab.orch.submit(check_history, lab, h, f"h{k}-{lab.n}", configs_for(k)) for k, h in enumerate(hs)]
        if big:
            hs = hs + [big]
            futs.append(lab.orch.submit(check_history, lab, big, f"big-{lab.n}", [1, 16] if tier == "quick" else [1, 4, 16]))
        for k, (h, f) in enumerate(zip(hs, futs)):
            fails = f.result()
            r.tag("histories")
            r.tag("history-calls", len(h["history"]))
            for sp in h["history"]:
                if sp.get("related"):
                    r.tag("related:" + sp["related"])
                if sp.get("size"):
                    r.tag("size:" + sp["size"])
            report(lab, h, f"h{k}", fails, configs)
        r.extra["fresh_processes"] = r.extra.get("fresh_processes", 0) + lab.n
    finally:
        lab.close()


def search(r):
    """an obligation or the correspondence broke: derive histories from what the broken summaries say -- which shared cell
    is written by whom and read by whom, which kernel became parallel and who reaches it -- before random histories"""
    lab = Lab(r)
    try:
        sus = suspects(lab)
        r.notes.append(f"search: summaries no longer noStale/confined: {sus['bad'][:8]}; parallel/cached kernels: {sus['par'][:8]} reached "
                       f"by {sus['reach'][:6]}; exposed cells: { {c: (v['writers'][:4], v['readers'][:4]) for c, v in list(sus['cells'].items())[:6]} }; "
                       f"families {sus['fams']}")
    finally:
        lab.close()
    generator_oracle(r, 12)
    if r.failures:
        return
    rng = r.rng
    # 0. kernels that became parallel / cached: the functions reaching them on large rasters, repeated, 1 vs many threads
    if sus["reach"]:
        fns = sus["reach"][:6]
        hs = [h for h in (gen_big_history(rng, fns=fns, n_calls=min(3, len(fns))) for _ in range(2)) if h]
        if hs:
            r.tag("targeted-histories:kernels", len(hs))
            run(r, budget=(len(hs), 4), histories=hs, configs_of=lambda k: [1, 16, 4])
            if r.failures:
                return
    # 1. per exposed cell: a writer, then its readers with repeated / equal-key / sibling / derived arguments
    targeted = []
    for cell, v in list(sus["cells"].items())[:4]:
        readers = [f for f in v["readers"] if f in sus["bad"]] or v["readers"]
        for _ in range({"quick": 2, "thorough": 4}[r.tier]):
            h = gen_cell_history(rng, cell, v["writers"][:6], readers[:6])
            if h:
                targeted.append(h)
    if targeted:
        r.tag("targeted-histories:cells", len(targeted))
        run(r, budget=(len(targeted), 20), histories=targeted, configs_of=lambda k: [1, 4] if k % 2 else [1, 16])
        if r.failures:
            return
    # 2. hammer each suspect function: many calls of it, defaults relied upon, shared rasters
    n = {"quick": 14, "thorough": 30}[r.tier]
    per = {"quick": 2, "thorough": 4}[r.tier]
    targeted = []
    for fn in [f for f in sus["bad"] if family_of(f) in FAMILIES][:4]:
        for _ in range(per):
            h = gen_targeted_history(rng, n, fn)
            if h:
                targeted.append(h)
    if targeted:
        r.tag("targeted-histories", len(targeted))
        run(r, budget=(len(targeted), n), histories=targeted)
        if r.failures:
            return
    # 3. histories concentrated on the suspect families
    for round_ in range({"quick": 1, "thorough": 3}[r.tier]):
        run(r, budget=({"quick": 4, "thorough": 8}[r.tier], {"quick": 14, "thorough": 40}[r.tier]), focus=sus["fams"] or None)
        if r.failures:
            return


def replay(r, body):
    c = body["case"]
    if c.get("kind") == "generator":
        bad = replay_generator(c)
    else:
        lab = Lab(r)
        try:
            bad = still_fails(lab, c, "replay")
        finally:
            lab.close()
    print("still fails" if bad else "does not fail on the current tree")
    return 1 if bad else 0


if __name__ == "__main__":
    worker_main(sys.argv[1:])
