"""
Shared pieces of the C02 / C03 / C04 checks (zonal stats, dask zonal tables, crosstab):
case generators, runners of the real code, canonical tables, the plain-Python property oracles
(written from the property statements, independent of the Lean model) and the requests to the
Lean driver (Driver/Zonal.lean).

A case is a JSON-able dict; rasters are stored as exact tokens (common.tok) + dtype name:
  h, w, zones[], zdtype, values[] | layers[[label, values[]]...], vdtype, nodata, zone_ids, cat_ids, ...
"""
import itertools
import math
from fractions import Fraction

import numpy as np
import xarray as xr

from common import close, tok, untok, untok_exact

STATS = ["mean", "max", "min", "sum", "std", "var", "count"]
EXACT_STATS = ("max", "min", "count")


def source_facts():
    """the structural facts the translator read from /repo on this run (Gen/report.json); used only to
    *name* a finding: a defect whose repair is present in the source is not a candidate explanation"""
    import json
    import os
    from common import LEAN
    try:
        rep = json.load(open(os.path.join(LEAN, "XrsVerif", "Gen", "report.json")))
        return rep.get("facts:Zonal.lean", {})
    except (OSError, ValueError):
        return {}


# ---------------------------------------------------------------- arrays <-> tokens
def arr_of(tokens, dtype, shape):
    a = np.array([untok(t) for t in tokens], dtype=np.float64)
    return a.astype(dtype).reshape(shape)


def toks_of(a):
    return [tok(v) for v in np.asarray(a).ravel().tolist()]


def num_of(t):
    """token | None -> python number (ints stay ints when integral, as a caller would write them)"""
    if t is None:
        return None
    v = untok(t)
    if v == v and not math.isinf(v) and v == int(v):
        return int(v)
    return v


def ex(t):
    """token -> Fraction | 'nan' | 'inf' | '-inf'"""
    return untok_exact(t)


def is_fin(e):
    return isinstance(e, Fraction)


# ---------------------------------------------------------------- generators
ZONE_POOLS = [[0, 1, 2, 3, 4], [10, 20, 30, 40, 50], [-3, -1, 0, 2, 5], [0.5, 1.5, 2.25, -0.75, 3], [1, 2.5, -2, 7, 100]]


def gen_shape(rng, max_h=6, max_w=7):
    r = rng.random()
    if r < 0.1:
        return 1, rng.randint(1, max_w)
    if r < 0.2:
        return rng.randint(1, max_h), 1
    return rng.randint(1, max_h), rng.randint(1, max_w)


def gen_zones(rng, h, w, nonfinite=True):
    n = h * w
    pool = rng.choice(ZONE_POOLS)
    ids = rng.sample(pool, rng.randint(1, len(pool)))
    layout = rng.choice(["random", "random", "blocks", "stripes", "interleaved", "single", "rects"])
    background = None
    if layout == "rects":             # rasterised polygons: axis-aligned rectangles on a background (NaN or one more id)
        background = math.nan if nonfinite and rng.random() < 0.75 else ids[-1]
        z = [background] * n
        for zid in ids[:max(1, len(ids) - (0 if background != background else 1))][:3]:
            r0 = rng.randrange(0, h)
            r1 = rng.randint(r0 + 1, h)
            c0 = rng.randrange(0, w)
            c1 = rng.randint(c0 + 1, w)
            for i in range(r0, r1):
                for j in range(c0, c1):
                    z[i * w + j] = zid
    elif layout == "random":
        z = [rng.choice(ids) for _ in range(n)]
    elif layout == "blocks":          # contiguous runs in raster order, ids not in ascending order
        cuts = sorted(rng.randrange(0, n + 1) for _ in range(len(ids) - 1))
        z, k = [], 0
        for i in range(n):
            while k < len(cuts) and i >= cuts[k]:
                k += 1
            z.append(ids[k])
    elif layout == "stripes":         # column stripes
        z = [ids[(j * len(ids)) // w] for _ in range(h) for j in range(w)]
    elif layout == "interleaved":
        z = [ids[(i + j) % len(ids)] for i in range(h) for j in range(w)]
    else:
        z = [ids[0]] * n
    allints = all(v == v and float(v) == int(v) for v in z)
    kinds = []
    if background is not None and background != background:
        kinds = ["nan"] if rng.random() < 0.7 else ["nan", rng.choice(["inf", "-inf"])]
        z = [float(v) for v in z]
        for i in range(n):            # a few stray non-finite cells inside the polygons as well
            if rng.random() < 0.05:
                z[i] = {"nan": math.nan, "inf": math.inf, "-inf": -math.inf}[rng.choice(kinds)]
        return z, rng.choice(["float64", "float64", "float32"]), ids, layout, kinds
    if nonfinite and rng.random() < 0.55:
        kinds = [k for k in ("nan", "inf", "-inf") if rng.random() < 0.5] or ["nan"]
    z = [float(v) for v in z]
    for i in range(n):
        if kinds and rng.random() < 0.18:
            z[i] = {"nan": math.nan, "inf": math.inf, "-inf": -math.inf}[rng.choice(kinds)]
    if kinds or not allints:
        dtype = rng.choice(["float64", "float64", "float32"])
    else:
        dtype = rng.choice(["float64", "float32", "int32", "int64"])
    return z, dtype, ids, layout, kinds


def gen_values(rng, n, kind=None, nonfinite=True):
    kind = kind or rng.choice(["digits", "digits", "ints", "dyadic", "narrow-int"])
    if kind == "narrow-int":      # 8/16-bit integers near the top of their range: squares and sums leave the dtype
        dtype = rng.choice(["uint8", "int8", "uint16", "int16"])
        lo, hi = {"uint8": (0, 255), "int8": (-128, 127), "uint16": (0, 65535), "int16": (-32768, 32767)}[dtype]
        v = [float(rng.choice([hi, hi - 1, hi - rng.randint(0, hi // 4), lo, rng.randint(lo, hi)])) for _ in range(n)]
        return v, dtype, kind, []
    if kind == "digits":          # few distinct values: good categories
        alphabet = rng.sample([0, 1, 2, 3, 5, 8, 10, 20, 30], rng.randint(1, 5))
        v = [rng.choice(alphabet) for _ in range(n)]
    elif kind == "ints":
        v = [rng.randint(-16, 16) for _ in range(n)]
    else:
        v = [rng.randint(-64, 64) / 4 for _ in range(n)]
    v = [float(x) for x in v]
    kinds = []
    if nonfinite and rng.random() < 0.5:
        kinds = [k for k in ("nan", "inf", "-inf") if rng.random() < 0.5] or ["nan"]
    for i in range(n):
        if kinds and rng.random() < 0.15:
            v[i] = {"nan": math.nan, "inf": math.inf, "-inf": -math.inf}[rng.choice(kinds)]
    if kinds or kind == "dyadic":
        dtype = rng.choice(["float64", "float64", "float32"])
    else:
        dtype = rng.choice(["float64", "float32", "int32", "int64"])
    return v, dtype, kind, kinds


def gen_nodata(rng, values, ids):
    r = rng.random()
    fin = [v for v in values if v == v and not math.isinf(v)]
    if r < 0.4 or not fin:
        return None
    if r < 0.75:
        return rng.choice(fin)
    if r < 0.85:
        return float(rng.choice(ids))
    if r < 0.92:
        return 0.0
    if r < 0.96:
        return math.nan
    return 99.0


# ---- values adjacent to nodata ---------------------------------------------------------------------------
# "different from nodata_values" is an exact comparison: the cells right next to the nodata value are data.
NEAR_BIG = [100000, 200000, 250000, 10 ** 6, 2 ** 24 - 8, 10 ** 7, 2 ** 31 - 8, 10 ** 9, 10 ** 12]
NEAR_SMALL = [-9999, -32768, 255, 65535, -1, 7, 100]
NEAR_FLOAT = [1000.0, -32768.0, 0.5, 1.0, 1e6, -9999.0, 123456.75, 2.0 ** -20, 65535.0, 1e9]
INT_RANGE = {"int32": (-2 ** 31, 2 ** 31 - 1), "int64": (-2 ** 53, 2 ** 53), "float64": (-2 ** 53, 2 ** 53),
             "float32": (-2 ** 24, 2 ** 24)}


def near_spec(rng, mode=None):
    """choose a nodata value and the valid values surrounding it:
       int-big    |nodata| >= 1e5, neighbours nodata +- 1, 2, 3 (integer and float rasters)
       int-small  the usual sentinels (-9999, 255, ...), neighbours +- 1, 2
       float-ulp  a float nodata, neighbours = the next / previous few floats of the raster's dtype, a few ppm off,
                  a few tens of ppm off
       zero-tiny  nodata 0, neighbours = tiny non-zero numbers of either sign (down to the smallest subnormal)
    every value is exactly representable in the raster's dtype (the library compares in that dtype)"""
    mode = mode or rng.choice(["int-big", "int-big", "int-small", "float-ulp", "float-ulp", "zero-tiny"])
    if mode in ("int-big", "int-small"):
        dtype = rng.choice(["int32", "int64", "float64", "float32"])
        lo, hi = INT_RANGE[dtype]
        pool = [x for x in (NEAR_BIG if mode == "int-big" else NEAR_SMALL) if lo + 4 <= x <= hi - 4]
        nd = rng.choice(pool) * (rng.choice([1, 1, -1]) if mode == "int-big" else 1)
        ds = [-3, -2, -1, 1, 2, 3] if mode == "int-big" else [-2, -1, 1, 2]
        return dict(mode=mode, dtype=dtype, nodata=float(nd), near=[float(nd + d) for d in ds])
    dtype = rng.choice(["float64", "float64", "float32"])
    t = np.dtype(dtype).type
    if mode == "zero-tiny":
        fi = np.finfo(t)
        pos = [t(2.0 ** -30), t(2.0 ** -27), t(2.0 ** -40), t(1e-9), fi.tiny, np.nextafter(t(0), t(1)), t(2.0 ** -100)]
        near = [float(x) for x in pos] + [-float(x) for x in pos]
        return dict(mode=mode, dtype=dtype, nodata=0.0, near=near)
    x = t(rng.choice(NEAR_FLOAT) * rng.choice([1, 1, -1]))
    near = []
    for direction in (t(np.inf), t(-np.inf)):
        y = x
        for k in range(1, 65):
            y = np.nextafter(y, direction)
            if k in (1, 2, 3, 8, 64):
                near.append(float(y))
    for rel in (2.0 ** -17, -2.0 ** -17, 2.0 ** -14, -2.0 ** -14, 2.0 ** -10, -2.0 ** -10):
        near.append(float(t(x * t(1 + rel))))
    near = sorted({v for v in near if v != float(x) and not math.isinf(v)})
    return dict(mode=mode, dtype=dtype, nodata=float(x), near=near)


def near_values(rng, n, spec, nonfinite=True):
    """a value raster around `spec['nodata']`: its neighbours, the nodata value itself, a few ordinary levels"""
    few = rng.sample(spec["near"], min(len(spec["near"]), rng.randint(1, 4)))     # few levels: good categories too
    other = [float(x) for x in rng.sample([0, 1, 2, 3, 5, 8, 10, 20, 30], 2)]
    v = []
    for _ in range(n):
        r = rng.random()
        v.append(rng.choice(few) if r < 0.55 else spec["nodata"] if r < 0.75 else rng.choice(other))
    kinds = []
    if nonfinite and spec["dtype"].startswith("float") and rng.random() < 0.4:
        kinds = [k for k in ("nan", "inf", "-inf") if rng.random() < 0.5] or ["nan"]
        for i in range(n):
            if rng.random() < 0.12:
                v[i] = {"nan": math.nan, "inf": math.inf, "-inf": -math.inf}[rng.choice(kinds)]
    return v, spec["dtype"], "near-nodata:" + spec["mode"], kinds


NEAR_RATE = 0.15


def gen_values_nodata(rng, n, ids, kind=None):
    """(values, dtype, kind, non-finite kinds, nodata): the ordinary streams, or (15 %) values adjacent to nodata"""
    if rng.random() < NEAR_RATE:
        spec = near_spec(rng)
        v, dt, vk, kinds = near_values(rng, n, spec)
        return v, dt, vk, kinds, spec["nodata"]
    v, dt, vk, kinds = gen_values(rng, n, kind=kind)
    return v, dt, vk, kinds, gen_nodata(rng, v, ids)


def gen_selection(rng, present, absent_pool, allow_none=True, need_one=False):
    """a request list: subset / permutation of the present ids, possibly with absent ids"""
    r = rng.random()
    if allow_none and r < 0.35:
        return None
    present = list(present)
    if r < 0.55 and present:
        sel = present[:]                      # everything, shuffled
    else:
        sel = rng.sample(present, rng.randint(1 if need_one and present else 0, len(present))) if present else []
    if rng.random() < 0.4:
        sel += [a for a in rng.sample(absent_pool, rng.randint(1, 2)) if a not in sel]
    rng.shuffle(sel)
    if not sel:
        sel = [absent_pool[0]] if not need_one or not present else [present[0]]
    return sel


def finite_ids(zs):
    return sorted({v for v in zs if v == v and not math.isinf(v)})


def make_stats_case(rng, max_h=6, max_w=7, need_one=False):
    h, w = gen_shape(rng, max_h, max_w)
    n = h * w
    z, zdt, ids, layout, zkinds = gen_zones(rng, h, w)
    v, vdt, vkind, vkinds, nodata = gen_values_nodata(rng, n, ids)
    present = finite_ids(np.array(z).astype(zdt).astype(float).tolist())
    # sometimes empty one zone completely (no valid cell)
    if present and rng.random() < 0.3:
        victim = rng.choice(present)
        for i in range(n):
            if z[i] == victim:
                v[i] = nodata if (nodata is not None and nodata == nodata and rng.random() < 0.5) else (
                    math.nan if vdt.startswith("float") else v[i])
        if not vdt.startswith("float") and (nodata is None or nodata != nodata):
            nodata = None
    zone_ids = gen_selection(rng, present, [77.0, -5.5, 1000.0], need_one=need_one)
    k = rng.randint(1, len(STATS))
    stats = rng.sample(STATS, k) if rng.random() < 0.7 else list(STATS)
    return dict(h=h, w=w, zones=[tok(x) for x in z], zdtype=zdt, values=[tok(x) for x in v], vdtype=vdt,
                nodata=None if nodata is None else tok(nodata),
                zone_ids=None if zone_ids is None else [tok(x) for x in zone_ids], stats=stats,
                layout=layout, zkinds=zkinds, vkind=vkind, vkinds=vkinds)


def compositions(n):
    """every way to write n as an ordered sum of positive integers"""
    if n == 0:
        return [()]
    out = []
    for first in range(1, n + 1):
        for rest in compositions(n - first):
            out.append((first,) + rest)
    return out


def gen_chunks(rng, n):
    k = rng.randint(1, n)
    cuts = sorted(rng.sample(range(1, n), k - 1)) if n > 1 else []
    cuts = [0] + cuts + [n]
    return tuple(cuts[i + 1] - cuts[i] for i in range(len(cuts) - 1))


# ---------------------------------------------------------------- the overflow-scale size class
# The bookkeeping of zonal.py is done in 32-bit integers (`_strides` returns int32 breaks, the crosstab counts are
# their differences): anything computed *from* a count in that width wraps once a count times a small factor passes
# 2^31.  One raster of realistic size (about 4800 x 4800, one dominant zone / category holding more than 2^31 / 100
# cells) exercises that; it is described by rectangles so that the replay file stays small.
SCALE_MIN_CELLS = 2 ** 31 // 100 + 1


def make_scale_case(rng):
    h, w = rng.randint(4700, 4860), rng.randint(4700, 4860)
    zid = rng.sample(range(1, 100), 4)
    cat = rng.sample(range(1, 100), 5)
    zrects = []
    for k in range(rng.randint(1, 3)):
        r0, c0 = rng.randrange(0, h - 300), rng.randrange(0, w - 300)
        zrects.append([r0, r0 + rng.randint(1, 300), c0, c0 + rng.randint(1, 300), zid[1 + k]])
    vrects = [[0, h, (c0 := rng.randrange(0, w - 30)), c0 + rng.randint(1, 30), cat[1]]]      # a full-height strip
    for k in range(rng.randint(1, 3)):
        r0, c0 = rng.randrange(0, h - 300), rng.randrange(0, w - 300)
        vrects.append([r0, r0 + rng.randint(1, 300), c0, c0 + rng.randint(1, 300), cat[2 + k]])
    nodata = rng.choice([None, cat[2], cat[2], 0])
    return dict(scale=True, h=h, w=w, zdtype=rng.choice(["int8", "uint8", "int16"]), zfill=zid[0], zrects=zrects,
                vdtype=rng.choice(["int8", "uint8", "int16"]), vfill=cat[0], vrects=vrects,
                nodata=None if nodata is None else tok(nodata), zone_ids=None, cat_ids=None)


def scale_arrays(c):
    zones = np.full((c["h"], c["w"]), c["zfill"], dtype=c["zdtype"])
    for r0, r1, c0, c1, v in c["zrects"]:
        zones[r0:r1, c0:c1] = v
    vals = np.full((c["h"], c["w"]), c["vfill"], dtype=c["vdtype"])
    for r0, r1, c0, c1, v in c["vrects"]:
        vals[r0:r1, c0:c1] = v
    return zones, vals


def scale_hist(c, zones, vals):
    """{zone: {value: number of cells}} over the valid (non-nodata) cells, by one np.bincount over (zone, value) codes
    (every value is a small non-negative integer here); independent of the library's sort-and-stride"""
    span = int(vals.max()) + 1
    code = zones.astype(np.int64) * span + vals.astype(np.int64)
    cnt = np.bincount(code.ravel())
    nd = None if c.get("nodata") is None else untok(c["nodata"])
    out = {}
    for k in np.flatnonzero(cnt).tolist():
        z, v = divmod(k, span)
        out.setdefault(z, {})
        if nd is None or v != nd:
            out[z][v] = int(cnt[k])
    return out


def scale_data_arrays(c, backend="numpy"):
    zones, vals = scale_arrays(c)
    if backend == "dask":
        import dask.array as da
        ch = (c["h"] // 2 + 1, c["w"] // 2 + 1)
        return zones, vals, xr.DataArray(da.from_array(zones, chunks=ch), dims=["y", "x"]), \
            xr.DataArray(da.from_array(vals, chunks=ch), dims=["y", "x"])
    return zones, vals, xr.DataArray(zones, dims=["y", "x"]), xr.DataArray(vals, dims=["y", "x"])


def run_scale_crosstab(c, backend="numpy"):
    """-> (status, table, histogram)"""
    from xrspatial.zonal import crosstab
    zones, vals, zd, vd = scale_data_arrays(c, backend)
    hist = scale_hist(c, zones, vals)
    try:
        out = crosstab(zones=zd, values=vd, agg=c["agg"], nodata_values=num_of(c.get("nodata")))
        if backend == "dask":
            import dask
            with dask.config.set(scheduler="threads", num_workers=4):
                out = out.compute()
    except Exception as ex_:  # noqa: BLE001
        return err_kind(ex_), str(ex_)[:200], hist
    cols = [col for col in out.columns if col != "zone"]
    return "ok", dict(zone=[float(x) for x in out["zone"].tolist()], cats=[float(x) for x in cols],
                      rows=[[float(out[col].iloc[k]) for col in cols] for k in range(len(out))]), hist


def oracle_scale_crosstab(c, st, tbl, hist):
    """the contingency table / percentages of a scale case against the histogram; percentages to 1e-6 relative
    (the library keeps `_total_count` in float32, exact only up to 2^24 cells)"""
    if st != "ok":
        return f"crosstab raised {st}: {tbl}"
    zs = sorted(hist)
    cats = sorted({v for d in hist.values() for v in d})
    if tbl["zone"] != [float(z) for z in zs]:
        return f"rows {tbl['zone']} but the zones present are {zs}"
    if tbl["cats"] != [float(v) for v in cats]:
        return f"columns {tbl['cats']} but the categories present are {cats}"
    for k, z in enumerate(zs):
        total = sum(hist[z].values())
        for j, v in enumerate(cats):
            n = hist[z].get(v, 0)
            got = tbl["rows"][k][j]
            if c["agg"] == "count":
                if got != n:
                    return f"zone {z}, category {v}: count = {got}, the raster has {n} such cells"
            elif total == 0:
                if got == got:
                    return f"zone {z}, category {v}: percentage = {got} for a zone without valid cell (expected NaN)"
            elif not close(got, 100.0 * n / total, rel=1e-6, abs_=1e-9):
                return f"zone {z}, category {v}: percentage = {got}, but {n} of the zone's {total} valid cells " \
                       f"are {100.0 * n / total} %"
        if c["agg"] == "percentage" and total and not close(sum(tbl["rows"][k]), 100.0, rel=1e-6, abs_=1e-9):
            return f"zone {z}: percentages sum to {sum(tbl['rows'][k])}"
    return None


def run_scale_stats(c, backend="numpy"):
    from xrspatial.zonal import stats
    zones, vals, zd, vd = scale_data_arrays(c, backend)
    hist = scale_hist(c, zones, vals)
    try:
        out = stats(zones=zd, values=vd, stats_funcs=list(c["stats"]), nodata_values=num_of(c.get("nodata")))
        if backend == "dask":
            import dask
            with dask.config.set(scheduler="threads", num_workers=4):
                out = out.compute()
    except Exception as ex_:  # noqa: BLE001
        return err_kind(ex_), str(ex_)[:200], hist
    tbl = {"zone": [float(x) for x in out["zone"].tolist()]}
    for s in c["stats"]:
        tbl[s] = [float(x) for x in out[s].tolist()]
    return "ok", tbl, hist


def oracle_scale_stats(c, st, tbl, hist, dask_formula=False):
    """every statistic from the histogram in exact arithmetic (count / max / min exact, sums of integers below 2^53
    exact, mean / var / std to 1e-9 relative -- var / std through the cancellation bound of `stat_close`)"""
    if st != "ok":
        return f"stats raised {st}: {tbl}"
    zs = sorted(hist)
    if tbl["zone"] != [float(z) for z in zs]:
        return f"rows {tbl['zone']} but the zones present are {zs}"
    for k, z in enumerate(zs):
        d = hist[z]
        n = sum(d.values())
        for s in c["stats"]:
            got = tbl[s][k]
            if n == 0:
                ok, want = got != got, "NaN"
            else:
                tot = sum(Fraction(v) * m for v, m in d.items())
                if s == "count":
                    want = n
                elif s == "sum":
                    want = float(tot)
                elif s == "max":
                    want = max(d)
                elif s == "min":
                    want = min(d)
                elif s == "mean":
                    want = float(tot / n)
                else:
                    mean = tot / n
                    var = sum(m * (Fraction(v) - mean) ** 2 for v, m in d.items()) / n
                    want = math.sqrt(float(var)) if s == "std" else float(var)
                if s in EXACT_STATS or s == "sum":
                    ok = got == want
                elif s in ("var", "std"):
                    # numbers up to a few hundred: n * eps * (mean square) bounds the rounding of either formula
                    msq = float(sum(Fraction(v) ** 2 * m for v, m in d.items()) / n)
                    tv = 1e-9 * (msq + 1.0)
                    ok = got == got and abs(got - want) <= (tv if s == "var" else tv / max(want, math.sqrt(tv)))
                else:
                    ok = close(got, want, rel=1e-9, abs_=1e-9)
            if not ok:
                return f"zone {z}: {s} = {got}, but over its {n} valid cells it is {want}"
    return None


# ---------------------------------------------------------------- the real code
def case_arrays(c):
    zones = arr_of(c["zones"], c["zdtype"], (c["h"], c["w"]))
    if "layers" in c:
        vals = np.stack([arr_of(l[1], c["vdtype"], (c["h"], c["w"])) for l in c["layers"]])
    else:
        vals = arr_of(c["values"], c["vdtype"], (c["h"], c["w"]))
    return zones, vals


def relayout(a, how):
    """same values, different memory layout (results must not depend on it)"""
    if how == "F":
        return np.asfortranarray(a)
    if how == "T":                       # transposed view of a C array
        return np.ascontiguousarray(a.T).T if a.ndim == 2 else a
    if how == "strided" and a.ndim == 2: # every second column of a wider buffer
        big = np.zeros((a.shape[0], a.shape[1] * 2), dtype=a.dtype)
        big[:, ::2] = a
        return big[:, ::2]
    return a


def data_arrays(c, backend="numpy", zchunks=None, vchunks=None):
    zones, vals = case_arrays(c)
    if backend == "numpy":
        # the memory layout is derived from the case itself, so replays see the same layout
        k = (c["h"] * 7 + c["w"] * 3 + len(c.get("zones", []))) % 8
        zones = relayout(zones, ["C", "F", "C", "T", "C", "strided", "C", "F"][k])
        vals = relayout(vals, ["C", "C", "F", "T", "C", "C", "strided", "F"][k])
    if backend == "dask":
        import dask.array as da
        zones = da.from_array(zones, chunks=zchunks)
        if vals.ndim == 3:
            vchunks = (vals.shape[0],) + tuple(vchunks) if len(vchunks) == 2 else vchunks
        vals = da.from_array(vals, chunks=vchunks)
    # dimension names (the *dims* dimension of C03's dask streams): `zdims` / `vdims` in the case, a list of names or
    # "auto" = no names given (xarray's dim_0, dim_1, …); default: both rasters on ("y", "x"), layers on "cat"
    zdims = c.get("zdims") or ["y", "x"]
    vdims = c.get("vdims") or (["cat", "y", "x"] if vals.ndim == 3 else ["y", "x"])
    zd = xr.DataArray(zones) if zdims == "auto" else xr.DataArray(zones, dims=list(zdims))
    if vals.ndim == 3:
        vd = xr.DataArray(vals) if vdims == "auto" else xr.DataArray(vals, dims=list(vdims))
        vd = vd.assign_coords({vd.dims[0]: [num_of(l[0]) for l in c["layers"]]})
    else:
        vd = xr.DataArray(vals) if vdims == "auto" else xr.DataArray(vals, dims=list(vdims))
    return zd, vd


def err_kind(ex_):
    return "err:" + type(ex_).__name__


def run_stats(c, backend="numpy", zchunks=None, vchunks=None, return_type="pandas.DataFrame", stats_funcs=None,
              scheduler=None, num_workers=None):
    """-> ('ok', {'zone': [...], stat: [...]}) | ('raster', {stat: [flat...]}) | ('err:Kind', message)"""
    from xrspatial.zonal import stats
    zd, vd = data_arrays(c, backend, zchunks, vchunks)
    zone_ids = None if c.get("zone_ids") is None else [num_of(t) for t in c["zone_ids"]]
    sf = list(c["stats"]) if stats_funcs is None else stats_funcs
    kw = dict(zones=zd, values=vd, zone_ids=zone_ids, stats_funcs=sf, nodata_values=num_of(c.get("nodata")))
    if return_type != "pandas.DataFrame":
        kw["return_type"] = return_type
    try:
        out = stats(**kw)
        if backend == "dask":
            import dask
            cfg = {}
            if scheduler:
                cfg["scheduler"] = scheduler
            if num_workers:
                cfg["num_workers"] = num_workers
            with dask.config.set(**cfg):
                out = out.compute()
    except Exception as ex_:  # noqa: BLE001  (the kind of exception is the observation)
        return err_kind(ex_), str(ex_)[:200]
    if return_type == "pandas.DataFrame":
        tbl = {"zone": [float(x) for x in out["zone"].tolist()]}
        for s in (sf if isinstance(sf, list) else list(sf.keys())):
            tbl[s] = [float(x) for x in out[s].tolist()]
        return "ok", tbl
    names = [str(s) for s in out.coords["stats"].values.tolist()]
    return "raster", {s: [float(x) for x in np.asarray(out.data)[i].ravel().tolist()] for i, s in enumerate(names)}


def run_crosstab(c, backend="numpy", zchunks=None, vchunks=None, scheduler=None, num_workers=None):
    """-> ('ok', {'zone': [...], 'cats': [...], 'rows': [[...]]}) | ('err:Kind', message)"""
    from xrspatial.zonal import crosstab
    zd, vd = data_arrays(c, backend, zchunks, vchunks)
    zone_ids = None if c.get("zone_ids") is None else [num_of(t) for t in c["zone_ids"]]
    cat_ids = None if c.get("cat_ids") is None else [num_of(t) for t in c["cat_ids"]]
    kw = dict(zones=zd, values=vd, zone_ids=zone_ids, cat_ids=cat_ids, agg=c["agg"],
              nodata_values=num_of(c.get("nodata")))
    if "layers" in c:
        kw["layer"] = 0
    try:
        out = crosstab(**kw)
        if backend == "dask":
            import dask
            cfg = {}
            if scheduler:
                cfg["scheduler"] = scheduler
            if num_workers:
                cfg["num_workers"] = num_workers
            with dask.config.set(**cfg):
                out = out.compute()
    except Exception as ex_:  # noqa: BLE001
        return err_kind(ex_), str(ex_)[:200]
    cols = [col for col in out.columns if col != "zone"]
    return "ok", dict(zone=[float(x) for x in out["zone"].tolist()], cats=[float(x) for x in cols],
                      rows=[[float(out[col].iloc[k]) for col in cols] for k in range(len(out))])


# ---------------------------------------------------------------- oracles (from the property statements)
def valid_cells(c, zone, values_tokens=None):
    """exact values of the cells whose zone equals `zone` and whose value is finite and != nodata.
    Zones / values are taken *after* the dtype cast (what the library sees)."""
    zones, vals = case_arrays(c)
    if values_tokens is not None:
        vals = arr_of(values_tokens, c["vdtype"], (c["h"], c["w"]))
    zf = zones.astype(np.float64).ravel()
    vf = vals.astype(np.float64).ravel()
    nd = c.get("nodata")
    nd = None if nd is None else untok(nd)
    out = []
    for z, v in zip(zf.tolist(), vf.tolist()):
        if z == zone and v == v and not math.isinf(v) and not (nd is not None and v == nd):
            out.append(Fraction(v))
    return out


def present_zones(c):
    zones, _ = case_arrays(c)
    return finite_ids(zones.astype(np.float64).ravel().tolist())


def wanted_zones(c):
    pres = present_zones(c)
    if c.get("zone_ids") is None:
        return pres
    req = {untok(t) for t in c["zone_ids"]}
    return [z for z in pres if z in req]


def exact_stat(s, cells):
    """Fraction (std: the variance, to be rooted) or None for NaN"""
    if not cells:
        return None
    n = len(cells)
    tot = sum(cells)
    if s == "mean":
        return tot / n
    if s == "max":
        return max(cells)
    if s == "min":
        return min(cells)
    if s == "sum":
        return tot
    if s == "count":
        return Fraction(n)
    m = tot / n
    return sum((x - m) ** 2 for x in cells) / n      # var, and std before the root


def eps_of(dtype):
    return 6e-8 if dtype == "float32" else 1.2e-16


def stat_close(s, got, exact, dtype, cells=None, dask_formula=False):
    """compare one table entry with the exact statistic; exact==None means NaN expected"""
    if exact is None:
        return got != got
    if got != got:
        if s == "std" and dask_formula and cells:
            # (ss - s^2/n)/n is rounded before the root is taken: when the true variance is below the rounding of
            # that formula the computed one may be negative and its root NaN
            n = len(cells)
            return float(exact) <= 64 * eps_of(dtype) * (float(sum(x * x for x in cells)) / n + 1.0)
        return False
    want = math.sqrt(float(exact)) if s == "std" else float(exact)
    if s in EXACT_STATS:
        return got == want
    rel = 2e-5 if dtype == "float32" else 1e-9
    abs_ = 1e-9
    if s in ("sum", "mean") and cells:
        # a sum of numbers of both signs is only accurate relative to the sum of their magnitudes
        mag = float(sum(abs(x) for x in cells))
        abs_ = max(abs_, 16 * eps_of(dtype) * (mag if s == "sum" else mag / len(cells)))
    if s in ("var", "std") and cells:
        # rounding of the documented formulas: (ss - s^2/n)/n cancels, bound it by eps * ss/n
        n = len(cells)
        scale = float(sum(x * x for x in cells)) / n
        tv = 64 * eps_of(dtype) * (scale + 1.0)
        if s == "var":
            abs_ = max(abs_, tv)
        else:
            abs_ = max(abs_, tv / max(want, math.sqrt(tv)))
    return close(got, want, rel=rel, abs_=abs_)


def oracle_stats_table(c, tbl, stats=None):
    """property C02 on a DataFrame result; returns None or a description of the failure"""
    stats = stats or c["stats"]
    want = wanted_zones(c)
    if tbl["zone"] != want:
        return f"rows {tbl['zone']} but the distinct finite requested zones are {want}"
    for k, z in enumerate(want):
        cells = valid_cells(c, z)
        for s in stats:
            got = tbl[s][k]
            e = exact_stat(s, cells)
            if not stat_close(s, got, e, c["vdtype"], cells):
                wtxt = "NaN" if e is None else (math.sqrt(float(e)) if s == "std" else float(e))
                return f"zone {z}: {s} = {got}, but the statistic over its {len(cells)} valid cells is {wtxt}"
    return None


def oracle_stats_raster(c, ras):
    zones, _ = case_arrays(c)
    zf = zones.astype(np.float64).ravel().tolist()
    want = set(wanted_zones(c))
    cache = {}
    for s in c["stats"]:
        if s not in ras:
            return f"statistic {s} missing from the DataArray"
        for i, z in enumerate(zf):
            got = ras[s][i]
            if z in want:
                if z not in cache:
                    cache[z] = valid_cells(c, z)
                e = exact_stat(s, cache[z])
                if not stat_close(s, got, e, c["vdtype"], cache[z]):
                    return f"cell {i} (zone {z}): {s} = {got}, zone statistic is {'NaN' if e is None else float(e)}"
            elif got == got:
                return f"cell {i} (zone {z}, not a selected zone): {s} = {got}, expected NaN"
    return None


def tables_agree(a, b, stats, dtype, c=None):
    """dask table vs numpy table (property C03): ids / counts / min / max exact, the rest to rounding"""
    if a["zone"] != b["zone"]:
        return f"zone columns differ: {a['zone']} vs {b['zone']}"
    for s in stats:
        for k, (x, y) in enumerate(zip(a[s], b[s])):
            cells = valid_cells(c, a["zone"][k]) if c is not None and s not in EXACT_STATS else None
            if (x != x or y != y) and not (s == "std" and cells and y == y):
                ok = (x != x) and (y != y)
            elif s in EXACT_STATS:
                ok = x == y
            else:
                e = None
                if cells:
                    e = exact_stat(s, cells)
                ok = stat_close(s, x, e, dtype, cells, dask_formula=True) and stat_close(s, y, e, dtype, cells) if e is not None \
                    else close(x, y, rel=2e-5 if dtype == "float32" else 1e-9, abs_=1e-9)
            if not ok:
                return f"zone {a['zone'][k]}: {s} = {x} (dask) vs {y} (numpy)"
    return None


# ---------------------------------------------------------------- the Lean driver
def ids_arg(ts):
    if ts is None:
        return "none"
    return ",".join(ts) if ts else "-"


def req_common(c):
    parts = [f"zones={','.join(toks_of(case_arrays(c)[0].astype(np.float64)))}"]
    if "layers" in c:
        _, vals = case_arrays(c)
        parts.append("layers=" + ";".join(
            f"{l[0]}:{','.join(toks_of(vals[i].astype(np.float64)))}" for i, l in enumerate(c["layers"])))
    else:
        parts.append(f"values={','.join(toks_of(case_arrays(c)[1].astype(np.float64)))}")
    parts.append(f"nodata={'none' if c.get('nodata') is None else c['nodata']}")
    parts.append(f"zone_ids={ids_arg(c.get('zone_ids'))}")
    if "cat_ids" in c:
        parts.append(f"cat_ids={ids_arg(c.get('cat_ids'))}")
    return parts


def argsort_perm(c):
    """what np.argsort returns for the zones raster (the model takes it as a parameter)"""
    zones, _ = case_arrays(c)
    return ",".join(str(int(i)) for i in np.argsort(zones.ravel()).tolist())


def chunk_args(c, zchunks, vchunks):
    vr, vc = (vchunks[-2], vchunks[-1])
    return [f"w={c['w']}", "zr=" + ",".join(map(str, zchunks[0])), "zc=" + ",".join(map(str, zchunks[1])),
            "vr=" + ",".join(map(str, vr)), "vc=" + ",".join(map(str, vc))]


def parse_kv(reply):
    out = {}
    for part in reply.split(";"):
        k, v = part.split("=", 1)
        out[k] = v
    return out


def nums(s, conv=untok):
    return [] if s == "-" else [conv(t) for t in s.split(",")]


def parse_stats_reply(reply, stats):
    """model table -> {'zone': floats, stat: [Fraction|None]}  (std carried as its square)"""
    kv = parse_kv(reply)
    tbl = {"zone": nums(kv["zone"])}
    for s in stats:
        key = "std2" if s == "std" else s
        tbl[s] = [None if t == "nan" else untok_exact(t) for t in ([] if kv[key] == "-" else kv[key].split(","))]
    return tbl


def model_vs_real_table(model, real, stats, dtype, c, dask_formula=False):
    if model["zone"] != real["zone"]:
        return f"zone column: model {model['zone']} real {real['zone']}"
    for s in stats:
        if len(model[s]) != len(real[s]):
            return f"{s}: column lengths differ"
        for k, (m, g) in enumerate(zip(model[s], real[s])):
            cells = valid_cells(c, real["zone"][k]) if s not in EXACT_STATS and m is not None else None
            if not stat_close(s, g, m, dtype, cells, dask_formula=dask_formula):
                return f"zone {real['zone'][k]} {s}: model {None if m is None else float(m)} real {g}"
    return None


def parse_xtab_reply(reply):
    kv = parse_kv(reply)
    rows = [] if kv["rows"] == "" else [[None if t == "nan" else untok_exact(t) for t in r.split(",")] if r != "-" else []
                                        for r in kv["rows"].split("|")]
    return dict(zone=nums(kv["zone"]), cats=nums(kv["cats"]), rows=rows)


def parse_xtab3_reply(reply):
    kv = parse_kv(reply)
    zone, cats = nums(kv["zone"]), nums(kv["cats"])
    cols = [] if kv["cols"] == "" else [[None if t == "nan" else untok_exact(t) for t in col.split(",")] if col != "-" else []
                                        for col in kv["cols"].split("|")]
    rows = [[cols[j][k] for j in range(len(cats))] for k in range(len(zone))] if cols and all(len(col) == len(zone) for col in cols) else \
        ([[] for _ in zone] if not cols else None)
    return dict(zone=zone, cats=cats, rows=rows)


def xtab_entry_close(got, exact, dtype, rooted=False):
    if exact is None:
        return got != got
    if got != got:
        return False
    want = math.sqrt(float(exact)) if rooted else float(exact)
    return close(got, want, rel=2e-5 if dtype == "float32" else 1e-9, abs_=1e-7 if dtype == "float32" else 1e-9)
