"""
Layer T2 facts for C12 (xrspatial/classify.py) -> lean/XrsVerif/Gen/ClassifyFacts.lean

* `cpuBinShape`  the holes of the `_cpu_bin` search skeleton (comparison operators, index offsets,
                 initialisations, step sizes) read from the `ast`; `ok := false` when the skeleton is not
                 recognised.  The Lean model `Bin.searchS` *interprets* this value, and
                 `Props/C12.lean: shape_is_canonical` requires it to be the skeleton the theorems are proved for.
* `jenksBreakDtype`         dtype of the `kclass` array the Jenks breaks are stored in
* `nbLastForcedJenks/Fallback`  the raster maximum is the last bin in the Jenks branch (`bins[-1] = max_data`) /
                            is added to the distinct sample values in the too-few-unique-values branch
* `quantileGridIndexed`     the percentile grid is built from an integer `arange` (exactly k points) and its
                            last point is set to 100.0 unconditionally
* `eqIntLastForced`         `cuts[-1] = max_data` is executed on every path of `_run_equal_interval`
* `runBinCasts`             what `_run_numpy_bin` does to each operand before `_cpu_bin` compares them: `Cast.none`
                            (handed on as it is / `np.asarray(x)` without dtype), `Cast.dtype "float32"` (a fixed
                            dtype), `Cast.dataDtype` (`dtype=data.dtype`), `Cast.other src` (anything else);
                            `callOk`: the function is exactly those re-bindings followed by
                            `_cpu_bin(data, bins, new_values)` whose result is returned
* `binChainPassThrough`     `reclassify` -> `_bin` -> (`_run_dask_numpy_bin` ->) `_run_numpy_bin` hand `agg.data`, `bins`,
                            `new_values` on without re-binding them
"""
import ast
import os

REL = "xrspatial/classify.py"
OPS = {ast.Lt: "lt", ast.LtE: "le", ast.Gt: "gt", ast.GtE: "ge"}
FLIP = {"lt": "gt", "le": "ge", "gt": "lt", "ge": "le"}


class NoMatch(Exception):
    pass


def need(c, what):
    if not c:
        raise NoMatch(what)


def find_func(mod, name):
    for n in mod.body:
        if isinstance(n, ast.FunctionDef) and n.name == name:
            return n
    return None


def const_int(n):
    if isinstance(n, ast.Constant) and isinstance(n.value, int) and not isinstance(n.value, bool):
        return n.value
    if isinstance(n, ast.UnaryOp) and isinstance(n.op, ast.USub):
        v = const_int(n.operand)
        return None if v is None else -v
    return None


def offset(n, base):
    """n == base + c  ->  c   (base None: n is the constant c)"""
    if base is None:
        c = const_int(n)
        need(c is not None, "constant index expected: " + ast.unparse(n))
        return c
    if isinstance(n, ast.Name) and n.id == base:
        return 0
    if isinstance(n, ast.BinOp) and isinstance(n.left, ast.Name) and n.left.id == base:
        c = const_int(n.right)
        need(c is not None, "offset expected: " + ast.unparse(n))
        if isinstance(n.op, ast.Add):
            return c
        if isinstance(n.op, ast.Sub):
            return -c
    raise NoMatch(f"expected {base} + c, got {ast.unparse(n)}")


def is_sub(n, arr):
    return isinstance(n, ast.Subscript) and isinstance(n.value, ast.Name) and n.value.id == arr


def cmp_val_bins(test, base, val_left):
    """test is `val op bins[base + c]` or `bins[base + c] op val`; returns (op, c) normalised so that
    val is on the left when val_left else bins is on the left"""
    need(isinstance(test, ast.Compare) and len(test.ops) == 1 and type(test.ops[0]) in OPS, "comparison: " + ast.unparse(test))
    op = OPS[type(test.ops[0])]
    a, b = test.left, test.comparators[0]
    if isinstance(a, ast.Name) and a.id == "val" and is_sub(b, "bins"):
        c = offset(b.slice, base)
        return (op if val_left else FLIP[op]), c
    if isinstance(b, ast.Name) and b.id == "val" and is_sub(a, "bins"):
        c = offset(a.slice, base)
        return (FLIP[op] if val_left else op), c
    raise NoMatch("val/bins comparison: " + ast.unparse(test))


def assign_of(stmt, name):
    need(isinstance(stmt, ast.Assign) and len(stmt.targets) == 1 and isinstance(stmt.targets[0], ast.Name)
         and stmt.targets[0].id == name, f"assignment to {name}: " + ast.unparse(stmt))
    return stmt.value


def is_mid_formula(v):
    """(end + start) // 2"""
    if not (isinstance(v, ast.BinOp) and isinstance(v.op, ast.FloorDiv) and const_int(v.right) == 2):
        return False
    s = v.left
    if not (isinstance(s, ast.BinOp) and isinstance(s.op, ast.Add)):
        return False
    names = sorted(x.id for x in (s.left, s.right) if isinstance(x, ast.Name))
    return names == ["end", "start"]


def cpu_bin_shape(mod):
    f = find_func(mod, "_cpu_bin")
    need(f is not None, "_cpu_bin not found")
    inner = None
    for n in ast.walk(f):
        if isinstance(n, ast.If) and isinstance(n.test, ast.Call) and ast.unparse(n.test) == "np.isfinite(val)":
            inner = n
    need(inner is not None, "`if np.isfinite(val)` not found")
    need(not inner.orelse and len(inner.body) == 1 and isinstance(inner.body[0], ast.If), "body of the isfinite test")
    sh = {}
    # nbins = len(bins); val = data[y, x]; val_bin = -1
    src = ast.unparse(f)
    need("nbins = len(bins)" in src and "val = data[y, x]" in src, "nbins / val bindings")
    first = inner.body[0]
    sh["firstOp"], sh["firstIdx"] = cmp_val_bins(first.test, None, True)
    need(len(first.body) == 1, "first branch")
    sh["firstBin"] = offset(assign_of(first.body[0], "val_bin"), None)
    need(len(first.orelse) == 1 and isinstance(first.orelse[0], ast.If) and not first.orelse[0].orelse, "elif branch")
    last = first.orelse[0]
    sh["lastOp"], sh["lastOff"] = cmp_val_bins(last.test, "nbins", True)
    body = last.body
    need(len(body) == 5, "loop set-up: start, end, mid, while, val_bin")
    sh["startInit"] = offset(assign_of(body[0], "start"), None)
    sh["endOff"] = offset(assign_of(body[1], "end"), "nbins")
    need(is_mid_formula(assign_of(body[2], "mid")), "mid = (end + start) // 2 before the loop")
    w = body[3]
    need(isinstance(w, ast.While) and not w.orelse, "while loop")
    t = w.test
    need(isinstance(t, ast.Compare) and len(t.ops) == 1 and type(t.ops[0]) in OPS and isinstance(t.left, ast.Name)
         and isinstance(t.comparators[0], ast.Name), "loop test")
    op = OPS[type(t.ops[0])]
    if (t.left.id, t.comparators[0].id) == ("start", "end"):
        sh["loopOp"] = op
    elif (t.left.id, t.comparators[0].id) == ("end", "start"):
        sh["loopOp"] = FLIP[op]
    else:
        raise NoMatch("loop test: " + ast.unparse(t))
    need(len(w.body) == 2 and isinstance(w.body[0], ast.If), "loop body")
    need(is_mid_formula(assign_of(w.body[1], "mid")), "mid = (end + start) // 2 at the end of the loop body")
    r = w.body[0]
    sh["rightOp"], sh["rightOff"] = cmp_val_bins(r.test, "mid", False)
    need(len(r.body) == 1, "go-right branch")
    sh["rightStep"] = offset(assign_of(r.body[0], "start"), "mid")
    need(len(r.orelse) == 1 and isinstance(r.orelse[0], ast.If), "elif in loop")
    s = r.orelse[0]
    sh["stopOp"], sh["stopOff"] = cmp_val_bins(s.test, "mid", True)
    need(len(s.body) == 1 and isinstance(s.body[0], ast.Break), "break branch")
    need(len(s.orelse) == 1, "go-left branch")
    sh["leftStep"] = offset(assign_of(s.orelse[0], "end"), "mid")
    need(ast.unparse(assign_of(body[4], "val_bin")) == "mid", "val_bin = mid")
    # val_bin = <init> before, used when val_bin > -1
    init = None
    for n in ast.walk(f):
        if isinstance(n, ast.Assign) and len(n.targets) == 1 and isinstance(n.targets[0], ast.Name) \
                and n.targets[0].id == "val_bin" and const_int(n.value) is not None and n not in (first.body[0],):
            init = const_int(n.value) if init is None else init
    need(init is not None, "val_bin initialisation")
    sh["initBin"] = init
    use = [n for n in ast.walk(f) if isinstance(n, ast.If) and ast.unparse(n.test) == "val_bin > -1"]
    need(len(use) == 1 and ast.unparse(use[0].body[0]) == "out[y, x] = new_values[val_bin]"
         and ast.unparse(use[0].orelse[0]) == "out[y, x] = np.nan", "use of val_bin")
    return sh


def lean_shape(sh, ok):
    if not ok:
        sh = dict(firstOp="lt", firstIdx=0, firstBin=0, lastOp="lt", lastOff=0, startInit=0, endOff=0, loopOp="lt",
                  rightOp="lt", rightOff=0, rightStep=0, stopOp="lt", stopOff=0, leftStep=0, initBin=0)
    f = lambda v: f"({v})" if isinstance(v, int) and v < 0 else str(v)
    return ("{\n  ok := " + ("true" if ok else "false") + "\n"
            f"  firstOp := .{sh['firstOp']}, firstIdx := {f(sh['firstIdx'])}, firstBin := {f(sh['firstBin'])}\n"
            f"  lastOp := .{sh['lastOp']}, lastOff := {f(sh['lastOff'])}\n"
            f"  startInit := {f(sh['startInit'])}, endOff := {f(sh['endOff'])}\n"
            f"  loopOp := .{sh['loopOp']}\n"
            f"  rightOp := .{sh['rightOp']}, rightOff := {f(sh['rightOff'])}, rightStep := {f(sh['rightStep'])}\n"
            f"  stopOp := .{sh['stopOp']}, stopOff := {f(sh['stopOff'])}\n"
            f"  leftStep := {f(sh['leftStep'])}\n"
            f"  initBin := {f(sh['initBin'])} }}")


def dtype_of_zeros(func, name):
    """`name = np.zeros(..., dtype=np.X)` -> 'X'"""
    if func is None:
        return "?"
    for n in ast.walk(func):
        if isinstance(n, ast.Assign) and len(n.targets) == 1 and isinstance(n.targets[0], ast.Name) \
                and n.targets[0].id == name and isinstance(n.value, ast.Call):
            for k in n.value.keywords:
                if k.arg == "dtype":
                    return ast.unparse(k.value).replace("np.", "")
            return "float64"
    return "?"


def sets_last(stmts, arr, value):
    """a statement `arr[-1] = value` directly in this statement list"""
    for s in stmts:
        if isinstance(s, ast.Assign) and len(s.targets) == 1 and ast.unparse(s.targets[0]) == f"{arr}[-1]" \
                and ast.unparse(s.value) == value:
            return True
    return False


def natural_break_facts(mod):
    """Jenks branch: `bins[-1] = max_data`; fallback branch: `bins = np.unique(np.append(uv, max_data))`
    followed by `uvk = len(bins)` (or a `bins[-1] = max_data` common to both branches)"""
    f = find_func(mod, "_run_natural_break")
    jenks = fallback = False
    if f is not None:
        for n in f.body:
            if isinstance(n, ast.If) and ast.unparse(n.test) == "uvk < k":
                srcs = [ast.unparse(s) for s in n.body]
                fallback = ("bins = np.unique(np.append(uv, max_data))" in srcs and "uvk = len(bins)" in srcs
                            and srcs.index("bins = np.unique(np.append(uv, max_data))") < srcs.index("uvk = len(bins)"))
                jenks = sets_last(n.orelse, "bins", "max_data")
    return jenks, fallback


def quantile_grid_indexed(mod):
    """p = module.arange(1, k + 1) * w  (any commutation)  and an unconditional  p[-1] = 100.0"""
    f = find_func(mod, "_run_quantile")
    if f is None:
        return False, "?"
    src = "?"
    indexed = False
    for n in f.body:
        if isinstance(n, ast.Assign) and len(n.targets) == 1 and ast.unparse(n.targets[0]) == "p":
            src = ast.unparse(n.value)
            v = n.value
            if isinstance(v, ast.BinOp) and isinstance(v.op, ast.Mult):
                for a, b in ((v.left, v.right), (v.right, v.left)):
                    if ast.unparse(a) == "module.arange(1, k + 1)" and ast.unparse(b) == "w":
                        indexed = True
    forced = sets_last(f.body, "p", "100.0")
    return indexed and forced, src


def eq_int_last_forced(mod):
    f = find_func(mod, "_run_equal_interval")
    if f is None:
        return False
    if not sets_last(f.body, "cuts", "max_data"):
        return False
    calls = [n for n in ast.walk(f) if isinstance(n, ast.Call) and ast.unparse(n.func) == "_bin"]
    return len(calls) == 1 and len(calls[0].args) >= 2 and ast.unparse(calls[0].args[1]) == "cuts"


NP = ("np", "numpy", "module")
OPERANDS = ("data", "bins", "new_values")


def dtype_expr(n):
    """a dtype argument -> ('dtype', name) | ('dataDtype',) | None"""
    src = ast.unparse(n)
    if isinstance(n, ast.Constant) and isinstance(n.value, str):
        return ("dtype", n.value)
    if isinstance(n, ast.Attribute) and isinstance(n.value, ast.Name) and n.value.id in NP:
        return ("dtype", n.attr)
    if src == "data.dtype":
        return ("dataDtype",)
    if isinstance(n, ast.Name) and n.id in ("float", "int"):
        return ("dtype", {"float": "float64", "int": "int64"}[n.id])
    return None


def cast_of(value, name):
    """the right-hand side of `name = value` as a cast of `name`"""
    src = ast.unparse(value)
    if isinstance(value, ast.Name) and value.id == name:
        return ("none",)
    if isinstance(value, ast.Call):
        f = value.func
        is_np = isinstance(f, ast.Attribute) and isinstance(f.value, ast.Name) and f.value.id in NP
        if is_np and f.attr in ("asarray", "asanyarray", "array", "ascontiguousarray") and len(value.args) >= 1 \
                and isinstance(value.args[0], ast.Name) and value.args[0].id == name:
            dt = list(value.args[1:2]) + [k.value for k in value.keywords if k.arg == "dtype"]
            other_kw = [k.arg for k in value.keywords if k.arg not in ("dtype", "copy", "order")]
            if len(value.args) > 2 or other_kw or len(dt) > 1:
                return ("other", src)
            if not dt:
                return ("none",)
            return dtype_expr(dt[0]) or ("other", src)
        if isinstance(f, ast.Attribute) and f.attr == "astype" and isinstance(f.value, ast.Name) and f.value.id == name \
                and len(value.args) == 1:
            return dtype_expr(value.args[0]) or ("other", src)
    return ("other", src)


def run_bin_casts(mod):
    """`_run_numpy_bin`: the casts of its three operands and whether the rest is the plain call of `_cpu_bin`"""
    f = find_func(mod, "_run_numpy_bin")
    casts = {n: ("none",) for n in OPERANDS}
    if f is None or [a.arg for a in f.args.args] != list(OPERANDS):
        return {n: ("other", "?") for n in OPERANDS}, False
    ok, called, ret = True, None, None
    for st in f.body:
        if isinstance(st, ast.Expr) and isinstance(st.value, ast.Constant):
            continue                                   # docstring
        if isinstance(st, ast.Assign) and len(st.targets) == 1 and isinstance(st.targets[0], ast.Name):
            tgt = st.targets[0].id
            if tgt in OPERANDS and called is None:
                c = cast_of(st.value, tgt)
                if c != ("none",):
                    casts[tgt] = c if casts[tgt] == ("none",) else ("other", ast.unparse(st.value))
                continue
            if called is None and ast.unparse(st.value) == "_cpu_bin(data, bins, new_values)":
                called = tgt
                continue
        if isinstance(st, ast.Return) and st.value is not None and ret is None:
            src = ast.unparse(st.value)
            if called is None and src == "_cpu_bin(data, bins, new_values)":
                called = ret = "<direct>"
                continue
            if called is not None and src == called:
                ret = called
                continue
        ok = False
        # a statement that is not understood may touch any operand
        for n in ast.walk(st):
            if isinstance(n, ast.Name) and isinstance(n.ctx, ast.Store) and n.id in OPERANDS:
                casts[n.id] = ("other", ast.unparse(st).splitlines()[0])
    return casts, bool(ok and called and ret)


def bin_chain_pass_through(mod):
    """reclassify / _bin / _run_dask_numpy_bin hand the operands on unchanged"""
    def stores(f, names):
        return any(isinstance(n, ast.Name) and isinstance(n.ctx, ast.Store) and n.id in names for n in ast.walk(f))
    rc, b, d = find_func(mod, "reclassify"), find_func(mod, "_bin"), find_func(mod, "_run_dask_numpy_bin")
    if rc is None or b is None or d is None:
        return False
    src_rc, src_b, src_d = ast.unparse(rc), ast.unparse(b), ast.unparse(d)
    ok = not stores(rc, ("agg", "bins", "new_values")) and "out = _bin(agg, bins, new_values)" in src_rc
    ok = ok and not stores(b, ("agg", "bins", "new_values")) and "numpy_func=_run_numpy_bin" in src_b \
        and "dask_func=_run_dask_numpy_bin" in src_b and "out = mapper(agg)(agg.data, bins, new_values)" in src_b
    ok = ok and not stores(d, ("data", "bins", "new_values")) \
        and "_func = partial(_run_numpy_bin, bins=bins, new_values=new_values)" in src_d \
        and "out = data.map_blocks(_func)" in src_d
    return bool(ok)


def lean_cast(c):
    if c[0] == "none":
        return ".none"
    if c[0] == "dataDtype":
        return ".dataDtype"
    if c[0] == "dtype":
        return f'.dtype "{c[1]}"'
    return '.other "' + c[1].replace("\\", "\\\\").replace('"', '\\"') + '"'


def generate(repo):
    mod = ast.parse(open(os.path.join(repo, REL)).read())
    rep = {}
    try:
        sh = cpu_bin_shape(mod)
        ok = True
    except NoMatch as ex:
        sh, ok = {}, False
        rep["cpu_bin_no_match"] = str(ex)
    rep["cpuBinShape"] = dict(sh, ok=ok)
    kdt = dtype_of_zeros(find_func(mod, "_run_jenks"), "kclass")
    mdt = dtype_of_zeros(find_func(mod, "_run_numpy_jenks_matrices"), "var_combinations")
    nbj, nbf = natural_break_facts(mod)
    qg, qsrc = quantile_grid_indexed(mod)
    eq = eq_int_last_forced(mod)
    casts, call_ok = run_bin_casts(mod)
    chain = bin_chain_pass_through(mod)
    rep.update(runBinCasts=dict({k: list(v) for k, v in casts.items()}, callOk=call_ok), binChainPassThrough=chain)
    rep.update(jenksBreakDtype=kdt, jenksMatrixDtype=mdt, nbLastForcedJenks=nbj, nbLastForcedFallback=nbf,
               quantileGridIndexed=qg, quantileGridSource=qsrc, eqIntLastForced=eq)
    b = lambda v: "true" if v else "false"
    text = "\n".join([
        "import XrsVerif.Model.Bin",
        "/-! GENERATED by harness/facts_classify.py from xrspatial/classify.py -- do not edit. -/",
        "namespace XrsVerif.Gen",
        "open XrsVerif.Bin",
        "",
        "/-- the search skeleton of `classify._cpu_bin` as found in the source -/",
        "def cpuBinShape : Shape := " + lean_shape(sh, ok),
        "",
        "/-- dtype of the array `_run_jenks` stores the class breaks in -/",
        f'def jenksBreakDtype : String := "{kdt}"',
        "/-- dtype of the Jenks matrices -/",
        f'def jenksMatrixDtype : String := "{mdt}"',
        "/-- `_run_natural_break`: `bins[-1] = max_data` in the Jenks branch / `bins = unique(append(uv, max_data))` in the too-few-unique-values branch -/",
        f"def nbLastForcedJenks : Bool := {b(nbj)}",
        f"def nbLastForcedFallback : Bool := {b(nbf)}",
        "/-- `_run_quantile` builds exactly k percentile points `arange(1, k + 1) * w` and sets the last to 100.0 -/",
        f"def quantileGridIndexed : Bool := {b(qg)}",
        "/-- `cuts[-1] = max_data` on every path of `_run_equal_interval`, and `cuts` are the bins -/",
        f"def eqIntLastForced : Bool := {b(eq)}",
        "/-- `_run_numpy_bin`: what happens to each operand before `_cpu_bin(data, bins, new_values)` compares them -/",
        "def runBinCasts : BinCasts := { data := " + lean_cast(casts["data"]) + ", bins := " + lean_cast(casts["bins"])
        + ", newValues := " + lean_cast(casts["new_values"]) + ", callOk := " + b(call_ok) + " }",
        "/-- `reclassify` -> `_bin` -> (`_run_dask_numpy_bin` ->) `_run_numpy_bin` pass `agg.data`, `bins`, `new_values` on unchanged -/",
        f"def binChainPassThrough : Bool := {b(chain)}",
        "",
        "end XrsVerif.Gen", ""])
    yield "ClassifyFacts.lean", text, rep
