"""
Layer T2 facts for C12 (xrspatial/classify.py) -> lean/XrsVerif/Gen/ClassifyFacts.lean

* `cpuBinShape`  the holes of the `_cpu_bin` search skeleton (comparison operators, index offsets,
                 initialisations, step sizes) read from the `ast`; `ok := false` when the skeleton is not
                 recognised.  The Lean model `Bin.searchS` *interprets* this value, and
                 `Props/C12.lean: shape_is_canonical` requires it to be the skeleton the theorems are proved for.
* `jenksBreakDtype`         dtype of the `kclass` array the Jenks breaks are stored in
* `nbLastForcedJenks/Fallback`  the raster maximum is the last bin in the Jenks branch (`bins[-1] = max_data`) /
                            is added to the distinct sample values in the too-few-unique-values branch
* `quantileGridIndexed`     the percentile grid is built from an integer `arange` (exactly k points) and its
                            last point is set to 100.0 unconditionally
* `eqIntLastForced`         `cuts[-1] = max_data` is executed on every path of `_run_equal_interval`
* `runBinCasts`             what `_run_numpy_bin` does to each operand before `_cpu_bin` compares them: `Cast.none`
                            (handed on as it is / `np.asarray(x)` without dtype), `Cast.dtype "float32"` (a fixed
                            dtype), `Cast.dataDtype` (`dtype=data.dtype`), `Cast.other src` (anything else);
                            `callOk`: the function is exactly those re-bindings followed by
                            `_cpu_bin(data, bins, new_values)` whose result is returned
* `binChainPassThrough`     `reclassify` -> `_bin` -> (`_run_dask_numpy_bin` ->) `_run_numpy_bin` hand `agg.data`, `bins`,
                            `new_values` on without re-binding them
"""
import ast
import os

from pynorm import Refuse, assign_name, bind, func_params, names_in, normalize, same

REL = "xrspatial/classify.py"
OPS = {ast.Lt: "lt", ast.LtE: "le", ast.Gt: "gt", ast.GtE: "ge"}
FLIP = {"lt": "gt", "le": "ge", "gt": "lt", "ge": "le"}


class NoMatch(Exception):
    pass


def need(c, what):
    if not c:
        raise NoMatch(what)


def find_func(mod, name):
    for n in mod.body:
        if isinstance(n, ast.FunctionDef) and n.name == name:
            return n
    return None


def const_int(n):
    if isinstance(n, ast.Constant) and isinstance(n.value, int) and not isinstance(n.value, bool):
        return n.value
    if isinstance(n, ast.UnaryOp) and isinstance(n.op, ast.USub):
        v = const_int(n.operand)
        return None if v is None else -v
    return None


def is_name(n, ident):
    return isinstance(n, ast.Name) and n.id == ident


def offset(n, base):
    """n == base + c  ->  c.  base: None (n is the constant c), a name, or a predicate on nodes (e.g. `len(bins)`)"""
    if base is None:
        c = const_int(n)
        need(c is not None, "constant index expected: " + ast.unparse(n))
        return c
    is_base = base if callable(base) else (lambda x: is_name(x, base))
    if is_base(n):
        return 0
    if isinstance(n, ast.BinOp) and is_base(n.left):
        c = const_int(n.right)
        need(c is not None, "offset expected: " + ast.unparse(n))
        if isinstance(n.op, ast.Add):
            return c
        if isinstance(n.op, ast.Sub):
            return -c
    if isinstance(n, ast.BinOp) and isinstance(n.op, ast.Add) and is_base(n.right) and const_int(n.left) is not None:
        return const_int(n.left)                      # c + base
    raise NoMatch(f"expected <base> + c, got {ast.unparse(n)}")


def cmp_val_bins(test, base, val_left, is_val, bins):
    """test is `VAL op BINS[base + c]` or `BINS[base + c] op VAL`; returns (op, c) normalised so that
    VAL is on the left when val_left else BINS is on the left"""
    need(isinstance(test, ast.Compare) and len(test.ops) == 1 and type(test.ops[0]) in OPS, "comparison: " + ast.unparse(test))
    op = OPS[type(test.ops[0])]
    a, b = test.left, test.comparators[0]

    def is_sub(n):
        return isinstance(n, ast.Subscript) and is_name(n.value, bins)
    if is_val(a) and is_sub(b):
        c = offset(b.slice, base)
        return (op if val_left else FLIP[op]), c
    if is_val(b) and is_sub(a):
        c = offset(a.slice, base)
        return (FLIP[op] if val_left else op), c
    raise NoMatch("value/bins comparison: " + ast.unparse(test))


def target_of(stmt, what):
    an = assign_name(stmt)
    need(an is not None, f"assignment ({what}): " + ast.unparse(stmt).splitlines()[0])
    return an


def is_mid_formula(v, start, end):
    """(end + start) // 2, the sum in either order"""
    if not (isinstance(v, ast.BinOp) and isinstance(v.op, ast.FloorDiv) and const_int(v.right) == 2):
        return False
    s = v.left
    if not (isinstance(s, ast.BinOp) and isinstance(s.op, ast.Add)):
        return False
    names = sorted(x.id for x in (s.left, s.right) if isinstance(x, ast.Name))
    return names == sorted([start, end]) and start != end


def cpu_bin_shape(mod):
    """reads the normal form of `_cpu_bin` (pynorm: `range(0, n)`, mirrored comparisons, single-use temporaries such as
    `val = data[y, x]` / `nbins = len(bins)` are spelled one way); the loop variables are found by their role
    (targets of the set-up assignments), not by their names"""
    f0 = find_func(mod, "_cpu_bin")
    need(f0 is not None, "_cpu_bin not found")
    f = normalize(f0)
    try:
        params = func_params(f)
    except Refuse as ex:
        raise NoMatch(str(ex))
    need(len(params) == 3, "_cpu_bin(data, bins, new_values)")
    data, bins, newv = params
    found = []

    def rec(stmts, fors):
        for i, n in enumerate(stmts):
            if isinstance(n, ast.If) and isinstance(n.test, ast.Call) and ast.unparse(n.test.func) in ("np.isfinite", "numpy.isfinite") \
                    and len(n.test.args) == 1 and not n.test.keywords:
                found.append((stmts, i, n, fors))
            for fld in ("body", "orelse"):
                b = getattr(n, fld, None)
                if isinstance(b, list) and b and isinstance(b[0], ast.stmt):
                    rec(b, fors + [n] if isinstance(n, ast.For) else fors)
    rec(f.body, [])
    need(len(found) == 1, "exactly one `if np.isfinite(<cell>)`")
    block, pos, inner, fors = found[0]
    val = inner.test.args[0]
    need(len(fors) == 2 and all(isinstance(l.target, ast.Name) and not l.orelse for l in fors), "two nested loops over the cells")
    yv, xv = fors[0].target.id, fors[1].target.id
    need(isinstance(val, ast.Subscript) and is_name(val.value, data) and isinstance(val.slice, ast.Tuple)
         and [ast.unparse(e) for e in val.slice.elts] == [yv, xv], "the cell is data[y, x] of the two loop variables")
    for l, dim in zip(fors, (0, 1)):
        it = l.iter
        need(isinstance(it, ast.Call) and is_name(it.func, "range") and len(it.args) == 1 and not it.keywords, "range(<extent>) loops")
    need(any(same(st, ast.parse(f"{ast.unparse(fors[0].iter.args[0])}, {ast.unparse(fors[1].iter.args[0])} = {data}.shape").body[0])
             for st in f.body), "loop extents are data.shape")

    def is_val(n):
        return same(n, val)

    def is_nbins(n):
        return isinstance(n, ast.Call) and is_name(n.func, "len") and len(n.args) == 1 and not n.keywords and is_name(n.args[0], bins)
    need(not inner.orelse and len(inner.body) == 1 and isinstance(inner.body[0], ast.If), "body of the isfinite test")
    sh = {}
    first = inner.body[0]
    sh["firstOp"], sh["firstIdx"] = cmp_val_bins(first.test, None, True, is_val, bins)
    need(len(first.body) == 1, "first branch")
    vb, v0 = target_of(first.body[0], "val_bin in the first branch")
    sh["firstBin"] = offset(v0, None)
    need(len(first.orelse) == 1 and isinstance(first.orelse[0], ast.If) and not first.orelse[0].orelse, "elif branch")
    last = first.orelse[0]
    sh["lastOp"], sh["lastOff"] = cmp_val_bins(last.test, is_nbins, True, is_val, bins)
    body = last.body
    need(len(body) == 5, "loop set-up: start, end, mid, while, val_bin")
    start, v = target_of(body[0], "start")
    sh["startInit"] = offset(v, None)
    end, v = target_of(body[1], "end")
    sh["endOff"] = offset(v, is_nbins)
    mid, v = target_of(body[2], "mid")
    need(len({start, end, mid, vb, data, bins, newv, yv, xv}) == 9, "distinct loop variables")
    need(is_mid_formula(v, start, end), "mid = (end + start) // 2 before the loop")
    w = body[3]
    need(isinstance(w, ast.While) and not w.orelse, "while loop")
    t = w.test
    need(isinstance(t, ast.Compare) and len(t.ops) == 1 and type(t.ops[0]) in OPS and isinstance(t.left, ast.Name)
         and isinstance(t.comparators[0], ast.Name), "loop test")
    op = OPS[type(t.ops[0])]
    if (t.left.id, t.comparators[0].id) == (start, end):
        sh["loopOp"] = op
    elif (t.left.id, t.comparators[0].id) == (end, start):
        sh["loopOp"] = FLIP[op]
    else:
        raise NoMatch("loop test: " + ast.unparse(t))
    need(len(w.body) == 2 and isinstance(w.body[0], ast.If), "loop body")
    m2, v = target_of(w.body[1], "mid at the end of the loop body")
    need(m2 == mid and is_mid_formula(v, start, end), "mid = (end + start) // 2 at the end of the loop body")
    r = w.body[0]
    sh["rightOp"], sh["rightOff"] = cmp_val_bins(r.test, mid, False, is_val, bins)
    need(len(r.body) == 1, "go-right branch")
    tgt, v = target_of(r.body[0], "start in the go-right branch")
    need(tgt == start, "go-right branch moves start")
    sh["rightStep"] = offset(v, mid)
    need(len(r.orelse) == 1 and isinstance(r.orelse[0], ast.If), "elif in loop")
    s_ = r.orelse[0]
    sh["stopOp"], sh["stopOff"] = cmp_val_bins(s_.test, mid, True, is_val, bins)
    need(len(s_.body) == 1 and isinstance(s_.body[0], ast.Break), "break branch")
    need(len(s_.orelse) == 1, "go-left branch")
    tgt, v = target_of(s_.orelse[0], "end in the go-left branch")
    need(tgt == end, "go-left branch moves end")
    sh["leftStep"] = offset(v, mid)
    tgt, v = target_of(body[4], "val_bin after the loop")
    need(tgt == vb and is_name(v, mid), "val_bin = mid")
    # val_bin = <init> before the search, used when val_bin > -1 after it
    inits = [assign_name(st) for st in block[:pos] if assign_name(st) and assign_name(st)[0] == vb]
    need(len(inits) == 1 and const_int(inits[0][1]) is not None, "val_bin initialisation")
    sh["initBin"] = const_int(inits[0][1])
    use = [n for n in block[pos + 1:] if isinstance(n, ast.If)]
    need(len(use) == 1 and len(block) == pos + 2, "use of val_bin directly after the search")
    u = use[0]
    need(ast.unparse(u.test) == f"-1 < {vb}", "val_bin > -1")
    need(len(u.body) == 1 and len(u.orelse) == 1 and isinstance(u.body[0], ast.Assign) and isinstance(u.orelse[0], ast.Assign),
         "use of val_bin")
    outn = u.body[0].targets[0].value.id if isinstance(u.body[0].targets[0], ast.Subscript) \
        and isinstance(u.body[0].targets[0].value, ast.Name) else None
    need(outn is not None and ast.unparse(u.body[0]) == f"{outn}[{yv}, {xv}] = {newv}[{vb}]"
         and ast.unparse(u.orelse[0]) in (f"{outn}[{yv}, {xv}] = np.nan", f"{outn}[{yv}, {xv}] = numpy.nan"), "use of val_bin")
    need(isinstance(f.body[-1], ast.Return) and is_name(f.body[-1].value, outn), "the filled array is returned")
    return sh


def lean_shape(sh, ok):
    if not ok:
        sh = dict(firstOp="lt", firstIdx=0, firstBin=0, lastOp="lt", lastOff=0, startInit=0, endOff=0, loopOp="lt",
                  rightOp="lt", rightOff=0, rightStep=0, stopOp="lt", stopOff=0, leftStep=0, initBin=0)
    f = lambda v: f"({v})" if isinstance(v, int) and v < 0 else str(v)
    return ("{\n  ok := " + ("true" if ok else "false") + "\n"
            f"  firstOp := .{sh['firstOp']}, firstIdx := {f(sh['firstIdx'])}, firstBin := {f(sh['firstBin'])}\n"
            f"  lastOp := .{sh['lastOp']}, lastOff := {f(sh['lastOff'])}\n"
            f"  startInit := {f(sh['startInit'])}, endOff := {f(sh['endOff'])}\n"
            f"  loopOp := .{sh['loopOp']}\n"
            f"  rightOp := .{sh['rightOp']}, rightOff := {f(sh['rightOff'])}, rightStep := {f(sh['rightStep'])}\n"
            f"  stopOp := .{sh['stopOp']}, stopOff := {f(sh['stopOff'])}\n"
            f"  leftStep := {f(sh['leftStep'])}\n"
            f"  initBin := {f(sh['initBin'])} }}")


NP = ("np", "numpy", "module")


def np_call(n, names):
    """`np.<name>(...)` / `module.<name>(...)` with name in names -> name"""
    if isinstance(n, ast.Call) and isinstance(n.func, ast.Attribute) and isinstance(n.func.value, ast.Name) \
            and n.func.value.id in NP + ("da", "cupy") and n.func.attr in names:
        return n.func.attr
    return None


def dtype_name(n):
    if isinstance(n, ast.Constant) and isinstance(n.value, str):
        return n.value
    if isinstance(n, ast.Attribute) and isinstance(n.value, ast.Name) and n.value.id in NP:
        return n.attr
    if isinstance(n, ast.Name) and n.id in ("float", "int"):
        return {"float": "float64", "int": "int64"}[n.id]
    return "?"


def dtype_of_returned_zeros(func, which=None):
    """dtype of the `np.zeros(shape, dtype=...)` array the function returns (`which`: position in a returned tuple)"""
    if func is None:
        return "?"
    f = normalize(func, inline=False)
    ret = [s for s in f.body if isinstance(s, ast.Return)]
    if len(ret) != 1 or ret[0].value is None:
        return "?"
    r = ret[0].value
    if which is not None:
        if not (isinstance(r, ast.Tuple) and which < len(r.elts)):
            return "?"
        r = r.elts[which]
    if not isinstance(r, ast.Name):
        return "?"
    defs = [n.value for n in ast.walk(f) if assign_name(n) and assign_name(n)[0] == r.id]
    if len(defs) != 1 or not np_call(defs[0], ("zeros", "empty", "full", "ones")):
        return "?"
    try:
        a = bind(defs[0], ["shape", "dtype", "order"])
    except Refuse:
        return "?"
    return dtype_name(a["dtype"]) if "dtype" in a else "float64"


def top_stores(f, name):
    """indices of the top-level statements that bind / store through `name`"""
    out = []
    for i, s in enumerate(f.body):
        for n in ast.walk(s):
            if isinstance(n, ast.Name) and n.id == name and isinstance(n.ctx, ast.Store):
                out.append(i)
            if isinstance(n, ast.Subscript) and isinstance(n.ctx, ast.Store) and is_name(n.value, name):
                out.append(i)
    return sorted(set(out))


def last_forced(f, stmts, arr, is_value, before=None):
    """a statement `arr[-1] = <value>` directly in `stmts`, after which `arr` is not touched again in `stmts`;
    returns its index or None"""
    hit = None
    for i, s in enumerate(stmts):
        touched = any((isinstance(n, ast.Name) and n.id == arr and isinstance(n.ctx, ast.Store))
                      or (isinstance(n, ast.Subscript) and isinstance(n.ctx, ast.Store) and is_name(n.value, arr))
                      for n in ast.walk(s))
        if isinstance(s, ast.Assign) and len(s.targets) == 1 and isinstance(s.targets[0], ast.Subscript) \
                and is_name(s.targets[0].value, arr) and const_int(s.targets[0].slice) == -1 and is_value(s.value):
            hit = i
        elif touched:
            hit = None
    return hit


def max_names(f):
    """names that hold the raster maximum: assigned from `<np>.nanmax(...)` / `np.max(...)`"""
    out = set()
    for n in ast.walk(f):
        an = assign_name(n)
        if an and np_call(an[1], ("nanmax", "max", "amax")):
            out.add(an[0])
    return out


def is_max(v, mx):
    """the raster maximum: a name that holds it, or the call itself (the name may have been a single-use temporary)"""
    return (isinstance(v, ast.Name) and v.id in mx) or bool(np_call(v, ("nanmax", "max", "amax")))


def unique_call(f, name):
    calls = [n for n in ast.walk(f) if isinstance(n, ast.Call) and is_name(n.func, name)]
    return calls[0] if len(calls) == 1 else None


def bin_args(mod, f):
    """the arguments of the single `_bin(agg, bins, new_values)` call of f, by parameter name"""
    b = find_func(mod, "_bin")
    call = unique_call(f, "_bin")
    if b is None or call is None:
        return None
    try:
        a = bind(call, func_params(b))
    except Refuse:
        return None
    return {p_: a[p_] for p_ in func_params(b)} if set(a) == set(func_params(b)) and len(a) == 3 else None   # in parameter order


def natural_break_facts(mod):
    """Jenks branch: `BINS[-1] = <max>`; fallback branch: `BINS = np.unique(np.append(<uv>, <max>))` followed by
    `<uvk> = len(BINS)`; the branches hang on `if <uvk> < k`; BINS is what `_bin` receives"""
    f0 = find_func(mod, "_run_natural_break")
    jenks = fallback = False
    if f0 is None:
        return jenks, fallback
    f = normalize(f0)
    ba = bin_args(mod, f)
    if ba is None or not isinstance(list(ba.values())[1], ast.Name) or len(f.args.args) != 3:
        return jenks, fallback
    bins = list(ba.values())[1].id
    kparam = f.args.args[2].arg
    mx = max_names(f)
    for n in f.body:
        if isinstance(n, ast.If) and isinstance(n.test, ast.Compare) and len(n.test.ops) == 1 and isinstance(n.test.ops[0], ast.Lt) \
                and isinstance(n.test.left, ast.Name) and is_name(n.test.comparators[0], kparam):
            uvk = n.test.left.id
            pos_b = pos_l = None
            for i, s_ in enumerate(n.body):
                an = assign_name(s_)
                if an and an[0] == bins and np_call(an[1], ("unique",)) and len(an[1].args) == 1 and not an[1].keywords \
                        and np_call(an[1].args[0], ("append",)) and len(an[1].args[0].args) == 2 and not an[1].args[0].keywords \
                        and isinstance(an[1].args[0].args[0], ast.Name) and is_max(an[1].args[0].args[1], mx):
                    pos_b = i
                if an and an[0] == uvk and ast.unparse(an[1]) == f"len({bins})":
                    pos_l = i
            fallback = pos_b is not None and pos_l is not None and pos_b < pos_l
            jenks = last_forced(f, n.orelse, bins, lambda v: is_max(v, mx)) is not None
    return jenks, fallback


def quantile_grid_indexed(mod):
    """P = <np>.arange(1, k + 1) * (100.0 / k)  (any commutation; the step may be a temporary)  and an unconditional
    P[-1] = 100.0 afterwards, where P is what `<np>.percentile` receives as its percentile points"""
    f0 = find_func(mod, "_run_quantile")
    if f0 is None or len(f0.args.args) < 2:
        return False, "?"
    f = normalize(f0)
    k = f.args.args[1].arg
    pcs = [n for n in ast.walk(f) if np_call(n, ("percentile",))]
    if len(pcs) != 1:
        return False, "?"
    try:
        pa = bind(pcs[0], ["a", "q", "axis", "out", "overwrite_input", "method", "keepdims"])
    except Refuse:
        return False, "?"
    if not isinstance(pa.get("q"), ast.Name):
        return False, "?"
    p = pa["q"].id
    defs = [(i, assign_name(s_)[1]) for i, s_ in enumerate(f.body) if assign_name(s_) and assign_name(s_)[0] == p]
    if len(defs) != 1:
        return False, "?"
    at, v = defs[0]
    src = ast.unparse(v)

    def is_grid(n):
        if not np_call(n, ("arange",)):
            return False
        try:
            a = bind(n, ["start", "stop", "step"])
        except Refuse:
            return False
        return set(a) == {"start", "stop"} and const_int(a["start"]) == 1 and ast.unparse(a["stop"]) in (f"{k} + 1", f"1 + {k}")

    def is_step(n):
        return isinstance(n, ast.BinOp) and isinstance(n.op, ast.Div) and isinstance(n.left, ast.Constant) \
            and n.left.value == 100 and not isinstance(n.left.value, bool) and is_name(n.right, k)
    indexed = isinstance(v, ast.BinOp) and isinstance(v.op, ast.Mult) and \
        ((is_grid(v.left) and is_step(v.right)) or (is_grid(v.right) and is_step(v.left)))
    use = [i for i, s_ in enumerate(f.body) if any(n is pcs[0] for n in ast.walk(s_))]
    hit = last_forced(f, f.body[:use[0]] if use else f.body, p,
                      lambda x: isinstance(x, ast.Constant) and x.value == 100 and not isinstance(x.value, bool))
    forced = hit is not None and hit > at
    return bool(indexed and forced), src


def eq_int_last_forced(mod):
    """`CUTS[-1] = <max>` at the top level of `_run_equal_interval`, after every other statement that touches CUTS and
    before `_bin(agg, CUTS, ...)`"""
    f0 = find_func(mod, "_run_equal_interval")
    if f0 is None:
        return False
    f = normalize(f0)
    ba = bin_args(mod, f)
    if ba is None or not isinstance(list(ba.values())[1], ast.Name):
        return False
    cuts = list(ba.values())[1].id
    call = unique_call(f, "_bin")
    use = [i for i, s_ in enumerate(f.body) if any(n is call for n in ast.walk(s_))]
    if len(use) != 1:
        return False
    mx = max_names(f)
    hit = last_forced(f, f.body[:use[0]], cuts, lambda v: is_max(v, mx))
    return hit is not None


def dtype_expr(n, data="data"):
    """a dtype argument -> ('dtype', name) | ('dataDtype',) | None"""
    if ast.unparse(n) == f"{data}.dtype":
        return ("dataDtype",)
    d = dtype_name(n)
    return None if d == "?" else ("dtype", d)


def compose(c1, c2, src):
    if c1 == ("none",):
        return c2
    if c2 == ("none",):
        return c1
    return ("other", src)


def cast_expr(e, env, data):
    """an expression as (operand it comes from, cast applied to it), or None"""
    if isinstance(e, ast.Name) and e.id in env:
        return e.id, env[e.id]
    if isinstance(e, ast.Call):
        fn = e.func
        if np_call(e, ("asarray", "asanyarray", "array", "ascontiguousarray")):
            try:
                a = bind(e, ["a", "dtype", "order"] if fn.attr != "array" else ["a", "dtype"])
            except Refuse:
                return None
            inner = cast_expr(a["a"], env, data) if "a" in a else None
            if inner is None or "order" in a:
                return None
            c = ("none",) if "dtype" not in a else (dtype_expr(a["dtype"], data) or ("other", ast.unparse(e)))
            return inner[0], compose(inner[1], c, ast.unparse(e))
        if isinstance(fn, ast.Attribute) and fn.attr == "astype":
            try:
                a = bind(e, ["dtype"])
            except Refuse:
                return None
            inner = cast_expr(fn.value, env, data)
            if inner is None or "dtype" not in a:
                return None
            return inner[0], compose(inner[1], dtype_expr(a["dtype"], data) or ("other", ast.unparse(e)), ast.unparse(e))
    return None


def run_bin_casts(mod):
    """`_run_numpy_bin`: the casts of its three operands on their way into `_cpu_bin` (re-bindings of the parameters
    and / or conversions written in the call itself) and whether the rest is the plain call of `_cpu_bin`"""
    f0 = find_func(mod, "_run_numpy_bin")
    cb = find_func(mod, "_cpu_bin")
    bad = {n: ("other", "?") for n in ("data", "bins", "new_values")}
    if f0 is None or cb is None or len(f0.args.args) != 3 or len(cb.args.args) != 3:
        return bad, False
    f = normalize(f0)
    ops = [a.arg for a in f.args.args]
    data = ops[0]
    env = {n: ("none",) for n in ops}
    ok, done = True, False
    for st in f.body:
        an = assign_name(st)
        if an and an[0] in ops and not done:
            ce = cast_expr(an[1], env, data)
            env[an[0]] = ce[1] if ce is not None and ce[0] == an[0] else ("other", ast.unparse(an[1]))
            continue
        if isinstance(st, ast.Return) and not done and isinstance(st.value, ast.Call) and is_name(st.value.func, "_cpu_bin"):
            try:
                a = bind(st.value, func_params(cb))
            except Refuse:
                a = {}
            if len(a) == 3:
                for op, par in zip(ops, func_params(cb)):
                    ce = cast_expr(a[par], env, data)
                    env[op] = ce[1] if ce is not None and ce[0] == op else ("other", ast.unparse(a[par]))
                done = True
                continue
        ok = False
        for n in names_in(st, ast.Store):       # a statement that is not understood may touch any operand
            if n.id in ops:
                env[n.id] = ("other", ast.unparse(st).splitlines()[0])
    return dict(zip(("data", "bins", "new_values"), (env[o] for o in ops))), bool(ok and done)


def bin_chain_pass_through(mod):
    """reclassify / _bin / _run_dask_numpy_bin hand the operands on unchanged (normal forms; arguments by name)"""
    rc, b, d = find_func(mod, "reclassify"), find_func(mod, "_bin"), find_func(mod, "_run_dask_numpy_bin")
    rn = find_func(mod, "_run_numpy_bin")
    if rc is None or b is None or d is None or rn is None:
        return False

    def stores(f, names):
        return any(n.id in names for n in names_in(f, ast.Store))
    try:
        # reclassify: `_bin(agg, bins, new_values)` with its own, never re-bound parameters
        frc = normalize(rc)
        ba = bin_args(mod, frc)
        ok = ba is not None and [ast.unparse(v) for v in ba.values()] == ["agg", "bins", "new_values"] \
            and not stores(frc, ("agg", "bins", "new_values"))
        # _bin: return ArrayTypeFunctionMapping(numpy_func=_run_numpy_bin, dask_func=_run_dask_numpy_bin, ...)(agg)(agg.data, bins, new_values)
        fb = normalize(b)
        p = func_params(fb)
        ok = ok and len(p) == 3 and len(fb.body) == 1 and isinstance(fb.body[0], ast.Return)
        if ok:
            c = fb.body[0].value
            ok = isinstance(c, ast.Call) and not c.keywords and [ast.unparse(x) for x in c.args] == [p[0] + ".data", p[1], p[2]] \
                and isinstance(c.func, ast.Call) and not c.func.keywords and [ast.unparse(x) for x in c.func.args] == [p[0]] \
                and isinstance(c.func.func, ast.Call) and is_name(c.func.func.func, "ArrayTypeFunctionMapping")
            if ok:
                m = bind(c.func.func, ["numpy_func", "cupy_func", "dask_func", "dask_cupy_func"])
                ok = is_name(m.get("numpy_func"), "_run_numpy_bin") and is_name(m.get("dask_func"), "_run_dask_numpy_bin")
        # _run_dask_numpy_bin: return data.map_blocks(partial(_run_numpy_bin, bins=bins, new_values=new_values))
        fd = normalize(d)
        q = func_params(fd)
        ok = ok and len(q) == 3 and len(fd.body) == 1 and isinstance(fd.body[0], ast.Return)
        if ok:
            c = fd.body[0].value
            ok = isinstance(c, ast.Call) and isinstance(c.func, ast.Attribute) and c.func.attr == "map_blocks" \
                and is_name(c.func.value, q[0]) and len(c.args) == 1 and not c.keywords \
                and isinstance(c.args[0], ast.Call) and is_name(c.args[0].func, "partial") and len(c.args[0].args) == 1 \
                and is_name(c.args[0].args[0], "_run_numpy_bin")
            if ok:
                rp = func_params(rn)
                kw = {k.arg: k.value for k in c.args[0].keywords}
                ok = set(kw) == {rp[1], rp[2]} and is_name(kw[rp[1]], q[1]) and is_name(kw[rp[2]], q[2])
        return bool(ok)
    except (Refuse, KeyError, IndexError, AttributeError):
        return False


def lean_cast(c):
    if c[0] == "none":
        return ".none"
    if c[0] == "dataDtype":
        return ".dataDtype"
    if c[0] == "dtype":
        return f'.dtype "{c[1]}"'
    return '.other "' + c[1].replace("\\", "\\\\").replace('"', '\\"') + '"'


def generate(repo):
    mod = ast.parse(open(os.path.join(repo, REL)).read())
    rep = {}
    try:
        sh = cpu_bin_shape(mod)
        ok = True
    except NoMatch as ex:
        sh, ok = {}, False
        rep["cpu_bin_no_match"] = str(ex)
    rep["cpuBinShape"] = dict(sh, ok=ok)
    kdt = dtype_of_returned_zeros(find_func(mod, "_run_jenks"))
    mdt = dtype_of_returned_zeros(find_func(mod, "_run_numpy_jenks_matrices"), 1)
    nbj, nbf = natural_break_facts(mod)
    qg, qsrc = quantile_grid_indexed(mod)
    eq = eq_int_last_forced(mod)
    casts, call_ok = run_bin_casts(mod)
    chain = bin_chain_pass_through(mod)
    rep.update(runBinCasts=dict({k: list(v) for k, v in casts.items()}, callOk=call_ok), binChainPassThrough=chain)
    rep.update(jenksBreakDtype=kdt, jenksMatrixDtype=mdt, nbLastForcedJenks=nbj, nbLastForcedFallback=nbf,
               quantileGridIndexed=qg, quantileGridSource=qsrc, eqIntLastForced=eq)
    b = lambda v: "true" if v else "false"
    text = "\n".join([
        "import XrsVerif.Model.Bin",
        "/-! GENERATED by harness/facts_classify.py from xrspatial/classify.py -- do not edit. -/",
        "namespace XrsVerif.Gen",
        "open XrsVerif.Bin",
        "",
        "/-- the search skeleton of `classify._cpu_bin` as found in the source -/",
        "def cpuBinShape : Shape := " + lean_shape(sh, ok),
        "",
        "/-- dtype of the array `_run_jenks` stores the class breaks in -/",
        f'def jenksBreakDtype : String := "{kdt}"',
        "/-- dtype of the Jenks matrices -/",
        f'def jenksMatrixDtype : String := "{mdt}"',
        "/-- `_run_natural_break`: `bins[-1] = max_data` in the Jenks branch / `bins = unique(append(uv, max_data))` in the too-few-unique-values branch -/",
        f"def nbLastForcedJenks : Bool := {b(nbj)}",
        f"def nbLastForcedFallback : Bool := {b(nbf)}",
        "/-- `_run_quantile` builds exactly k percentile points `arange(1, k + 1) * w` and sets the last to 100.0 -/",
        f"def quantileGridIndexed : Bool := {b(qg)}",
        "/-- `cuts[-1] = max_data` on every path of `_run_equal_interval`, and `cuts` are the bins -/",
        f"def eqIntLastForced : Bool := {b(eq)}",
        "/-- `_run_numpy_bin`: what happens to each operand before `_cpu_bin(data, bins, new_values)` compares them -/",
        "def runBinCasts : BinCasts := { data := " + lean_cast(casts["data"]) + ", bins := " + lean_cast(casts["bins"])
        + ", newValues := " + lean_cast(casts["new_values"]) + ", callOk := " + b(call_ok) + " }",
        "/-- `reclassify` -> `_bin` -> (`_run_dask_numpy_bin` ->) `_run_numpy_bin` pass `agg.data`, `bins`, `new_values` on unchanged -/",
        f"def binChainPassThrough : Bool := {b(chain)}",
        "",
        "end XrsVerif.Gen", ""])
    yield "ClassifyFacts.lean", text, rep
