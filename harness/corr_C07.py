"""
C07 -- chunked proximity / allocation / direction equal the whole-raster result.

Tie: G  `Gen.proximity_dask` (pad expressions, depth order, boundary, fallback, arrays) and
        `Gen.proximity_is_target` are regenerated from /repo; Props/C07.lean proves the halo covers
        max_distance per axis, NaN halo cells are never targets, the fallback is the whole raster.
     H  (1) the depth dask is really called with is captured and compared with the generated `pad`
        evaluated by the driver; (2) real Dask vs real NumPy over chunk compositions, max_distance
        from fractions of a cell to inf, metrics, modes, target lists, non-square / descending
        coordinates -- this differential run is also the failing-input search and carries the part
        of the property that is not a theorem (the sweep on a truncated window).
Domain guard (from the property): cases whose halo exceeds the raster (dask refuses) are skipped and counted.
"""
import math
import multiprocessing as mp
import os

import numpy as np

from common import Driver, tok, untok

PROP = "C07"
MODES = ["proximity", "allocation", "direction"]


def random_composition(rng, n):
    out, left = [], n
    while left > 0:
        c = rng.randrange(1, left + 1) if rng.random() < 0.7 else 1
        out.append(c)
        left -= c
    return tuple(out)


def gen_case(rng):
    h, w = rng.randrange(2, 9), rng.randrange(2, 9)
    sx, sy = rng.choice([(1.0, 1.0), (1.0, 1.0), (2.0, 0.5), (0.5, 1.0), (1.0, 3.0)])
    metric = rng.choice(["EUCLIDEAN", "EUCLIDEAN", "MANHATTAN", "GREAT_CIRCLE"])
    if metric == "GREAT_CIRCLE":
        sx, sy = rng.choice([(1.0, 1.0), (2.0, 0.5)])
    vals = [0.0] * (h * w)
    for _ in range(rng.randrange(1, 6)):
        vals[rng.randrange(h * w)] = float(rng.randrange(1, 6))
    if rng.random() < 0.2:
        vals[rng.randrange(h * w)] = float("nan")
    targets = []
    r_t = rng.random()
    if r_t < 0.25:
        targets = rng.sample([1.0, 2.0, 3.0, 4.0, 5.0], rng.randrange(1, 3))
    elif r_t < 0.4:
        # 0 as an explicit target on a mostly non-zero raster: a halo filled with anything but NaN would add targets
        targets = rng.choice([[0.0], [0.0, 2.0]])
        vals = [1.0] * (h * w)
        for _ in range(rng.randrange(1, 3)):
            vals[rng.randrange(h * w)] = 0.0
        if rng.random() < 0.5:
            vals[rng.randrange(h * w)] = 2.0
    diag = math.hypot((w - 1) * sx, (h - 1) * sy)
    cands = [0.3, 0.5, 1.0, 1.5, 2.0, 2.5, 3.2, 5.0, diag, diag * 0.99, None, 1.0 * sx, 1.0 * sy, 2.0 * sy + 0.25]
    if metric == "GREAT_CIRCLE":
        # cell sizes are degrees but max_distance is metres: a finite halo is either tiny or exceeds the raster
        cands = [None, None, 1e9, 2.0, 1.0, 3.5]
    elif rng.random() < 0.85:
        fit = [m for m in cands if m is None or (int(m / sy + 0.5) <= h and int(m / sx + 0.5) <= w)]
        cands = fit or cands
    md = rng.choice(cands)
    return dict(h=h, w=w, sx=sx, sy=sy, desc_y=rng.random() < 0.4, desc_x=rng.random() < 0.2,
                x0=rng.choice([0.0, 0.0, 10.0, -3.5]), y0=rng.choice([0.0, 0.0, 5.0, -2.0]), metric=metric,
                vals=[tok(v) for v in vals], targets=targets, max_distance=md, mode=rng.choice(MODES),
                rch=list(random_composition(rng, h)), cch=list(random_composition(rng, w)),
                sched=rng.choice([["synchronous", None], ["threads", 2], ["threads", 4]]),
                dtype=rng.choice(["float64", "float32", "int32"]))


def build(c, backend):
    import dask.array as da
    import xarray as xr
    h, w = c["h"], c["w"]
    a = np.array([untok(t) for t in c["vals"]], dtype=np.float64).reshape(h, w)
    if c["dtype"].startswith("int"):
        a = np.nan_to_num(a, nan=0.0)
    a = a.astype(c["dtype"])
    xs = c["x0"] + np.arange(w) * c["sx"]
    ys = c["y0"] + np.arange(h) * c["sy"]
    if c["desc_x"]:
        xs = xs[::-1].copy()
    if c["desc_y"]:
        ys = ys[::-1].copy()
    data = da.from_array(a, chunks=(tuple(c["rch"]), tuple(c["cch"]))) if backend == "dask" else a
    return xr.DataArray(data, dims=["y", "x"], coords={"y": ys, "x": xs})


def run_real(c):
    """numpy and dask results of one case, plus the depth dask was called with"""
    import warnings
    warnings.filterwarnings("ignore")
    import dask
    import dask.array as da
    import importlib
    px = importlib.import_module("xrspatial.proximity")
    fn = getattr(px, c["mode"])
    kw = dict(target_values=list(c["targets"]), distance_metric=c["metric"])
    if c["max_distance"] is not None:
        kw["max_distance"] = c["max_distance"]
    out = {}
    try:
        out["numpy"] = ("ok", np.asarray(fn(build(c, "numpy"), **kw).data).astype(np.float64).tolist())
    except Exception as ex:  # noqa: BLE001
        out["numpy"] = (type(ex).__name__, str(ex)[:200])
    seen = {}
    orig = da.map_overlap

    def spy(*a, **k):
        seen["depth"] = k.get("depth")
        seen["boundary"] = repr(k.get("boundary"))
        seen["chunks"] = [list(map(list, getattr(x, "chunks", ()))) for x in a[1:]]
        return orig(*a, **k)

    da.map_overlap = spy
    try:
        res = fn(build(c, "dask"), **kw)
        lazy = isinstance(res.data, da.Array)
        sched, nw = c["sched"]
        cfg = dict(scheduler=sched)
        if nw:
            cfg["num_workers"] = nw
        with dask.config.set(**cfg):
            val = np.asarray(res.data.compute()).astype(np.float64).tolist()
        out["dask"] = ("ok", val, lazy)
    except Exception as ex:  # noqa: BLE001
        out["dask"] = (type(ex).__name__, str(ex)[:200], None)
    finally:
        da.map_overlap = orig
    out["seen"] = {k: (list(v) if isinstance(v, tuple) else v) for k, v in seen.items()}
    return out


def work(cases):
    return [run_real(c) for c in cases]


def same(a, b):
    return (a != a and b != b) or a == b


def judge(c, res):
    """returns (failure text or None, tags)"""
    tags = [f"mode:{c['mode']}", f"metric:{c['metric']}", f"blocks:{min(9, len(c['rch']) * len(c['cch']))}",
            "maxd:" + ("inf" if c["max_distance"] is None else "finite")]
    n, d = res["numpy"], res["dask"]
    if n[0] != "ok":
        tags.append("numpy-raised:" + n[0])
        return None, tags
    if d[0] != "ok":
        if "overlapping depth" in d[1] and "larger than your array" in d[1]:
            tags.append("skipped:halo-exceeds-raster")     # the domain guard of the property
            return None, tags
        return f"dask raised {d[0]}: {d[1]} while numpy returned a value", tags
    if not d[2]:
        return "result of the Dask-backed call is not Dask-backed", tags
    nv, dv = n[1], d[1]
    diffs = [(i, j) for i in range(c["h"]) for j in range(c["w"]) if not same(nv[i][j], dv[i][j])]
    if not diffs:
        return None, tags
    i, j = diffs[0]
    return (f"{c['mode']} differs at {(i, j)}: numpy {nv[i][j]} vs dask {dv[i][j]} ({len(diffs)} cells), "
            f"chunks {c['rch']}x{c['cch']} max_distance={c['max_distance']} metric={c['metric']}"), tags


def run(r, n_override=None):
    n = n_override or {"quick": 64, "thorough": 640}[r.tier]
    r.rule = ("random rasters 2..8 x 2..8, 1-5 targets (+NaN cell, explicit target lists), cell sizes incl. x != y, "
              "ascending/descending coordinates with offsets, metrics EUCLIDEAN/MANHATTAN/GREAT_CIRCLE, max_distance from "
              "0.3 cell to the raster diagonal and inf, three output modes, random chunk compositions, schedulers "
              "synchronous/threads; non-trivial = more than one block and at least one non-NaN non-target cell")
    cases = [b["case"] for b in r.corpus()] + [gen_case(r.rng) for _ in range(n)]
    nproc = min(16, os.cpu_count() or 4)
    chunks = [cases[i::nproc] for i in range(nproc)]
    with mp.get_context("fork").Pool(nproc) as pool:
        results = pool.map(work, chunks)
    ordered = {}
    for k, (cs, rs) in enumerate(zip(chunks, results)):
        for idx, (c, res) in enumerate(zip(cs, rs)):
            ordered[k + idx * nproc] = (c, res)
    pad_reqs, pad_cases = [], []
    for k in sorted(ordered):
        c, res = ordered[k]
        bad, tags = judge(c, res)
        nontriv = len(c["rch"]) * len(c["cch"]) > 1 and res["numpy"][0] == "ok" and \
            any(v == v and v != 0 for row in res["numpy"][1] for v in row)
        r.case(c, desc=c if k < 3 else None, nontrivial=nontriv, tags=tags)
        if bad:
            r.fail(f"{c['mode']}:{'raises' if 'raised' in bad else 'differs'}", bad, c)
        seen = res.get("seen", {})
        if seen.get("depth") is not None:
            if seen.get("boundary") != "nan":
                r.disagree("wiring", c, f"boundary={seen.get('boundary')}", "model: NaN boundary")
            if any(ch != [c["rch"], c["cch"]] for ch in seen.get("chunks", [])) and tuple(seen["depth"]) != (0, 0):
                r.disagree("wiring", c, f"chunks of mapped arrays {seen.get('chunks')}", "model: all chunked like the raster")
            if c["max_distance"] is not None and tuple(seen["depth"]) != (0, 0):
                pad_reqs.append(f"proxpad maxd={tok(c['max_distance'])} csx={tok(c['sx'])} csy={tok(c['sy'])}")
                pad_cases.append((c, seen["depth"]))
    replies = Driver().ask(pad_reqs)
    for (c, depth), rep in zip(pad_cases, replies):
        r.tag("pad-compared")
        if rep != f"{depth[0]},{depth[1]}":
            r.disagree("pad", c, f"dask was called with depth={depth}", f"generated pad gives {rep}")


def search(r):
    run(r, n_override={"quick": 256, "thorough": 1200}[r.tier])


def replay(r, body):
    c = body["case"]
    bad, _ = judge(c, run_real(c))
    if bad:
        print("still fails:", bad)
        return 1
    print("does not fail on the current tree")
    return 0
